// C08 Every value type advertised as a field is a field with canonical elements.
//
// Monitors (all oracles are the harness' own arithmetic, never the code under test):
//  * certificates  : Rabin irreducibility test of every exported Galois POLYNOMIAL, deterministic
//                    Miller-Rabin on every exported PRIME, DZKP proof-field constants.
//  * small fields  : exhaustive pairs / triples / inverses against the reference.
//  * big fields    : boundary x boundary pairs and seeded random operands against a u128 / 256-bit
//                    reference (schoolbook carry-less multiply + reduction by the exported POLYNOMIAL,
//                    `% PRIME`, own 256-bit arithmetic mod l for Fp25519).
//  * canonical form: value < PRIME, zero padding bits, serialisation == serialisation of reference.
//  * derived helpers: Accumulator, batch_invert, Lagrange tables, AdditiveShare / StdArray / BA vectors
//                    compared with plain element-wise operations.

use std::collections::HashMap;

use generic_array::GenericArray;
use serde_json::{Value, json};
use typenum::Unsigned;

use super::vlib::{self, Recorder, VRng, catch, hex};
use crate::{
    ff::{
        ArrayAccess, Field, Fp31, Fp32BitPrime, Fp61BitPrime, GaloisField, Gf2, Gf3Bit, Gf8Bit,
        Gf9Bit, Gf20Bit, Gf32Bit, Gf40Bit, MultiplyAccumulate, MultiplyAccumulator,
        MultiplyAccumulatorArray, PrimeField, Serializable, U128Conversions, batch_invert,
        boolean::Boolean,
        boolean_array::{BA3, BA4, BA5, BA6, BA7, BA8, BA16, BA20, BA32, BA64, BA112, BA256},
        ec_prime_field::Fp25519,
    },
    protocol::{context::dzkp_field::DZKPBaseField, ipa_prf::LagrangeTable},
    secret_sharing::{
        FieldSimd, SharedValue, SharedValueArray, StdArray, Vectorizable,
        replicated::semi_honest::AdditiveShare,
    },
};

// ---------------------------------------------------------------------------------------------
// reference arithmetic (independent of the code under test)
// ---------------------------------------------------------------------------------------------

/// Carry-less (GF(2)[x]) schoolbook product. Requires deg(a)+deg(b) < 128.
fn clmul_ref(a: u128, b: u128) -> u128 {
    let mut prod = 0u128;
    let mut i = 0;
    let mut bb = b;
    while bb != 0 {
        if bb & 1 == 1 {
            prod ^= a << i;
        }
        bb >>= 1;
        i += 1;
    }
    prod
}
fn poly_deg(f: u128) -> i32 {
    127 - f.leading_zeros() as i32 // -1 for f == 0
}
/// a mod f in GF(2)[x]
fn poly_rem(mut a: u128, f: u128) -> u128 {
    let df = poly_deg(f);
    assert!(df >= 0, "reduction by the zero polynomial");
    while a != 0 && poly_deg(a) >= df {
        a ^= f << (poly_deg(a) - df);
    }
    a
}
fn poly_mulmod(a: u128, b: u128, f: u128) -> u128 {
    poly_rem(clmul_ref(poly_rem(a, f), poly_rem(b, f)), f)
}
fn poly_gcd(mut a: u128, mut b: u128) -> u128 {
    while b != 0 {
        let r = poly_rem(a, b);
        a = b;
        b = r;
    }
    a
}
/// Smallest-degree non-trivial factor of f found by trial division (degree <= maxdeg).
fn smallest_factor(f: u128, maxdeg: i32) -> Option<u128> {
    let df = poly_deg(f);
    let mut g = 2u128;
    while poly_deg(g) <= maxdeg && 2 * poly_deg(g) <= df {
        if poly_rem(f, g) == 0 {
            return Some(g);
        }
        g += 1;
    }
    None
}
fn poly_div_exact(mut a: u128, g: u128) -> u128 {
    let dg = poly_deg(g);
    let mut q = 0u128;
    while a != 0 && poly_deg(a) >= dg {
        let s = poly_deg(a) - dg;
        q |= 1 << s;
        a ^= g << s;
    }
    assert_eq!(a, 0);
    q
}
fn prime_divisors(mut n: u32) -> Vec<u32> {
    let mut v = Vec::new();
    let mut d = 2;
    while d * d <= n {
        if n % d == 0 {
            v.push(d);
            while n % d == 0 {
                n /= d;
            }
        }
        d += 1;
    }
    if n > 1 {
        v.push(n);
    }
    v
}
/// Rabin's irreducibility test for f in GF(2)[x] (deg f <= 63).
fn rabin_irreducible(f: u128) -> bool {
    let n = poly_deg(f);
    if n < 1 || n > 63 {
        return false;
    }
    let n = n as u32;
    let x = poly_rem(2, f);
    let frob = |k: u32| {
        let mut t = x;
        for _ in 0..k {
            t = poly_mulmod(t, t, f);
        }
        t
    };
    if frob(n) != x {
        return false;
    }
    for q in prime_divisors(n) {
        let h = frob(n / q) ^ x;
        if poly_gcd(f, h) != 1 {
            return false;
        }
    }
    true
}

fn mulmod64(a: u128, b: u128, m: u128) -> u128 {
    debug_assert!(m < (1 << 64));
    (a % m) * (b % m) % m
}
fn powmod64(mut a: u128, mut e: u128, m: u128) -> u128 {
    let mut r = 1 % m;
    a %= m;
    while e != 0 {
        if e & 1 == 1 {
            r = mulmod64(r, a, m);
        }
        a = mulmod64(a, a, m);
        e >>= 1;
    }
    r
}
/// Deterministic Miller-Rabin for n < 2^64 (first 12 prime bases).
fn is_prime_u64(n: u128) -> bool {
    assert!(n < (1 << 64));
    if n < 2 {
        return false;
    }
    const BASES: [u128; 12] = [2, 3, 5, 7, 11, 13, 17, 19, 23, 29, 31, 37];
    for p in BASES {
        if n == p {
            return true;
        }
        if n % p == 0 {
            return false;
        }
    }
    let mut d = n - 1;
    let mut s = 0;
    while d % 2 == 0 {
        d /= 2;
        s += 1;
    }
    'base: for a in BASES {
        let mut x = powmod64(a, d, n);
        if x == 1 || x == n - 1 {
            continue;
        }
        for _ in 1..s {
            x = mulmod64(x, x, n);
            if x == n - 1 {
                continue 'base;
            }
        }
        return false;
    }
    true
}

/// Self-test of the certificate routines; a failure is a harness bug => panic => inconclusive.
fn certificate_selftest() {
    // irreducible: x, x+1, x^2+x+1, x^3+x+1, AES polynomial, x^9+x^4+1, x^32+x^7+x^3+x^2+1
    for f in [0b10u128, 0b11, 0b111, 0b1011, 0x11b, 0b10_0001_0001, 0x1_0000_008d] {
        assert!(rabin_irreducible(f), "selftest: {f:#x} is irreducible");
    }
    // reducible: x^2, x^2+1, x^8+1, x^8+x^4+x^3+x (no constant term), (x^4+x+1)^2 = x^8+x^2+1,
    // x^9+x^4+x^3+x+1 + x = ..., product of two irreducibles of degree 16/16
    for f in [0b100u128, 0b101, 0x101, 0x11a, 0b1_0000_0101, clmul_ref(0x1002d, 0x1002b)] {
        assert!(!rabin_irreducible(f), "selftest: {f:#x} is reducible");
    }
    // x^8+x^4+x^3+x^2+1 (0x11d) is irreducible, (x^4+x+1)(x^4+x^3+1) is not
    assert!(rabin_irreducible(0x11d));
    assert!(!rabin_irreducible(clmul_ref(0b10011, 0b11001)));
    for p in [2u128, 3, 31, 4_294_967_291, (1 << 61) - 1, 18_446_744_073_709_551_557] {
        assert!(is_prime_u64(p), "selftest: {p} is prime");
    }
    for c in [0u128, 1, 4, 561, 4_294_967_295, 4_294_967_297, (1 << 61) + 1, 3_215_031_751, 341_550_071_728_321] {
        assert!(!is_prime_u64(c), "selftest: {c} is composite");
    }
}

/// Reference model of one field: integers mod p, or GF(2)[x] / poly.
#[derive(Clone, Copy, Debug, PartialEq, Eq)]
enum Md {
    Prime(u128),
    Poly { poly: u128, n: u32 },
}
impl Md {
    fn size(self) -> u128 {
        match self {
            Md::Prime(p) => p,
            Md::Poly { n, .. } => 1u128 << n,
        }
    }
    fn add(self, a: u128, b: u128) -> u128 {
        match self {
            Md::Prime(p) => (a + b) % p,
            Md::Poly { .. } => a ^ b,
        }
    }
    fn sub(self, a: u128, b: u128) -> u128 {
        match self {
            Md::Prime(p) => (a + p - b) % p,
            Md::Poly { .. } => a ^ b,
        }
    }
    fn neg(self, a: u128) -> u128 {
        match self {
            Md::Prime(p) => (p - a) % p,
            Md::Poly { .. } => a,
        }
    }
    fn mul(self, a: u128, b: u128) -> u128 {
        match self {
            Md::Prime(p) => a * b % p, // a, b < 2^61
            Md::Poly { poly, .. } => poly_rem(clmul_ref(a, b), poly),
        }
    }
    fn pow(self, mut a: u128, mut e: u128) -> u128 {
        let mut r = 1 % self.size();
        while e != 0 {
            if e & 1 == 1 {
                r = self.mul(r, a);
            }
            a = self.mul(a, a);
            e >>= 1;
        }
        r
    }
    /// a^(|F|-2): the inverse iff the modulus is prime / irreducible (checked by the certificates).
    fn inv(self, a: u128) -> u128 {
        self.pow(a, self.size() - 2)
    }
    fn class(self, v: u128) -> &'static str {
        let s = self.size();
        if v == 0 {
            "0"
        } else if v == 1 {
            "1"
        } else if v == s - 1 {
            "max"
        } else if v == s - 2 {
            "max-1"
        } else if v >= s {
            "unreduced"
        } else {
            "other"
        }
    }
    fn boundaries(self) -> Vec<u128> {
        let size = self.size();
        let bits = 128 - (size - 1).leading_zeros();
        let mut v = vec![0, 1, 2, 3, size - 1, size / 2, size / 2 + 1];
        for d in 2..=3 {
            if size > d {
                v.push(size - d);
            }
        }
        if size / 2 > 0 {
            v.push(size / 2 - 1);
        }
        for k in 1..=bits {
            let p2 = 1u128 << k;
            v.extend([p2 - 1, p2, p2 + 1]);
        }
        match self {
            Md::Prime(p) => v.extend([(p - 1) / 2, (p + 1) / 2, p / 3, p - p / 3]),
            Md::Poly { poly, n } => {
                let low = poly & ((1u128 << n) - 1);
                v.extend([low, low ^ 1, low << 1 & ((1u128 << n) - 1), 0x5555_5555_5555_5555_5555 & ((1u128 << n) - 1), 0xaaaa_aaaa_aaaa_aaaa_aaaa & ((1u128 << n) - 1)]);
            }
        }
        v.retain(|x| *x < size);
        v.sort_unstable();
        v.dedup();
        v
    }
}

fn hx(v: u128) -> String {
    format!("{v:#x}")
}

// ---------------------------------------------------------------------------------------------
// checker plumbing
// ---------------------------------------------------------------------------------------------

trait Fx: Field + U128Conversions + Serializable {}
impl<T: Field + U128Conversions + Serializable> Fx for T {}

struct Fd {
    name: &'static str,
    md: Md,
    bytes: usize,
}
fn prime_fd<F: PrimeField>(name: &'static str) -> Fd {
    Fd { name, md: Md::Prime(F::PRIME.into()), bytes: <F as Serializable>::Size::USIZE }
}
fn galois_fd<F: GaloisField>(name: &'static str) -> Fd {
    Fd { name, md: Md::Poly { poly: F::POLYNOMIAL, n: F::BITS }, bytes: <F as Serializable>::Size::USIZE }
}

fn ser<T: Serializable>(x: &T) -> Vec<u8> {
    let mut buf = GenericArray::<u8, T::Size>::default();
    x.serialize(&mut buf);
    buf.to_vec()
}
fn deser_same<T: Serializable + PartialEq>(bytes: &[u8], x: &T) -> bool {
    let buf = GenericArray::<u8, T::Size>::from_slice(bytes);
    matches!(T::deserialize(buf), Ok(v) if v == *x)
}
fn le_bytes(v: u128, n: usize) -> Vec<u8> {
    let mut b = v.to_le_bytes().to_vec();
    b.resize(n.max(16), 0);
    b.truncate(n);
    b
}

/// Recorder + per-signature throttling (a systematic defect fires on thousands of operand tuples;
/// the first few witnesses per exact signature are written, the rest only counted).
struct Ck {
    rec: Recorder,
    dup: HashMap<String, u32>,
}
impl Ck {
    fn new(test: &'static str) -> Self {
        Ck { rec: Recorder::new("C08", test), dup: HashMap::new() }
    }
    fn viol(&mut self, what: &str, sig: Value, witness: Value) {
        let c = self.dup.entry(sig.to_string()).or_insert(0);
        *c += 1;
        if *c <= 2 {
            self.rec.violation(what, sig, witness);
        } else {
            self.rec.count("violations_same_signature_not_listed");
        }
    }
    fn finish(self) {
        self.rec.finish();
    }
}

fn classes(md: Md, ins: &[u128]) -> Vec<&'static str> {
    ins.iter().map(|v| md.class(*v)).collect()
}
fn hexes(ins: &[u128]) -> Vec<String> {
    ins.iter().map(|v| hx(*v)).collect()
}

/// `got` must be the canonical representation of the reference value `expect`.
fn check_value<F: Fx>(ck: &mut Ck, fd: &Fd, op: &'static str, ins: &[u128], got: F, expect: u128, case: usize) -> bool {
    ck.rec.eval();
    let obs = got.as_u128();
    let wit = |extra: Value| json!({"case": case, "field": fd.name, "op": op, "operands": hexes(ins), "expected": hx(expect), "observed": hx(obs), "detail": extra});
    if obs != expect {
        let kind = match fd.md {
            Md::Prime(p) if obs % p == expect => "noncanonical_value",
            _ => "wrong_result",
        };
        ck.viol(
            if kind == "wrong_result" { "field operation disagrees with the independent reference" } else { "field operation returned a non-canonical representative (value >= PRIME)" },
            json!({"field": fd.name, "kind": kind, "op": op, "operands": classes(fd.md, ins)}),
            wit(json!(null)),
        );
        return false;
    }
    let bytes = ser(&got);
    let want = le_bytes(expect, fd.bytes);
    if bytes != want {
        ck.viol(
            "serialisation of a result differs from the serialisation of the reference value",
            json!({"field": fd.name, "kind": "noncanonical_serialization", "op": op, "operands": classes(fd.md, ins)}),
            wit(json!({"serialized": hex(&bytes), "reference": hex(&want)})),
        );
        return false;
    }
    if got != F::truncate_from(expect) {
        ck.viol(
            "result does not compare equal to the canonical element of the same value",
            json!({"field": fd.name, "kind": "unequal_to_canonical", "op": op, "operands": classes(fd.md, ins)}),
            wit(json!(null)),
        );
        return false;
    }
    true
}

/// Two expressions that the field axioms make equal must compare equal and serialise identically.
fn same<F: Fx>(ck: &mut Ck, fd: &Fd, law: &'static str, ins: &[u128], got: F, want: F, case: usize) -> bool {
    ck.rec.eval();
    if got != want || ser(&got) != ser(&want) {
        ck.viol(
            "field law violated (two equal expressions differ or serialise differently)",
            json!({"field": fd.name, "kind": "law", "law": law, "operands": classes(fd.md, ins), "eq": got == want}),
            json!({"case": case, "field": fd.name, "law": law, "operands": hexes(ins), "lhs": hx(got.as_u128()), "rhs": hx(want.as_u128()),
                   "lhs_bytes": hex(&ser(&got)), "rhs_bytes": hex(&ser(&want))}),
        );
        return false;
    }
    true
}

fn check_pair<F: Fx>(ck: &mut Ck, fd: &Fd, a: u128, b: u128, case: usize) {
    let name = fd.name;
    guarded(ck, name, "pair", case, |ck| check_pair_inner::<F>(ck, fd, a, b, case));
}

fn check_pair_inner<F: Fx>(ck: &mut Ck, fd: &Fd, a: u128, b: u128, case: usize) {
    let md = fd.md;
    let (fa, fb) = (F::truncate_from(a), F::truncate_from(b));
    let ins = [a, b];
    let s = fa + fb;
    check_value(ck, fd, "add", &ins, s, md.add(a, b), case);
    let d = fa - fb;
    check_value(ck, fd, "sub", &ins, d, md.sub(a, b), case);
    let m = fa * fb;
    check_value(ck, fd, "mul", &ins, m, md.mul(a, b), case);
    let mut t = fa;
    t += fb;
    same(ck, fd, "add_assign", &ins, t, s, case);
    t = fa;
    t -= fb;
    same(ck, fd, "sub_assign", &ins, t, d, case);
    t = fa;
    t *= fb;
    same(ck, fd, "mul_assign", &ins, t, m, case);
    same(ck, fd, "add_commutes", &ins, fb + fa, s, case);
    same(ck, fd, "mul_commutes", &ins, fb * fa, m, case);
    same(ck, fd, "sub_is_add_neg", &ins, fa + (-fb), d, case);
    ck.rec.eval();
    if a != 0 && b != 0 && m == F::ZERO {
        ck.viol(
            "zero divisor: product of two non-zero elements is zero",
            json!({"field": fd.name, "kind": "zero_divisor"}),
            json!({"case": case, "field": fd.name, "a": hx(a), "b": hx(b)}),
        );
    }
}

fn check_elem<F: Fx>(ck: &mut Ck, fd: &Fd, a: u128, case: usize, invert: Option<fn(F) -> F>) {
    let name = fd.name;
    guarded(ck, name, "element", case, |ck| check_elem_inner::<F>(ck, fd, a, case, invert));
}

fn check_elem_inner<F: Fx>(ck: &mut Ck, fd: &Fd, a: u128, case: usize, invert: Option<fn(F) -> F>) {
    let md = fd.md;
    let ins = [a];
    let fa = F::truncate_from(a);
    if !check_value(ck, fd, "truncate_from", &ins, fa, a, case) {
        return;
    }
    ck.rec.eval();
    match F::try_from(a) {
        Ok(v) if v == fa => {}
        _ => ck.viol(
            "try_from rejects or alters a canonical value",
            json!({"field": fd.name, "kind": "try_from", "operands": classes(md, &ins)}),
            json!({"case": case, "field": fd.name, "a": hx(a)}),
        ),
    }
    ck.rec.eval();
    if !deser_same(&ser(&fa), &fa) {
        ck.viol(
            "serialised canonical element does not deserialise to itself",
            json!({"field": fd.name, "kind": "serialization_roundtrip", "operands": classes(md, &ins)}),
            json!({"case": case, "field": fd.name, "a": hx(a), "bytes": hex(&ser(&fa))}),
        );
    }
    let n = -fa;
    check_value(ck, fd, "neg", &ins, n, md.neg(a), case);
    ck.rec.eval();
    if !deser_same(&ser(&n), &n) {
        ck.viol(
            "serialised result of a negation does not deserialise to itself",
            json!({"field": fd.name, "kind": "serialization_roundtrip", "op": "neg", "operands": classes(md, &ins)}),
            json!({"case": case, "field": fd.name, "a": hx(a), "bytes": hex(&ser(&n))}),
        );
    }
    check_value(ck, fd, "add_neg", &ins, fa + n, 0, case);
    same(ck, fd, "double_neg", &ins, -n, fa, case);
    same(ck, fd, "sub_self", &ins, fa - fa, F::ZERO, case);
    same(ck, fd, "zero_sub", &ins, F::ZERO - fa, n, case);
    same(ck, fd, "add_zero", &ins, fa + F::ZERO, fa, case);
    same(ck, fd, "mul_one", &ins, fa * F::ONE, fa, case);
    same(ck, fd, "one_mul", &ins, F::ONE * fa, fa, case);
    same(ck, fd, "mul_zero", &ins, fa * F::ZERO, F::ZERO, case);
    if a != 0 {
        // the reference inverse exists (certificate of the modulus as seen through the reference)
        let ri = md.inv(a);
        ck.rec.eval();
        if md.mul(a, ri) != 1 {
            ck.viol(
                "a^(|F|-1) != 1 for a non-zero element under the exported modulus: not a field of |F| elements",
                json!({"field": fd.name, "kind": "fermat_identity_fails_under_exported_modulus"}),
                json!({"case": case, "field": fd.name, "a": hx(a), "a^(|F|-2)": hx(ri), "product": hx(md.mul(a, ri))}),
            );
        } else {
            check_value(ck, fd, "mul_by_inverse", &[a, ri], fa * F::truncate_from(ri), 1, case);
        }
        if let Some(inv) = invert {
            match catch(|| inv(fa)) {
                Ok(i) => {
                    if check_value(ck, fd, "invert", &ins, i, ri, case) {
                        check_value(ck, fd, "mul_invert", &ins, fa * i, 1, case);
                    }
                }
                Err(p) => {
                    ck.rec.eval();
                    ck.viol(
                        "invert() panicked on a non-zero element",
                        json!({"field": fd.name, "kind": "invert_panic", "operands": classes(md, &ins)}),
                        json!({"case": case, "field": fd.name, "a": hx(a), "panic": p}),
                    );
                }
            }
        }
    }
}

fn check_triple<F: Fx>(ck: &mut Ck, fd: &Fd, a: u128, b: u128, c: u128, case: usize) {
    let name = fd.name;
    guarded(ck, name, "triple", case, |ck| check_triple_inner::<F>(ck, fd, a, b, c, case));
}

fn check_triple_inner<F: Fx>(ck: &mut Ck, fd: &Fd, a: u128, b: u128, c: u128, case: usize) {
    let md = fd.md;
    let ins = [a, b, c];
    let (fa, fb, fc) = (F::truncate_from(a), F::truncate_from(b), F::truncate_from(c));
    same(ck, fd, "add_assoc", &ins, (fa + fb) + fc, fa + (fb + fc), case);
    same(ck, fd, "mul_assoc", &ins, (fa * fb) * fc, fa * (fb * fc), case);
    same(ck, fd, "distributive", &ins, fa * (fb + fc), fa * fb + fa * fc, case);
    same(ck, fd, "distributive_sub", &ins, (fa - fb) * fc, fa * fc - fb * fc, case);
    check_value(ck, fd, "mul_mul", &ins, (fa * fb) * fc, md.mul(md.mul(a, b), c), case);
    check_value(ck, fd, "mul_add", &ins, fa * (fb + fc), md.mul(a, md.add(b, c)), case);
}

/// Runs one case; a panic of the code under test inside a field operation is a violation.
fn guarded(ck: &mut Ck, field: &'static str, stage: &'static str, case: usize, body: impl FnOnce(&mut Ck)) {
    if let Err(p) = catch(|| body(&mut *ck)) {
        ck.rec.eval();
        let class: String = p.chars().map(|c| if c.is_ascii_digit() { '#' } else { c }).take(80).collect();
        ck.viol(
            "a field / vector operation panicked instead of returning a canonical result",
            json!({"field": field, "kind": "panic", "stage": stage, "panic": class}),
            json!({"case": case, "field": field, "stage": stage, "panic": p}),
        );
    }
}

fn replay_case() -> Option<usize> {
    let p = vlib::env().replay?;
    let w: Value = serde_json::from_str(&std::fs::read_to_string(p).ok()?).ok()?;
    w["witness"]["case"].as_u64().map(|v| v as usize)
}

// ---------------------------------------------------------------------------------------------
// test 1: certificates of the exported constants
// ---------------------------------------------------------------------------------------------

fn cert_galois<F: GaloisField + Fx>(ck: &mut Ck, name: &'static str) {
    let poly = F::POLYNOMIAL;
    let n = F::BITS;
    ck.rec.eval();
    ck.rec.seen("moduli", format!("{name}: POLYNOMIAL={poly:#x} BITS={n}"));
    ck.rec.distinct(&("cert", name));
    if poly_deg(poly) != n as i32 {
        ck.viol(
            "degree of the exported POLYNOMIAL differs from BITS",
            json!({"field": name, "kind": "modulus_degree"}),
            json!({"case": 0, "field": name, "polynomial": hx(poly), "bits": n}),
        );
    } else if !rabin_irreducible(poly) {
        ck.viol(
            "exported POLYNOMIAL is reducible: the type is a ring with zero divisors, not a field",
            json!({"field": name, "kind": "modulus_reducible"}),
            json!({"case": 0, "field": name, "polynomial": hx(poly), "bits": n}),
        );
        // concrete observable consequence on the code under test: factor * cofactor == 0
        if let Some(g) = smallest_factor(poly, 20) {
            let h = poly_div_exact(poly, g);
            let fd = galois_fd::<F>(name);
            let prod = F::truncate_from(g) * F::truncate_from(h);
            let inv_g = fd.md.inv(g);
            ck.rec.eval();
            if prod == F::ZERO {
                ck.viol(
                    "zero divisor: product of two non-zero elements is zero",
                    json!({"field": name, "kind": "zero_divisor"}),
                    json!({"case": 0, "field": name, "a": hx(g), "b": hx(h), "a*b": hx(prod.as_u128()),
                           "polynomial": hx(poly), "a^(2^n-2)*a (reference)": hx(fd.md.mul(g, inv_g))}),
                );
            }
        }
    } else {
        ck.rec.count("irreducible_polynomials_certified");
    }
    let fd = galois_fd::<F>(name);
    check_value(ck, &fd, "ONE", &[], F::ONE, 1, 0);
    check_value(ck, &fd, "ZERO", &[], F::ZERO, 0, 0);
    check_value(ck, &fd, "default", &[], F::default(), 0, 0);
}

fn cert_prime<F: PrimeField + Fx>(ck: &mut Ck, name: &'static str) {
    let p: u128 = F::PRIME.into();
    ck.rec.eval();
    ck.rec.seen("moduli", format!("{name}: PRIME={p} BITS={}", F::BITS));
    ck.rec.distinct(&("cert", name));
    if p >= (1 << 64) || !is_prime_u64(p) {
        ck.viol(
            "exported PRIME is not a prime: the type is a ring with zero divisors, not a field",
            json!({"field": name, "kind": "modulus_composite"}),
            json!({"case": 0, "field": name, "prime": p.to_string()}),
        );
    } else {
        ck.rec.count("primes_certified");
    }
    ck.rec.eval();
    if F::BITS < 128 && p > (1u128 << F::BITS) {
        ck.viol(
            "PRIME does not fit in BITS",
            json!({"field": name, "kind": "modulus_bits"}),
            json!({"case": 0, "field": name, "prime": p.to_string(), "bits": F::BITS}),
        );
    }
    let fd = prime_fd::<F>(name);
    check_value(ck, &fd, "ONE", &[], F::ONE, 1 % p, 0);
    check_value(ck, &fd, "ZERO", &[], F::ZERO, 0, 0);
    check_value(ck, &fd, "default", &[], F::default(), 0, 0);
}

#[test]
fn verif_c08_certificates_x1() {
    certificate_selftest();
    let mut ck = Ck::new("verif_c08_certificates_x1");
    cert_galois::<Gf2>(&mut ck, "Gf2");
    cert_galois::<Gf3Bit>(&mut ck, "Gf3Bit");
    cert_galois::<Gf8Bit>(&mut ck, "Gf8Bit");
    cert_galois::<Gf9Bit>(&mut ck, "Gf9Bit");
    cert_galois::<Gf20Bit>(&mut ck, "Gf20Bit");
    cert_galois::<Gf32Bit>(&mut ck, "Gf32Bit");
    cert_galois::<Gf40Bit>(&mut ck, "Gf40Bit");
    cert_prime::<Boolean>(&mut ck, "Boolean");
    cert_prime::<Fp31>(&mut ck, "Fp31");
    cert_prime::<Fp32BitPrime>(&mut ck, "Fp32BitPrime");
    cert_prime::<Fp61BitPrime>(&mut ck, "Fp61BitPrime");

    // DZKP proof-field constants
    let fd = prime_fd::<Fp61BitPrime>("Fp61BitPrime");
    let p = fd.md.size();
    let half = (p + 1) / 2;
    let two = Fp61BitPrime::ONE + Fp61BitPrime::ONE;
    let inv2 = <Fp61BitPrime as DZKPBaseField>::INVERSE_OF_TWO;
    let mhalf = <Fp61BitPrime as DZKPBaseField>::MINUS_ONE_HALF;
    let mtwo = <Fp61BitPrime as DZKPBaseField>::MINUS_TWO;
    ck.rec.distinct(&("dzkp_constants", 0));
    check_value(&mut ck, &fd, "INVERSE_OF_TWO", &[], inv2, half, 0);
    check_value(&mut ck, &fd, "INVERSE_OF_TWO*2", &[], inv2 * two, 1, 0);
    check_value(&mut ck, &fd, "MINUS_ONE_HALF", &[], mhalf, p - half, 0);
    check_value(&mut ck, &fd, "MINUS_ONE_HALF+INVERSE_OF_TWO", &[], mhalf + inv2, 0, 0);
    check_value(&mut ck, &fd, "MINUS_ONE_HALF*2", &[], mhalf * two, p - 1, 0);
    check_value(&mut ck, &fd, "MINUS_TWO", &[], mtwo, p - 2, 0);
    check_value(&mut ck, &fd, "MINUS_TWO+2", &[], mtwo + two, 0, 0);
    check_value(&mut ck, &fd, "MINUS_TWO*INVERSE_OF_TWO", &[], mtwo * inv2, p - 1, 0);
    ck.rec.count("dzkp_constants_checked");

    // Fp61BitPrime specific constructors
    for v in [0u64, 1, 2, (1 << 61) - 2, (1 << 61) - 1, 1 << 61, (1 << 61) + 1, (1 << 62) - 2, (1 << 62) - 1, u64::MAX - 1, u64::MAX, 0x1234_5678_9abc_def0] {
        check_value(&mut ck, &fd, "const_truncate", &[u128::from(v)], Fp61BitPrime::const_truncate(v), u128::from(v) % p, 0);
    }
    check_value(&mut ck, &fd, "from_bit", &[0], Fp61BitPrime::from_bit(false), 0, 0);
    check_value(&mut ck, &fd, "from_bit", &[1], Fp61BitPrime::from_bit(true), 1, 0);
    ck.finish();
}

// ---------------------------------------------------------------------------------------------
// test 2: exhaustive small fields
// ---------------------------------------------------------------------------------------------

fn small_exhaustive<F: Fx>(ck: &mut Ck, fd: &Fd, base: &mut usize, invert: Option<fn(F) -> F>, only: Option<usize>) {
    let env = vlib::env();
    let q = fd.md.size();
    let triples = q <= 32;
    for a in 0..q {
        let case = *base + a as usize;
        if !env.mine(case) || only.is_some_and(|c| c != case) {
            continue;
        }
        check_elem::<F>(ck, fd, a, case, invert);
        ck.rec.add(&format!("exhaustive_elements_{}", fd.name), 1);
        let fa = F::truncate_from(a);
        let mut partners = Vec::new();
        for b in 0..q {
            check_pair::<F>(ck, fd, a, b, case);
            ck.rec.distinct(&(fd.name, a, b));
            if catch(|| (fa * F::truncate_from(b)).as_u128()).ok() == Some(1) {
                partners.push(b);
            }
        }
        ck.rec.add(&format!("exhaustive_pairs_{}", fd.name), q as u64);
        ck.rec.eval();
        if a != 0 {
            if partners.len() == 1 {
                ck.rec.add(&format!("exhaustive_inverses_{}", fd.name), 1);
            } else {
                ck.viol(
                    "non-zero element does not have exactly one multiplicative inverse",
                    json!({"field": fd.name, "kind": "inverse_count", "count": partners.len()}),
                    json!({"case": case, "field": fd.name, "a": hx(a), "partners": hexes(&partners)}),
                );
            }
        } else if !partners.is_empty() {
            ck.viol(
                "zero has a multiplicative inverse",
                json!({"field": fd.name, "kind": "inverse_of_zero"}),
                json!({"case": case, "field": fd.name, "partners": hexes(&partners)}),
            );
        }
        if triples {
            for b in 0..q {
                for c in 0..q {
                    check_triple::<F>(ck, fd, a, b, c, case);
                    ck.rec.distinct(&(fd.name, a, b, c));
                }
            }
            ck.rec.add(&format!("exhaustive_triples_{}", fd.name), (q * q) as u64);
        }
        if ck.rec.want_sample() && a == q - 1 {
            ck.rec.sample(json!({"case": case, "field": fd.name, "element": hx(a), "pairs": q.to_string(), "triples": triples}));
        }
    }
    *base += q as usize;
}

#[test]
fn verif_c08_small_exhaustive() {
    let mut ck = Ck::new("verif_c08_small_exhaustive");
    let only = replay_case();
    let mut base = 0usize;
    small_exhaustive::<Gf9Bit>(&mut ck, &galois_fd::<Gf9Bit>("Gf9Bit"), &mut base, None, only);
    small_exhaustive::<Gf8Bit>(&mut ck, &galois_fd::<Gf8Bit>("Gf8Bit"), &mut base, None, only);
    small_exhaustive::<Fp31>(&mut ck, &prime_fd::<Fp31>("Fp31"), &mut base, Some(|x: Fp31| x.invert()), only);
    small_exhaustive::<Gf3Bit>(&mut ck, &galois_fd::<Gf3Bit>("Gf3Bit"), &mut base, None, only);
    small_exhaustive::<Gf2>(&mut ck, &galois_fd::<Gf2>("Gf2"), &mut base, None, only);
    small_exhaustive::<Boolean>(&mut ck, &prime_fd::<Boolean>("Boolean"), &mut base, Some(|x: Boolean| x.invert()), only);
    ck.finish();
}

// ---------------------------------------------------------------------------------------------
// test 3: big fields against the reference (boundary x boundary, seeded random)
// ---------------------------------------------------------------------------------------------

fn pick_operand(r: &mut VRng, md: Md, bounds: &[u128]) -> u128 {
    match r.below(4) {
        0 => *r.choose(bounds),
        _ => r.u128() % md.size(),
    }
}

fn big_reference<F: Fx>(ck: &mut Ck, fd: &Fd, base: &mut usize, invert: Option<fn(F) -> F>, only: Option<usize>, salt: u64) {
    let env = vlib::env();
    let md = fd.md;
    let bounds = md.boundaries();
    let nb = bounds.len();
    ck.rec.seen("big_fields", fd.name);
    // (a) every boundary element, every boundary pair
    for (i, a) in bounds.iter().enumerate() {
        let case = *base + i;
        if !env.mine(case) || only.is_some_and(|c| c != case) {
            continue;
        }
        check_elem::<F>(ck, fd, *a, case, invert);
        for b in &bounds {
            check_pair::<F>(ck, fd, *a, *b, case);
            ck.rec.distinct(&(fd.name, *a, *b));
        }
        ck.rec.add(&format!("boundary_pairs_{}", fd.name), nb as u64);
        // boundary triples with a small third set
        for b in [0u128, 1, 2, md.size() - 1, md.size() - 2, md.size() / 2] {
            for c in [1u128, md.size() - 1, md.size() / 2 + 1] {
                check_triple::<F>(ck, fd, *a, b, c, case);
            }
        }
    }
    *base += nb;
    // (b) conversions of unreduced integers
    let size = md.size();
    let mut big: Vec<u128> = vec![size, size + 1, 2 * size - 1, 2 * size, 2 * size + 1, u128::MAX, u128::MAX - 1, u128::MAX / 2, 1 << 64, (1 << 64) - 1, 1 << 127,
        (size - 1) * (size - 1), 64 * (size - 1) * (size - 1) + (size - 1), (1 << 122) - 1, 1 << 122, (1 << 61) - 1, 1 << 61, (1 << 61) + 1];
    for k in 2..40u128 {
        big.extend([k * size - 1, k * size, k * size + 1, size.wrapping_mul(size).wrapping_mul(k)]);
    }
    let mut r = VRng::new(env.seed ^ 0xc08_b16 ^ salt, 0);
    for _ in 0..env.pick(400, 8000) {
        big.push(r.u128());
        big.push(r.u128() >> r.below(100));
    }
    for (i, v) in big.iter().enumerate() {
        let case = *base + i;
        if !env.mine(case) || only.is_some_and(|c| c != case) {
            continue;
        }
        let want = match md {
            Md::Prime(p) => v % p,
            Md::Poly { n, .. } => v & ((1u128 << n) - 1),
        };
        guarded(ck, fd.name, "truncate_from", case, |ck| { check_value(ck, fd, "truncate_from_unreduced", &[*v], F::truncate_from(*v), want, case); });
        ck.rec.count("unreduced_conversions");
    }
    *base += big.len();
    // (c) seeded random operands (1/4 of them boundary values)
    let n_rand = env.pick(8_000, 200_000);
    for i in 0..n_rand {
        let case = *base + i;
        if !env.mine(case) || only.is_some_and(|c| c != case) {
            continue;
        }
        let mut r = VRng::new(env.seed ^ 0xc08_0003 ^ salt, case as u64);
        let (a, b, c) = (pick_operand(&mut r, md, &bounds), pick_operand(&mut r, md, &bounds), pick_operand(&mut r, md, &bounds));
        check_elem::<F>(ck, fd, a, case, invert);
        check_pair::<F>(ck, fd, a, b, case);
        check_triple::<F>(ck, fd, a, b, c, case);
        ck.rec.distinct(&(fd.name, a, b, c));
        ck.rec.add(&format!("random_tuples_{}", fd.name), 1);
        if ck.rec.want_sample() && i % 97 == 5 {
            ck.rec.sample(json!({"case": case, "field": fd.name, "a": hx(a), "b": hx(b), "c": hx(c),
                                 "a*b (reference)": hx(md.mul(a, b)), "a*b (observed)": catch(|| hx((F::truncate_from(a) * F::truncate_from(b)).as_u128())).ok()}));
        }
    }
    *base += n_rand;
}

#[test]
fn verif_c08_big_reference() {
    let mut ck = Ck::new("verif_c08_big_reference");
    let only = replay_case();
    let mut base = 0usize;
    big_reference::<Gf40Bit>(&mut ck, &galois_fd::<Gf40Bit>("Gf40Bit"), &mut base, None, only, 40);
    big_reference::<Gf32Bit>(&mut ck, &galois_fd::<Gf32Bit>("Gf32Bit"), &mut base, None, only, 32);
    big_reference::<Gf20Bit>(&mut ck, &galois_fd::<Gf20Bit>("Gf20Bit"), &mut base, None, only, 20);
    big_reference::<Fp61BitPrime>(&mut ck, &prime_fd::<Fp61BitPrime>("Fp61BitPrime"), &mut base, Some(|x: Fp61BitPrime| x.invert()), only, 61);
    big_reference::<Fp32BitPrime>(&mut ck, &prime_fd::<Fp32BitPrime>("Fp32BitPrime"), &mut base, Some(|x: Fp32BitPrime| x.invert()), only, 3232);
    ck.finish();
}

// ---------------------------------------------------------------------------------------------
// test 4: Gf20Bit — a * a^(2^20-2) == 1 for every non-zero element (exhaustive: all 2^20 - 1 of them)
// ---------------------------------------------------------------------------------------------

#[test]
fn verif_c08_gf20_inverses() {
    let env = vlib::env();
    let mut ck = Ck::new("verif_c08_gf20_inverses");
    let only = replay_case();
    let fd = galois_fd::<Gf20Bit>("Gf20Bit");
    let md = fd.md;
    let stride = 1u128; // exhaustive in both tiers (2^20 - 1 non-zero elements)
    let blocks = 256usize; // case = block of 4096 consecutive elements
    for blk in 0..blocks {
        if !env.mine(blk) || only.is_some_and(|c| c != blk) {
            continue;
        }
        let mut without = 0u64;
        let mut first: Option<u128> = None;
        let lo = (blk as u128) * 4096;
        let mut a = lo + (env.seed as u128 % stride);
        while a < lo + 4096 {
            if a != 0 {
                ck.rec.eval();
                let ri = md.inv(a);
                // observed on the code under test: a * a^(2^20-2) must be ONE
                let prod = catch(|| (Gf20Bit::truncate_from(a) * Gf20Bit::truncate_from(ri)).as_u128());
                if prod == Ok(1) {
                    ck.rec.count("gf20_elements_inverse_is_power");
                } else {
                    without += 1;
                    first.get_or_insert(a);
                }
                ck.rec.count("gf20_elements_checked");
            }
            a += stride;
        }
        ck.rec.distinct(&("gf20blk", blk));
        if without > 0 {
            let a = first.unwrap();
            ck.rec.add("gf20_elements_inverse_is_not_power", without);
            ck.viol(
                "non-zero elements of Gf20Bit with a * a^(2^20-2) != 1 (in a field of 2^20 elements a^(2^20-2) is the inverse of every non-zero a)",
                json!({"field": "Gf20Bit", "kind": "fermat_identity_fails"}),
                json!({"case": blk, "field": "Gf20Bit", "first_element": hx(a), "a^(2^20-2)": hx(md.inv(a)),
                       "observed_product": catch(|| hx((Gf20Bit::truncate_from(a) * Gf20Bit::truncate_from(md.inv(a))).as_u128())).unwrap_or_else(|p| format!("panic: {p}")),
                       "elements_failing_in_block": without, "block": blk, "stride": stride.to_string()}),
            );
        }
    }
    ck.finish();
}

// ---------------------------------------------------------------------------------------------
// test 5 (build b6, -Ctarget-feature=+pclmulqdq): Galois multiplication through the clmul path
// ---------------------------------------------------------------------------------------------

fn clmul_field<F: Fx>(ck: &mut Ck, fd: &Fd, base: &mut usize, only: Option<usize>, salt: u64) {
    let env = vlib::env();
    let md = fd.md;
    let exhaustive = md.size() <= 512;
    let elems: Vec<u128> = if exhaustive { (0..md.size()).collect() } else { md.boundaries() };
    for (i, a) in elems.iter().enumerate() {
        let case = *base + i;
        if !env.mine(case) || only.is_some_and(|c| c != case) {
            continue;
        }
        for b in &elems {
            guarded(ck, fd.name, "clmul", case, |ck| { check_value(ck, fd, "mul", &[*a, *b], F::truncate_from(*a) * F::truncate_from(*b), md.mul(*a, *b), case); });
            ck.rec.distinct(&(fd.name, *a, *b));
        }
        ck.rec.add(&format!("clmul_pairs_{}", fd.name), elems.len() as u64);
    }
    *base += elems.len();
    if !exhaustive {
        let n = env.pick(4000, 60_000);
        for i in 0..n {
            let case = *base + i;
            if !env.mine(case) || only.is_some_and(|c| c != case) {
                continue;
            }
            let mut r = VRng::new(env.seed ^ 0xc08_c1 ^ salt, case as u64);
            let (a, b) = (r.u128() % md.size(), r.u128() % md.size());
            guarded(ck, fd.name, "clmul", case, |ck| { check_value(ck, fd, "mul", &[a, b], F::truncate_from(a) * F::truncate_from(b), md.mul(a, b), case); });
            ck.rec.distinct(&(fd.name, a, b));
            ck.rec.add(&format!("clmul_random_{}", fd.name), 1);
        }
        *base += n;
    }
}

#[test]
fn verif_c08_clmul_galois() {
    let mut ck = Ck::new("verif_c08_clmul_galois");
    if !cfg!(all(target_arch = "x86_64", target_feature = "pclmulqdq")) {
        ck.rec.inconclusive("this build does not compile the pclmulqdq multiplication path");
        ck.finish();
        return;
    }
    ck.rec.count("pclmulqdq_path_compiled");
    let only = replay_case();
    let mut base = 0usize;
    clmul_field::<Gf40Bit>(&mut ck, &galois_fd::<Gf40Bit>("Gf40Bit"), &mut base, only, 40);
    clmul_field::<Gf32Bit>(&mut ck, &galois_fd::<Gf32Bit>("Gf32Bit"), &mut base, only, 32);
    clmul_field::<Gf20Bit>(&mut ck, &galois_fd::<Gf20Bit>("Gf20Bit"), &mut base, only, 20);
    clmul_field::<Gf9Bit>(&mut ck, &galois_fd::<Gf9Bit>("Gf9Bit"), &mut base, only, 9);
    clmul_field::<Gf8Bit>(&mut ck, &galois_fd::<Gf8Bit>("Gf8Bit"), &mut base, only, 8);
    clmul_field::<Gf3Bit>(&mut ck, &galois_fd::<Gf3Bit>("Gf3Bit"), &mut base, only, 3);
    clmul_field::<Gf2>(&mut ck, &galois_fd::<Gf2>("Gf2"), &mut base, only, 2);
    ck.finish();
}

// ---------------------------------------------------------------------------------------------
// test 6: Fp25519 against the harness' own 256-bit arithmetic mod l = 2^252 + 277423177773723535...
// ---------------------------------------------------------------------------------------------

#[derive(Clone, Copy, PartialEq, Eq, Debug, Hash)]
struct U256([u64; 4]); // little-endian limbs

impl U256 {
    const ZERO: U256 = U256([0; 4]);
    const ONE: U256 = U256([1, 0, 0, 0]);
    fn from_u128(v: u128) -> Self {
        U256([v as u64, (v >> 64) as u64, 0, 0])
    }
    fn pow2(k: u32) -> Self {
        let mut l = [0u64; 4];
        l[(k / 64) as usize] = 1 << (k % 64);
        U256(l)
    }
    fn from_le_bytes(b: &[u8]) -> Self {
        let mut l = [0u64; 4];
        for i in 0..4 {
            l[i] = u64::from_le_bytes(b[8 * i..8 * i + 8].try_into().unwrap());
        }
        U256(l)
    }
    fn to_le_bytes(self) -> [u8; 32] {
        let mut b = [0u8; 32];
        for i in 0..4 {
            b[8 * i..8 * i + 8].copy_from_slice(&self.0[i].to_le_bytes());
        }
        b
    }
    fn hex(self) -> String {
        format!("0x{:016x}{:016x}{:016x}{:016x}", self.0[3], self.0[2], self.0[1], self.0[0])
    }
    fn bit(self, i: u32) -> bool {
        (self.0[(i / 64) as usize] >> (i % 64)) & 1 == 1
    }
    fn ge(self, o: U256) -> bool {
        for i in (0..4).rev() {
            if self.0[i] != o.0[i] {
                return self.0[i] > o.0[i];
            }
        }
        true
    }
    fn add(self, o: U256) -> (U256, bool) {
        let mut r = [0u64; 4];
        let mut c = 0u128;
        for i in 0..4 {
            let s = u128::from(self.0[i]) + u128::from(o.0[i]) + c;
            r[i] = s as u64;
            c = s >> 64;
        }
        (U256(r), c != 0)
    }
    fn sub(self, o: U256) -> (U256, bool) {
        let mut r = [0u64; 4];
        let mut b = 0u64;
        for i in 0..4 {
            let (d1, b1) = self.0[i].overflowing_sub(o.0[i]);
            let (d2, b2) = d1.overflowing_sub(b);
            r[i] = d2;
            b = u64::from(b1 || b2);
        }
        (U256(r), b != 0)
    }
    fn mul_wide(self, o: U256) -> [u64; 8] {
        let mut r = [0u64; 8];
        for i in 0..4 {
            let mut carry = 0u128;
            for j in 0..4 {
                let t = u128::from(self.0[i]) * u128::from(o.0[j]) + u128::from(r[i + j]) + carry;
                r[i + j] = t as u64;
                carry = t >> 64;
            }
            r[i + 4] = carry as u64;
        }
        r
    }
}

/// x mod m by binary long division (m < 2^255).
fn reduce_wide(x: &[u64], m: U256) -> U256 {
    let mut r = U256::ZERO;
    let mut started = false;
    for i in (0..x.len() * 64).rev() {
        let bit = (x[i / 64] >> (i % 64)) & 1;
        if !started && bit == 0 {
            continue;
        }
        started = true;
        let (d, _) = r.add(r);
        r = d;
        r.0[0] |= bit;
        if r.ge(m) {
            r = r.sub(m).0;
        }
    }
    r
}

#[derive(Clone, Copy)]
struct ModL(U256);
impl ModL {
    fn new() -> Self {
        let c: u128 = 27_742_317_777_372_353_535_851_937_790_883_648_493;
        ModL(U256([c as u64, (c >> 64) as u64, 0, 1 << 60]))
    }
    fn reduce(self, x: U256) -> U256 {
        reduce_wide(&x.0, self.0)
    }
    fn add(self, a: U256, b: U256) -> U256 {
        let (s, _) = a.add(b); // a, b < l < 2^253
        if s.ge(self.0) { s.sub(self.0).0 } else { s }
    }
    fn neg(self, a: U256) -> U256 {
        if a == U256::ZERO { a } else { self.0.sub(a).0 }
    }
    fn sub(self, a: U256, b: U256) -> U256 {
        self.add(a, self.neg(b))
    }
    fn mul(self, a: U256, b: U256) -> U256 {
        reduce_wide(&a.mul_wide(b), self.0)
    }
    fn pow(self, a: U256, e: U256) -> U256 {
        let mut r = U256::ONE;
        for i in (0..256).rev() {
            r = self.mul(r, r);
            if e.bit(i) {
                r = self.mul(r, a);
            }
        }
        r
    }
    /// Miller-Rabin on l itself with 12 bases (certificate of the reference modulus).
    fn is_probable_prime(self) -> bool {
        let n = self.0;
        let nm1 = n.sub(U256::ONE).0;
        let mut d = nm1;
        let mut s = 0;
        while !d.bit(0) {
            // d >>= 1
            let mut l = d.0;
            for i in 0..4 {
                l[i] = (l[i] >> 1) | if i < 3 { l[i + 1] << 63 } else { 0 };
            }
            d = U256(l);
            s += 1;
        }
        'base: for a in [2u128, 3, 5, 7, 11, 13, 17, 19, 23, 29, 31, 37] {
            let mut x = self.pow(U256::from_u128(a), d);
            if x == U256::ONE || x == nm1 {
                continue;
            }
            for _ in 1..s {
                x = self.mul(x, x);
                if x == nm1 {
                    continue 'base;
                }
            }
            return false;
        }
        true
    }
    fn boundaries(self) -> Vec<U256> {
        let l = self.0;
        let mut v = vec![U256::ZERO, U256::ONE, U256::from_u128(2), U256::from_u128(3), U256::from_u128(u128::MAX), U256::from_u128(u128::MAX - 1)];
        for d in 1..=3u128 {
            v.push(l.sub(U256::from_u128(d)).0);
        }
        let half_up = self.mul(self.pow(U256::from_u128(2), l.sub(U256::from_u128(2)).0), U256::ONE); // 1/2
        v.push(half_up);
        v.push(self.neg(half_up));
        v.push(U256([l.0[0], l.0[1], 0, 0])); // c = l - 2^252
        for k in [1u32, 8, 31, 32, 51, 52, 63, 64, 65, 127, 128, 129, 191, 192, 193, 250, 251, 252] {
            let p = U256::pow2(k);
            v.extend([p.sub(U256::ONE).0, p, p.add(U256::ONE).0]);
        }
        v.retain(|x| !x.ge(l));
        v.sort_by(|a, b| a.0.iter().rev().cmp(b.0.iter().rev()));
        v.dedup();
        v
    }
}

fn fp25519_from(v: U256) -> Fp25519 {
    let b = v.to_le_bytes();
    Fp25519::deserialize_infallible(GenericArray::from_slice(&b))
}
fn fp25519_val(x: Fp25519) -> U256 {
    U256::from_le_bytes(&ser(&x))
}
fn class256(m: ModL, v: U256) -> &'static str {
    if v == U256::ZERO {
        "0"
    } else if v == U256::ONE {
        "1"
    } else if v == m.0.sub(U256::ONE).0 {
        "max"
    } else {
        "other"
    }
}

fn check25519(ck: &mut Ck, m: ModL, op: &'static str, ins: &[U256], got: Fp25519, expect: U256, case: usize) -> bool {
    ck.rec.eval();
    let obs = fp25519_val(got);
    let canonical_eq = got == fp25519_from(expect);
    if obs != expect || !canonical_eq {
        let kind = if obs != expect && m.reduce(obs) == expect { "noncanonical_value" } else if obs != expect { "wrong_result" } else { "unequal_to_canonical" };
        ck.viol(
            "Fp25519 operation disagrees with the 256-bit reference / is not canonical",
            json!({"field": "Fp25519", "kind": kind, "op": op, "operands": ins.iter().map(|v| class256(m, *v)).collect::<Vec<_>>()}),
            json!({"case": case, "field": "Fp25519", "op": op, "operands": ins.iter().map(|v| v.hex()).collect::<Vec<_>>(),
                   "expected": expect.hex(), "observed": obs.hex()}),
        );
        return false;
    }
    true
}
fn same25519(ck: &mut Ck, m: ModL, law: &'static str, ins: &[U256], got: Fp25519, want: Fp25519, case: usize) {
    ck.rec.eval();
    if got != want || ser(&got) != ser(&want) {
        ck.viol(
            "field law violated (two equal expressions differ or serialise differently)",
            json!({"field": "Fp25519", "kind": "law", "law": law, "operands": ins.iter().map(|v| class256(m, *v)).collect::<Vec<_>>(), "eq": got == want}),
            json!({"case": case, "field": "Fp25519", "law": law, "operands": ins.iter().map(|v| v.hex()).collect::<Vec<_>>(),
                   "lhs": fp25519_val(got).hex(), "rhs": fp25519_val(want).hex()}),
        );
    }
}

fn elem25519(ck: &mut Ck, m: ModL, a: U256, case: usize) {
    guarded(ck, "Fp25519", "elem25519", case, |ck| elem25519_inner(ck, m, a, case));
}

fn elem25519_inner(ck: &mut Ck, m: ModL, a: U256, case: usize) {
    let fa = fp25519_from(a);
    if !check25519(ck, m, "deserialize", &[a], fa, a, case) {
        return;
    }
    let n = -fa;
    check25519(ck, m, "neg", &[a], n, m.neg(a), case);
    check25519(ck, m, "add_neg", &[a], fa + n, U256::ZERO, case);
    same25519(ck, m, "double_neg", &[a], -n, fa, case);
    same25519(ck, m, "zero_sub", &[a], Fp25519::ZERO - fa, n, case);
    same25519(ck, m, "add_zero", &[a], fa + Fp25519::ZERO, fa, case);
    same25519(ck, m, "mul_one", &[a], fa * Fp25519::ONE, fa, case);
    same25519(ck, m, "mul_zero", &[a], fa * Fp25519::ZERO, Fp25519::ZERO, case);
    if a != U256::ZERO {
        match catch(|| fa.invert()) {
            Ok(i) => {
                let iv = fp25519_val(i);
                ck.rec.eval();
                // unique inverse: reference product must be one and the value canonical
                if iv.ge(m.0) || m.mul(a, iv) != U256::ONE {
                    ck.viol(
                        "Fp25519::invert is not the multiplicative inverse",
                        json!({"field": "Fp25519", "kind": "wrong_result", "op": "invert", "operands": [class256(m, a)]}),
                        json!({"case": case, "a": a.hex(), "invert": iv.hex()}),
                    );
                }
                check25519(ck, m, "mul_invert", &[a], fa * i, U256::ONE, case);
            }
            Err(p) => ck.viol(
                "invert() panicked on a non-zero element",
                json!({"field": "Fp25519", "kind": "invert_panic", "operands": [class256(m, a)]}),
                json!({"case": case, "a": a.hex(), "panic": p}),
            ),
        }
    }
}
fn pair25519(ck: &mut Ck, m: ModL, a: U256, b: U256, case: usize) {
    guarded(ck, "Fp25519", "pair25519", case, |ck| pair25519_inner(ck, m, a, b, case));
}

fn pair25519_inner(ck: &mut Ck, m: ModL, a: U256, b: U256, case: usize) {
    let (fa, fb) = (fp25519_from(a), fp25519_from(b));
    let ins = [a, b];
    let s = fa + fb;
    check25519(ck, m, "add", &ins, s, m.add(a, b), case);
    let d = fa - fb;
    check25519(ck, m, "sub", &ins, d, m.sub(a, b), case);
    let p = fa * fb;
    check25519(ck, m, "mul", &ins, p, m.mul(a, b), case);
    let mut t = fa;
    t += fb;
    same25519(ck, m, "add_assign", &ins, t, s, case);
    t = fa;
    t -= fb;
    same25519(ck, m, "sub_assign", &ins, t, d, case);
    t = fa;
    t *= fb;
    same25519(ck, m, "mul_assign", &ins, t, p, case);
    same25519(ck, m, "add_commutes", &ins, fb + fa, s, case);
    same25519(ck, m, "mul_commutes", &ins, fb * fa, p, case);
    same25519(ck, m, "sub_is_add_neg", &ins, fa + (-fb), d, case);
}

fn rand256(r: &mut VRng) -> U256 {
    U256([r.next(), r.next(), r.next(), r.next()])
}

#[test]
fn verif_c08_fp25519() {
    let env = vlib::env();
    let mut ck = Ck::new("verif_c08_fp25519");
    let only = replay_case();
    let m = ModL::new();
    assert!(m.is_probable_prime(), "reference modulus l must be prime");
    assert!(!ModL(m.0.sub(U256::from_u128(2)).0).is_probable_prime(), "selftest: l-2 is composite");
    let bounds = m.boundaries();
    let mut base = 0usize;
    for (i, a) in bounds.iter().enumerate() {
        let case = base + i;
        if !env.mine(case) || only.is_some_and(|c| c != case) {
            continue;
        }
        elem25519(&mut ck, m, *a, case);
        for b in &bounds {
            pair25519(&mut ck, m, *a, *b, case);
            ck.rec.distinct(&("Fp25519", *a, *b));
        }
        ck.rec.add("boundary_pairs_Fp25519", bounds.len() as u64);
    }
    base += bounds.len();
    // unreduced byte strings must be reduced mod l on the way in (documented behaviour of deserialize)
    let l = m.0;
    let mut raw = vec![l, l.add(U256::ONE).0, l.add(l).0, U256([u64::MAX; 4]), U256::pow2(255), U256::pow2(253), U256::pow2(253).sub(U256::ONE).0, U256([u64::MAX, u64::MAX, u64::MAX, u64::MAX >> 1])];
    let mut r = VRng::new(env.seed ^ 0xc08_2551, 1);
    for _ in 0..env.pick(64, 2000) {
        raw.push(rand256(&mut r));
    }
    for (i, v) in raw.iter().enumerate() {
        let case = base + i;
        if !env.mine(case) || only.is_some_and(|c| c != case) {
            continue;
        }
        check25519(&mut ck, m, "deserialize_unreduced", &[*v], fp25519_from(*v), m.reduce(*v), case);
        ck.rec.count("unreduced_conversions_Fp25519");
    }
    base += raw.len();
    let n = env.pick(4_000, 60_000);
    for i in 0..n {
        let case = base + i;
        if !env.mine(case) || only.is_some_and(|c| c != case) {
            continue;
        }
        let mut r = VRng::new(env.seed ^ 0xc08_2552, case as u64);
        let mut pick = |r: &mut VRng| if r.below(4) == 0 { *r.choose(&bounds) } else { m.reduce(rand256(r)) };
        let (a, b, c) = (pick(&mut r), pick(&mut r), pick(&mut r));
        pair25519(&mut ck, m, a, b, case);
        if i % 8 == 0 {
            elem25519(&mut ck, m, a, case);
        }
        let (fa, fb, fc) = (fp25519_from(a), fp25519_from(b), fp25519_from(c));
        same25519(&mut ck, m, "mul_assoc", &[a, b, c], (fa * fb) * fc, fa * (fb * fc), case);
        same25519(&mut ck, m, "distributive", &[a, b, c], fa * (fb + fc), fa * fb + fa * fc, case);
        check25519(&mut ck, m, "mul_add", &[a, b, c], fa * (fb + fc), m.mul(a, m.add(b, c)), case);
        ck.rec.distinct(&("Fp25519", a, b, c));
        ck.rec.count("random_tuples_Fp25519");
        if ck.rec.want_sample() && i % 101 == 7 {
            ck.rec.sample(json!({"case": case, "field": "Fp25519", "a": a.hex(), "b": b.hex(), "a*b (reference)": m.mul(a, b).hex()}));
        }
    }
    ck.finish();
}

// ---------------------------------------------------------------------------------------------
// test 7: deferred-reduction accumulators vs plain multiply-add and vs the reference
// ---------------------------------------------------------------------------------------------

const ACC_LENGTHS: &[usize] = &[0, 1, 2, 63, 64, 65, 127, 128, 129, 191, 192, 193, 255, 256, 257, 640];
const ACC_PATTERNS: &[&str] = &["all_max", "max_times_max_minus_1", "zeros", "random", "alternate_max_random", "max_then_small", "boundary_mix", "ones"];

fn acc_operand(pattern: &str, i: usize, p: u128, bounds: &[u128], r: &mut VRng) -> (u128, u128) {
    match pattern {
        "all_max" => (p - 1, p - 1),
        "max_times_max_minus_1" => (p - 1, if p > 2 { p - 2 } else { 1 }),
        "zeros" => (if i % 2 == 0 { 0 } else { r.u128() % p }, if i % 2 == 0 { r.u128() % p } else { 0 }),
        "random" => (r.u128() % p, r.u128() % p),
        "alternate_max_random" => if i % 2 == 0 { (p - 1, p - 1) } else { (r.u128() % p, r.u128() % p) },
        "max_then_small" => if i < 64 { (p - 1, p - 1) } else { (r.below(3) as u128 % p, 1 % p) },
        "boundary_mix" => (*r.choose(bounds), *r.choose(bounds)),
        _ => (1 % p, 1 % p),
    }
}

/// One accumulator case for scalar accumulators: every prefix length 0..=len is observed through
/// clone().take().
fn acc_case<F>(ck: &mut Ck, fd: &Fd, case: usize, pattern: &'static str, len: usize, init: Option<u128>, seed: u64)
where
    F: Fx + MultiplyAccumulate,
{
    let Md::Prime(p) = fd.md else { panic!("prime fields only") };
    let bounds = fd.md.boundaries();
    let mut r = VRng::new(seed, case as u64);
    let res = catch(|| {
        let mut out: Vec<(usize, F, F, u128)> = Vec::new();
        let mut acc = <F as MultiplyAccumulate>::Accumulator::new();
        let mut plain = F::ZERO;
        let mut reference = 0u128;
        if let Some(v) = init {
            // seed the accumulator with one product v * 1
            acc.multiply_accumulate(F::truncate_from(v), F::ONE);
            plain += F::truncate_from(v) * F::ONE;
            reference = (reference + v) % p;
        }
        out.push((0, acc.clone().take(), plain, reference));
        for i in 0..len {
            let (a, b) = acc_operand(pattern, i, p, &bounds, &mut r);
            let (fa, fb) = (F::truncate_from(a), F::truncate_from(b));
            acc.multiply_accumulate(fa, fb);
            plain += fa * fb;
            reference = (reference + a * b % p) % p;
            out.push((i + 1, acc.clone().take(), plain, reference));
        }
        out.push((len, acc.take(), plain, reference));
        out
    });
    let interval = <<F as MultiplyAccumulate>::Accumulator as MultiplyAccumulator<F>>::reduce_interval();
    ck.rec.seen("accumulator_reduce_intervals", format!("{}:{}", fd.name, interval));
    match res {
        Err(pmsg) => {
            ck.rec.eval();
            ck.viol(
                "accumulator panicked (overflow of the deferred-reduction register?)",
                json!({"field": fd.name, "kind": "accumulator_panic", "pattern": pattern}),
                json!({"case": case, "field": fd.name, "pattern": pattern, "len": len, "init": init.map(hx), "panic": pmsg}),
            );
        }
        Ok(out) => {
            for (n, got, plain, reference) in out {
                ck.rec.eval();
                let obs = got.as_u128();
                if obs != reference || got != plain || ser(&got) != le_bytes(reference, fd.bytes) {
                    let kind = if obs != reference && obs % p == reference { "noncanonical_value" } else if obs != reference { "wrong_result" } else { "unequal_to_plain_ops" };
                    ck.viol(
                        "accumulator result differs from plain multiply-add / the reference",
                        json!({"field": fd.name, "kind": kind, "op": "accumulator", "pattern": pattern, "crossed_reduce_interval": n >= interval}),
                        json!({"case": case, "field": fd.name, "pattern": pattern, "len": len, "prefix": n, "init": init.map(hx),
                               "observed": hx(obs), "reference": hx(reference), "plain_ops": hx(plain.as_u128())}),
                    );
                    break;
                }
            }
            ck.rec.count("accumulator_sequences");
            ck.rec.seen("accumulator_lengths", format!("{len}"));
            ck.rec.distinct(&(fd.name, pattern, len, init.is_some()));
        }
    }
}

fn acc_array_case<F, const N: usize>(ck: &mut Ck, fd: &Fd, case: usize, pattern: &'static str, len: usize, seed: u64)
where
    F: Fx + MultiplyAccumulate,
{
    let Md::Prime(p) = fd.md else { panic!("prime fields only") };
    let bounds = fd.md.boundaries();
    let mut r = VRng::new(seed ^ 0xa77a, case as u64);
    let res = catch(|| {
        let mut acc = <F as MultiplyAccumulate>::AccumulatorArray::<N>::new();
        let mut reference = [0u128; N];
        let mut plain = [F::ZERO; N];
        for i in 0..len {
            let mut la = [F::ZERO; N];
            let mut lb = [F::ZERO; N];
            for k in 0..N {
                // lane 0 follows the pattern, the other lanes mix patterns
                let pat = if k == 0 { pattern } else { ACC_PATTERNS[(k + i / 64) % ACC_PATTERNS.len()] };
                let (a, b) = acc_operand(pat, i, p, &bounds, &mut r);
                la[k] = F::truncate_from(a);
                lb[k] = F::truncate_from(b);
                reference[k] = (reference[k] + a * b % p) % p;
                plain[k] += la[k] * lb[k];
            }
            acc.multiply_accumulate(&la, &lb);
        }
        (acc.take(), plain, reference)
    });
    match res {
        Err(pmsg) => {
            ck.rec.eval();
            ck.viol(
                "array accumulator panicked (overflow of the deferred-reduction register?)",
                json!({"field": fd.name, "kind": "accumulator_panic", "pattern": pattern, "array": N}),
                json!({"case": case, "field": fd.name, "pattern": pattern, "len": len, "lanes": N, "panic": pmsg}),
            );
        }
        Ok((got, plain, reference)) => {
            for k in 0..N {
                ck.rec.eval();
                let obs = got[k].as_u128();
                if obs != reference[k] || got[k] != plain[k] || ser(&got[k]) != le_bytes(reference[k], fd.bytes) {
                    let kind = if obs != reference[k] && obs % p == reference[k] { "noncanonical_value" } else if obs != reference[k] { "wrong_result" } else { "unequal_to_plain_ops" };
                    ck.viol(
                        "array accumulator result differs from plain multiply-add / the reference",
                        json!({"field": fd.name, "kind": kind, "op": "accumulator_array", "pattern": pattern, "array": N}),
                        json!({"case": case, "field": fd.name, "pattern": pattern, "len": len, "lane": k, "lanes": N,
                               "observed": hx(obs), "reference": hx(reference[k]), "plain_ops": hx(plain[k].as_u128())}),
                    );
                    break;
                }
            }
            ck.rec.count("accumulator_array_sequences");
            ck.rec.distinct(&(fd.name, "array", N, pattern, len));
        }
    }
}

#[test]
fn verif_c08_accumulator() {
    let env = vlib::env();
    let mut ck = Ck::new("verif_c08_accumulator");
    let only = replay_case();
    let f61 = prime_fd::<Fp61BitPrime>("Fp61BitPrime");
    let f32 = prime_fd::<Fp32BitPrime>("Fp32BitPrime");
    let f31 = prime_fd::<Fp31>("Fp31");
    let p61 = f61.md.size();
    let mut case = 0usize;
    let reps = env.pick(2, 12);
    for rep in 0..reps {
        let seed = env.seed ^ 0xc08_acc ^ ((rep as u64) << 32);
        for pattern in ACC_PATTERNS {
            for len in ACC_LENGTHS {
                for init in [None, Some(p61 - 1), Some(1)] {
                    if env.mine(case) && !only.is_some_and(|c| c != case) {
                        acc_case::<Fp61BitPrime>(&mut ck, &f61, case, pattern, *len, init, seed);
                    }
                    case += 1;
                }
                if env.mine(case) && !only.is_some_and(|c| c != case) {
                    acc_array_case::<Fp61BitPrime, 1>(&mut ck, &f61, case, pattern, *len, seed);
                    acc_array_case::<Fp61BitPrime, 3>(&mut ck, &f61, case, pattern, *len, seed);
                    acc_array_case::<Fp61BitPrime, 8>(&mut ck, &f61, case, pattern, *len, seed);
                }
                case += 1;
                if *len <= 129 {
                    if env.mine(case) && !only.is_some_and(|c| c != case) {
                        acc_case::<Fp32BitPrime>(&mut ck, &f32, case, pattern, *len, None, seed);
                        acc_case::<Fp31>(&mut ck, &f31, case, pattern, *len, None, seed);
                        acc_array_case::<Fp32BitPrime, 4>(&mut ck, &f32, case, pattern, *len, seed);
                    }
                    case += 1;
                }
            }
        }
    }
    ck.finish();
}

// ---------------------------------------------------------------------------------------------
// test 8: batch inversion and Lagrange tables vs direct interpolation in the reference
// ---------------------------------------------------------------------------------------------

fn batch_invert_case<F: Fx + PrimeField, const N: usize>(ck: &mut Ck, fd: &Fd, case: usize, seed: u64) {
    let md = fd.md;
    let p = md.size();
    let bounds: Vec<u128> = md.boundaries().into_iter().filter(|v| *v != 0).collect();
    let mut r = VRng::new(seed ^ 0xba7c, case as u64);
    let vals: Vec<u128> = (0..N).map(|i| if (i + case) % 3 == 0 { *r.choose(&bounds) } else { 1 + r.u128() % (p - 1) }).collect();
    let mut arr: [F; N] = std::array::from_fn(|i| F::truncate_from(vals[i]));
    match catch(|| {
        batch_invert(&mut arr);
        arr
    }) {
        Err(pm) => {
            ck.rec.eval();
            ck.viol(
                "batch_invert panicked on non-zero elements",
                json!({"field": fd.name, "kind": "batch_invert_panic"}),
                json!({"case": case, "field": fd.name, "n": N, "values": hexes(&vals), "panic": pm}),
            );
        }
        Ok(out) => {
            for i in 0..N {
                check_value(ck, fd, "batch_invert", &[vals[i]], out[i], md.inv(vals[i]), case);
                same(ck, fd, "batch_invert_vs_invert", &[vals[i]], out[i], F::truncate_from(vals[i]).invert(), case);
            }
            ck.rec.count("batch_invert_arrays");
            ck.rec.distinct(&(fd.name, "batch_invert", N, case));
        }
    }
    // a zero element: plain invert() is loud (panics); batch inversion must not silently return values
    if N >= 2 && case % 4 == 0 {
        let mut arr: [F; N] = std::array::from_fn(|i| F::truncate_from(vals[i]));
        let z = r.below(N as u64) as usize;
        arr[z] = F::ZERO;
        ck.rec.eval();
        match catch(|| {
            batch_invert(&mut arr);
            arr
        }) {
            Err(_) => ck.rec.count("batch_invert_zero_is_loud"),
            Ok(out) => ck.viol(
                "batch_invert silently returned values for an input containing zero (plain invert panics)",
                json!({"field": fd.name, "kind": "batch_invert_zero_silent"}),
                json!({"case": case, "field": fd.name, "n": N, "zero_at": z, "values": hexes(&vals), "output": out.iter().map(|x| hx(x.as_u128())).collect::<Vec<_>>()}),
            ),
        }
    }
}

/// Obtains the (not re-exported) denominator type through type inference on `LagrangeTable::new`.
fn denominator_via<F: PrimeField, const N: usize, D: Default>(_ctor: impl FnOnce(&D, &F) -> LagrangeTable<F, N, 1>) -> D {
    D::default()
}

struct RefLagrange {
    p: u128,
    n: usize,
    inv_den: Vec<u128>,
}
impl RefLagrange {
    fn new(p: u128, n: usize) -> Self {
        let md = Md::Prime(p);
        let inv_den = (0..n)
            .map(|i| {
                let mut d = 1u128;
                for j in 0..n {
                    if j != i {
                        d = md.mul(d, md.sub(i as u128 % p, j as u128 % p));
                    }
                }
                md.inv(d)
            })
            .collect();
        RefLagrange { p, n, inv_den }
    }
    /// value at x of the unique polynomial of degree < n through (i, ys[i])
    fn eval(&self, ys: &[u128], x: u128) -> u128 {
        let md = Md::Prime(self.p);
        let mut acc = 0u128;
        for i in 0..self.n {
            if ys[i] == 0 {
                continue;
            }
            let mut num = 1u128;
            for j in 0..self.n {
                if j != i {
                    num = md.mul(num, md.sub(x, j as u128));
                }
            }
            acc = md.add(acc, md.mul(ys[i], md.mul(num, self.inv_den[i])));
        }
        acc
    }
}
fn horner(p: u128, coef: &[u128], x: u128) -> u128 {
    let md = Md::Prime(p);
    coef.iter().rev().fold(0u128, |acc, c| md.add(md.mul(acc, x), *c))
}

fn lagrange_config<F: Fx + PrimeField, const N: usize, const M: usize>(ck: &mut Ck, fd: &Fd, base: &mut usize, only: Option<usize>) {
    let env = vlib::env();
    let p = fd.md.size();
    let trials = 2 * N + 3 + env.pick(40, 400);
    let mine: Vec<usize> = (0..trials).filter(|t| env.mine(*base + t) && !only.is_some_and(|c| c != *base + t)).collect();
    let first = *base;
    *base += trials;
    if mine.is_empty() {
        return;
    }
    let cfg = format!("{}:N={N},M={M}", fd.name);
    if !is_prime_u64(p) {
        // interpolation is only defined over a field; the certificate test reports the same fact
        ck.rec.eval();
        ck.viol(
            "exported PRIME is not a prime: the type is a ring with zero divisors, not a field",
            json!({"field": fd.name, "kind": "modulus_composite"}),
            json!({"case": first, "field": fd.name, "prime": p.to_string(), "config": cfg}),
        );
        return;
    }
    let built = catch(|| {
        let d1 = denominator_via::<F, N, _>(LagrangeTable::<F, N, 1>::new);
        let d2 = denominator_via::<F, N, _>(LagrangeTable::<F, N, 1>::new);
        (LagrangeTable::<F, N, M>::from(d1), d2)
    });
    let (table, denom) = match built {
        Ok(v) => v,
        Err(pm) => {
            ck.rec.eval();
            ck.viol(
                "construction of Lagrange denominators/table panicked for a supported size",
                json!({"field": fd.name, "kind": "lagrange_panic", "n": N, "m": M}),
                json!({"case": first, "config": cfg, "panic": pm}),
            );
            return;
        }
    };
    ck.rec.seen("lagrange_configs", cfg.clone());
    let rl = RefLagrange::new(p, N);
    let bounds = fd.md.boundaries();
    for t in mine {
        let case = first + t;
        let mut r = VRng::new(env.seed ^ 0x1a6a, case as u64);
        let (kind, ys): (&str, Vec<u128>) = if t < N {
            ("unit", (0..N).map(|i| u128::from(i == t)).collect())
        } else if t < 2 * N {
            ("max_unit", (0..N).map(|i| if i == t - N { p - 1 } else { 0 }).collect())
        } else if t == 2 * N {
            ("zeros", vec![0; N])
        } else if t == 2 * N + 1 {
            ("all_max", vec![p - 1; N])
        } else if t == 2 * N + 2 {
            ("all_ones", vec![1; N])
        } else if t % 3 == 0 {
            // y values of a random polynomial (coefficients incl. boundary values): Horner is a second oracle
            let coef: Vec<u128> = (0..N).map(|_| if r.below(4) == 0 { *r.choose(&bounds) } else { r.u128() % p }).collect();
            let ys: Vec<u128> = (0..N).map(|i| horner(p, &coef, i as u128)).collect();
            for k in 0..M {
                assert_eq!(rl.eval(&ys, (N + k) as u128 % p), horner(p, &coef, (N + k) as u128 % p), "harness: reference interpolation disagrees with Horner");
            }
            ("random_polynomial", ys)
        } else if t % 3 == 1 {
            ("random_y", (0..N).map(|_| r.u128() % p).collect())
        } else {
            ("boundary_y", (0..N).map(|_| *r.choose(&bounds)).collect())
        };
        let y: [F; N] = std::array::from_fn(|i| F::truncate_from(ys[i]));
        // (1) table for the canonical output points N..N+M-1
        match catch(|| table.eval(&y)) {
            Ok(out) => {
                for k in 0..M {
                    let x = (N + k) as u128;
                    let want = rl.eval(&ys, x);
                    ck.rec.eval();
                    let obs = out[k].as_u128();
                    if obs != want || ser(&out[k]) != le_bytes(want, fd.bytes) {
                        ck.viol(
                            "LagrangeTable::eval differs from direct polynomial interpolation",
                            json!({"field": fd.name, "kind": if obs % p == want { "noncanonical_value" } else { "wrong_result" }, "op": "lagrange_eval", "n": N, "m": M, "input": kind}),
                            json!({"case": case, "config": cfg, "input": kind, "y": hexes(&ys), "x": x.to_string(), "observed": hx(obs), "expected": hx(want)}),
                        );
                        break;
                    }
                }
            }
            Err(pm) => {
                ck.rec.eval();
                ck.viol(
                    "LagrangeTable::eval panicked",
                    json!({"field": fd.name, "kind": "lagrange_panic", "n": N, "m": M}),
                    json!({"case": case, "config": cfg, "input": kind, "y": hexes(&ys), "panic": pm}),
                );
            }
        }
        // (2) single-point table at an arbitrary x (including the input points themselves)
        let x = match t % 7 {
            0 => (t % N) as u128,
            1 => p - 1,
            2 => p - 2,
            3 => (p + 1) / 2,
            4 => N as u128 % p,
            _ => r.u128() % p,
        };
        match catch(|| LagrangeTable::<F, N, 1>::new(&denom, &F::truncate_from(x)).eval(&y)) {
            Ok(out) => {
                let want = rl.eval(&ys, x);
                ck.rec.eval();
                let obs = out[0].as_u128();
                if obs != want || ser(&out[0]) != le_bytes(want, fd.bytes) {
                    ck.viol(
                        "LagrangeTable::new(x).eval differs from direct polynomial interpolation",
                        json!({"field": fd.name, "kind": if obs % p == want { "noncanonical_value" } else { "wrong_result" }, "op": "lagrange_new_eval", "n": N, "input": kind,
                               "x_is_input_point": x < N as u128}),
                        json!({"case": case, "config": cfg, "input": kind, "y": hexes(&ys), "x": hx(x), "observed": hx(obs), "expected": hx(want)}),
                    );
                }
            }
            Err(pm) => {
                ck.rec.eval();
                ck.viol(
                    "LagrangeTable::new / eval panicked",
                    json!({"field": fd.name, "kind": "lagrange_panic", "n": N, "m": 1}),
                    json!({"case": case, "config": cfg, "input": kind, "x": hx(x), "panic": pm}),
                );
            }
        }
        ck.rec.count("lagrange_evaluations");
        ck.rec.seen("lagrange_inputs", kind);
        ck.rec.distinct(&(fd.name, N, M, t));
        if ck.rec.want_sample() && t == 2 * N + 3 {
            ck.rec.sample(json!({"case": case, "config": cfg, "input": kind, "y": hexes(&ys[..ys.len().min(4)]), "x": hx(x), "p(x) (reference)": hx(rl.eval(&ys, x))}));
        }
    }
}

#[test]
fn verif_c08_lagrange() {
    let env = vlib::env();
    let mut ck = Ck::new("verif_c08_lagrange");
    let only = replay_case();
    let f61 = prime_fd::<Fp61BitPrime>("Fp61BitPrime");
    let f32 = prime_fd::<Fp32BitPrime>("Fp32BitPrime");
    let f31 = prime_fd::<Fp31>("Fp31");
    let mut base = 0usize;
    lagrange_config::<Fp61BitPrime, 1, 1>(&mut ck, &f61, &mut base, only);
    lagrange_config::<Fp61BitPrime, 2, 1>(&mut ck, &f61, &mut base, only);
    lagrange_config::<Fp61BitPrime, 2, 3>(&mut ck, &f61, &mut base, only);
    lagrange_config::<Fp61BitPrime, 3, 2>(&mut ck, &f61, &mut base, only);
    lagrange_config::<Fp61BitPrime, 4, 3>(&mut ck, &f61, &mut base, only);
    lagrange_config::<Fp61BitPrime, 8, 7>(&mut ck, &f61, &mut base, only);
    lagrange_config::<Fp61BitPrime, 16, 15>(&mut ck, &f61, &mut base, only);
    lagrange_config::<Fp61BitPrime, 32, 31>(&mut ck, &f61, &mut base, only);
    lagrange_config::<Fp61BitPrime, 64, 15>(&mut ck, &f61, &mut base, only);
    lagrange_config::<Fp61BitPrime, 65, 3>(&mut ck, &f61, &mut base, only);
    lagrange_config::<Fp61BitPrime, 130, 3>(&mut ck, &f61, &mut base, only);
    lagrange_config::<Fp32BitPrime, 8, 7>(&mut ck, &f32, &mut base, only);
    lagrange_config::<Fp32BitPrime, 32, 1>(&mut ck, &f32, &mut base, only);
    lagrange_config::<Fp31, 2, 1>(&mut ck, &f31, &mut base, only);
    lagrange_config::<Fp31, 4, 3>(&mut ck, &f31, &mut base, only);
    lagrange_config::<Fp31, 8, 7>(&mut ck, &f31, &mut base, only);
    lagrange_config::<Fp31, 15, 15>(&mut ck, &f31, &mut base, only);
    ck.finish();
}

#[test]
fn verif_c08_batch_invert() {
    let env = vlib::env();
    let mut ck = Ck::new("verif_c08_batch_invert");
    let only = replay_case();
    let f61 = prime_fd::<Fp61BitPrime>("Fp61BitPrime");
    let f32 = prime_fd::<Fp32BitPrime>("Fp32BitPrime");
    let f31 = prime_fd::<Fp31>("Fp31");
    let base = 0usize;
    // batch inversion
    let n = env.pick(120, 1500);
    for i in 0..n {
        let case = base + i;
        if !env.mine(case) || only.is_some_and(|c| c != case) {
            continue;
        }
        let seed = env.seed;
        batch_invert_case::<Fp61BitPrime, 1>(&mut ck, &f61, case, seed);
        batch_invert_case::<Fp61BitPrime, 2>(&mut ck, &f61, case, seed);
        batch_invert_case::<Fp61BitPrime, 3>(&mut ck, &f61, case, seed);
        batch_invert_case::<Fp61BitPrime, 32>(&mut ck, &f61, case, seed);
        batch_invert_case::<Fp61BitPrime, 100>(&mut ck, &f61, case, seed);
        batch_invert_case::<Fp32BitPrime, 8>(&mut ck, &f32, case, seed);
        batch_invert_case::<Fp31, 5>(&mut ck, &f31, case, seed);
        batch_invert_case::<Fp31, 30>(&mut ck, &f31, case, seed);
    }
    ck.finish();
}

// ---------------------------------------------------------------------------------------------
// test 9: replicated shares, StdArray vectors and Boolean arrays vs element-wise plain operations
// ---------------------------------------------------------------------------------------------

/// Operand generator (boundary-biased) for every field type, including Fp25519.
trait Gen: Field {
    const GNAME: &'static str;
    fn draw(r: &mut VRng) -> Self;
    fn show(&self) -> String;
}
macro_rules! gen_u128 {
    ($t:ty, $size:expr) => {
        impl Gen for $t {
            const GNAME: &'static str = stringify!($t);
            fn draw(r: &mut VRng) -> Self {
                let size: u128 = $size;
                let v = match r.below(8) {
                    0 => 0,
                    1 => 1 % size,
                    2 => size - 1,
                    3 => size.saturating_sub(2),
                    _ => r.u128() % size,
                };
                <$t as U128Conversions>::truncate_from(v)
            }
            fn show(&self) -> String {
                hx(U128Conversions::as_u128(self))
            }
        }
    };
}
gen_u128!(Fp31, 31);
gen_u128!(Fp32BitPrime, 4_294_967_291);
gen_u128!(Fp61BitPrime, (1 << 61) - 1);
gen_u128!(Boolean, 2);
gen_u128!(Gf2, 2);
gen_u128!(Gf3Bit, 8);
gen_u128!(Gf8Bit, 256);
gen_u128!(Gf9Bit, 512);
gen_u128!(Gf20Bit, 1 << 20);
gen_u128!(Gf32Bit, 1 << 32);
gen_u128!(Gf40Bit, 1 << 40);
impl Gen for Fp25519 {
    const GNAME: &'static str = "Fp25519";
    fn draw(r: &mut VRng) -> Self {
        let m = ModL::new();
        match r.below(6) {
            0 => Fp25519::ZERO,
            1 => Fp25519::ONE,
            2 => fp25519_from(m.0.sub(U256::ONE).0),
            _ => fp25519_from(rand256(r)),
        }
    }
    fn show(&self) -> String {
        fp25519_val(*self).hex()
    }
}

fn shows<F: Gen>(v: &[F]) -> Vec<String> {
    v.iter().map(Gen::show).collect()
}

fn vec_check<F: Gen>(ck: &mut Ck, container: &'static str, n: usize, op: &'static str, got: Vec<F>, want: Vec<F>, case: usize, inputs: &Value) {
    ck.rec.eval();
    let same_ser = got.len() == want.len() && got.iter().zip(&want).all(|(g, w)| ser(g) == ser(w));
    if got != want || !same_ser {
        ck.viol(
            "vector / share operation differs from element-wise plain field operations",
            json!({"field": F::GNAME, "kind": "vector_op", "container": container, "width": n, "op": op, "eq": got == want}),
            json!({"case": case, "field": F::GNAME, "container": container, "width": n, "op": op, "inputs": inputs, "observed": shows(&got), "expected": shows(&want)}),
        );
    }
}

fn zipw<F: Copy>(a: &[F], b: &[F], f: impl Fn(F, F) -> F) -> Vec<F> {
    a.iter().zip(b).map(|(x, y)| f(*x, *y)).collect()
}

fn share_ops<F, const N: usize>(ck: &mut Ck, case: usize, seed: u64)
where
    F: Gen + FieldSimd<N>,
{
    let mut r = VRng::new(seed ^ 0x5a5e ^ (N as u64) << 20, case as u64);
    let mk = |r: &mut VRng| -> Vec<F> { (0..N).map(|_| F::draw(r)).collect() };
    let (al, ar, bl, br) = (mk(&mut r), mk(&mut r), mk(&mut r), mk(&mut r));
    let c = F::draw(&mut r);
    let arr = |v: &Vec<F>| -> <F as Vectorizable<N>>::Array { v.iter().copied().collect() };
    let x = AdditiveShare::<F, N>::new_arr(arr(&al), arr(&ar));
    let y = AdditiveShare::<F, N>::new_arr(arr(&bl), arr(&br));
    let out = |s: &AdditiveShare<F, N>| -> Vec<F> {
        let mut v: Vec<F> = s.left_arr().clone().into_iter().collect();
        v.extend(s.right_arr().clone().into_iter());
        v
    };
    let both = |l: Vec<F>, rr: Vec<F>| -> Vec<F> {
        let mut v = l;
        v.extend(rr);
        v
    };
    let inputs = json!({"x_left": shows(&al), "x_right": shows(&ar), "y_left": shows(&bl), "y_right": shows(&br), "c": c.show()});
    let cont = "AdditiveShare";
    let add = both(zipw(&al, &bl, |p, q| p + q), zipw(&ar, &br, |p, q| p + q));
    let sub = both(zipw(&al, &bl, |p, q| p - q), zipw(&ar, &br, |p, q| p - q));
    let neg = both(al.iter().map(|p| -*p).collect(), ar.iter().map(|p| -*p).collect());
    let mulc = both(al.iter().map(|p| *p * c).collect(), ar.iter().map(|p| *p * c).collect());
    vec_check(ck, cont, N, "ref+ref", out(&(&x + &y)), add.clone(), case, &inputs);
    vec_check(ck, cont, N, "own+own", out(&(x.clone() + y.clone())), add.clone(), case, &inputs);
    vec_check(ck, cont, N, "own+ref", out(&(x.clone() + &y)), add.clone(), case, &inputs);
    vec_check(ck, cont, N, "ref+own", out(&(&x + y.clone())), add.clone(), case, &inputs);
    let mut t = x.clone();
    t += &y;
    vec_check(ck, cont, N, "+=ref", out(&t), add.clone(), case, &inputs);
    let mut t = x.clone();
    t += y.clone();
    vec_check(ck, cont, N, "+=own", out(&t), add, case, &inputs);
    vec_check(ck, cont, N, "ref-ref", out(&(&x - &y)), sub.clone(), case, &inputs);
    vec_check(ck, cont, N, "own-own", out(&(x.clone() - y.clone())), sub.clone(), case, &inputs);
    vec_check(ck, cont, N, "own-ref", out(&(x.clone() - &y)), sub.clone(), case, &inputs);
    vec_check(ck, cont, N, "ref-own", out(&(&x - y.clone())), sub.clone(), case, &inputs);
    let mut t = x.clone();
    t -= &y;
    vec_check(ck, cont, N, "-=ref", out(&t), sub.clone(), case, &inputs);
    let mut t = x.clone();
    t -= y.clone();
    vec_check(ck, cont, N, "-=own", out(&t), sub, case, &inputs);
    vec_check(ck, cont, N, "neg ref", out(&(-&x)), neg.clone(), case, &inputs);
    vec_check(ck, cont, N, "neg own", out(&(-x.clone())), neg, case, &inputs);
    vec_check(ck, cont, N, "ref*ref const", out(&(&x * &c)), mulc.clone(), case, &inputs);
    vec_check(ck, cont, N, "own*const", out(&(x.clone() * c)), mulc.clone(), case, &inputs);
    vec_check(ck, cont, N, "own*ref const", out(&(x.clone() * &c)), mulc.clone(), case, &inputs);
    vec_check(ck, cont, N, "ref*const", out(&(&x * c)), mulc, case, &inputs);
    ck.rec.seen("share_types", format!("AdditiveShare<{},{}>", F::GNAME, N));
    ck.rec.distinct(&("share", F::GNAME, N, case));
}

fn stdarray_ops<F: Gen, const N: usize>(ck: &mut Ck, case: usize, seed: u64) {
    let mut r = VRng::new(seed ^ 0x57da ^ (N as u64) << 20, case as u64);
    let mk = |r: &mut VRng| -> Vec<F> { (0..N).map(|_| F::draw(r)).collect() };
    let (a, b) = (mk(&mut r), mk(&mut r));
    let c = F::draw(&mut r);
    let arr = |v: &Vec<F>| -> StdArray<F, N> { StdArray::<F, N>::try_from(v.clone()).unwrap() };
    let out = |s: StdArray<F, N>| -> Vec<F> { s.into_iter().collect() };
    let (x, y) = (arr(&a), arr(&b));
    let inputs = json!({"x": shows(&a), "y": shows(&b), "c": c.show()});
    let cont = "StdArray";
    let add = zipw(&a, &b, |p, q| p + q);
    let sub = zipw(&a, &b, |p, q| p - q);
    let mul = zipw(&a, &b, |p, q| p * q);
    let neg: Vec<F> = a.iter().map(|p| -*p).collect();
    let mulc: Vec<F> = a.iter().map(|p| *p * c).collect();
    vec_check(ck, cont, N, "ref+ref", out(&x + &y), add.clone(), case, &inputs);
    vec_check(ck, cont, N, "own+own", out(x.clone() + y.clone()), add.clone(), case, &inputs);
    vec_check(ck, cont, N, "own+ref", out(x.clone() + &y), add.clone(), case, &inputs);
    vec_check(ck, cont, N, "ref+own", out(&x + y.clone()), add.clone(), case, &inputs);
    let mut t = x.clone();
    t += &y;
    vec_check(ck, cont, N, "+=ref", out(t), add.clone(), case, &inputs);
    let mut t = x.clone();
    t += y.clone();
    vec_check(ck, cont, N, "+=own", out(t), add, case, &inputs);
    vec_check(ck, cont, N, "ref-ref", out(&x - &y), sub.clone(), case, &inputs);
    vec_check(ck, cont, N, "own-own", out(x.clone() - y.clone()), sub.clone(), case, &inputs);
    vec_check(ck, cont, N, "own-ref", out(x.clone() - &y), sub.clone(), case, &inputs);
    vec_check(ck, cont, N, "ref-own", out(&x - y.clone()), sub.clone(), case, &inputs);
    let mut t = x.clone();
    t -= &y;
    vec_check(ck, cont, N, "-=ref", out(t), sub.clone(), case, &inputs);
    let mut t = x.clone();
    t -= y.clone();
    vec_check(ck, cont, N, "-=own", out(t), sub, case, &inputs);
    vec_check(ck, cont, N, "neg ref", out(-&x), neg.clone(), case, &inputs);
    vec_check(ck, cont, N, "neg own", out(-x.clone()), neg, case, &inputs);
    vec_check(ck, cont, N, "ref*ref const", out(&x * &c), mulc.clone(), case, &inputs);
    vec_check(ck, cont, N, "own*const", out(x.clone() * c), mulc.clone(), case, &inputs);
    vec_check(ck, cont, N, "own*ref const", out(x.clone() * &c), mulc.clone(), case, &inputs);
    vec_check(ck, cont, N, "ref*const", out(&x * c), mulc, case, &inputs);
    vec_check(ck, cont, N, "own*ref array", out(x.clone() * &y), mul, case, &inputs);
    ck.rec.seen("array_types", format!("StdArray<{},{}>", F::GNAME, N));
    ck.rec.distinct(&("stdarray", F::GNAME, N, case));
}

/// Packed Boolean vectors (the `Vectorizable<N>::Array` of `Boolean`): element-wise agreement with
/// Boolean plain ops, zero padding bits, canonical serialisation.
macro_rules! ba_ops {
    ($fname:ident, $ba:ty, $bits:expr) => {
        fn $fname(ck: &mut Ck, case: usize, seed: u64) {
            const N: usize = $bits;
            let name = stringify!($ba);
            let mut r = VRng::new(seed ^ 0xba00 ^ (N as u64) << 24, case as u64);
            let mk = |r: &mut VRng| -> Vec<Boolean> {
                match r.below(5) {
                    0 => vec![Boolean::ZERO; N],
                    1 => vec![Boolean::ONE; N],
                    _ => (0..N).map(|_| Boolean::from(r.bool())).collect(),
                }
            };
            let (a, b) = (mk(&mut r), mk(&mut r));
            let c = Boolean::from(r.bool());
            let x: $ba = a.iter().copied().collect();
            let y: $ba = b.iter().copied().collect();
            let bits = |v: &[Boolean]| -> String { v.iter().map(|b| if bool::from(*b) { '1' } else { '0' }).collect() };
            let pack = |v: &[Boolean]| -> Vec<u8> {
                let mut out = vec![0u8; (N + 7) / 8];
                for (i, b) in v.iter().enumerate() {
                    if bool::from(*b) {
                        out[i / 8] |= 1 << (i % 8);
                    }
                }
                out
            };
            let mut check = |op: &'static str, got: $ba, want: Vec<Boolean>| {
                ck.rec.eval();
                let elems: Vec<Boolean> = (0..N).map(|i| got.get(i).unwrap()).collect();
                let canon: $ba = want.iter().copied().collect();
                let bytes = ser(&got);
                let roundtrip = deser_same(&bytes, &got);
                let kind = if elems != want {
                    Some("wrong_result")
                } else if bytes != pack(&want) {
                    Some("nonzero_padding_bits")
                } else if got != canon {
                    Some("unequal_to_canonical")
                } else if !roundtrip {
                    Some("serialization_roundtrip")
                } else {
                    None
                };
                if let Some(kind) = kind {
                    ck.viol(
                        "Boolean vector operation is not the canonical element-wise result",
                        json!({"field": "Boolean", "kind": kind, "container": name, "op": op}),
                        json!({"case": case, "container": name, "op": op, "x": bits(&a), "y": bits(&b), "c": bool::from(c),
                               "observed_bits": bits(&elems), "expected_bits": bits(&want), "serialized": hex(&bytes), "expected_serialized": hex(&pack(&want)),
                               "deserializes": roundtrip}),
                    );
                }
            };
            check("collect", x, a.clone());
            // constructors that fill a whole array must leave the padding bits of the last byte zero as well
            check("expand_one", <$ba as crate::ff::Expand<Boolean>>::expand(&Boolean::ONE), vec![Boolean::ONE; N]);
            check("expand_zero", <$ba as crate::ff::Expand<Boolean>>::expand(&Boolean::ZERO), vec![Boolean::ZERO; N]);
            check("expand_bit", <$ba as crate::ff::Expand<Boolean>>::expand(&c), vec![c; N]);
            check("from_fn", <$ba as crate::secret_sharing::SharedValueArray<Boolean>>::from_fn(|i| a[i]), a.clone());
            check("try_from_vec", <$ba>::try_from(a.clone()).unwrap(), a.clone());
            check("add", x + y, zipw(&a, &b, |p, q| p + q));
            check("add_ref", x + &y, zipw(&a, &b, |p, q| p + q));
            check("ref_add_ref", &x + &y, zipw(&a, &b, |p, q| p + q));
            check("sub", x - y, zipw(&a, &b, |p, q| p - q));
            check("neg", -x, a.iter().map(|p| -*p).collect());
            check("mul", x * y, zipw(&a, &b, |p, q| p * q));
            check("mul_scalar", x * c, a.iter().map(|p| *p * c).collect());
            check("not", !x, a.iter().map(|p| !*p).collect());
            check("not_not", !!x, a.clone());
            check("not_add", !x + y, zipw(&a, &b, |p, q| !p + q));
            let mut t = x;
            t += y;
            check("add_assign", t, zipw(&a, &b, |p, q| p + q));
            let mut t = x;
            t -= y;
            check("sub_assign", t, zipw(&a, &b, |p, q| p - q));
            let mut t = x;
            t *= y;
            check("mul_assign", t, zipw(&a, &b, |p, q| p * q));
            ck.rec.seen("array_types", name);
            ck.rec.distinct(&("ba", name, case));
        }
    };
}
ba_ops!(ba3_ops, BA3, 3);
ba_ops!(ba4_ops, BA4, 4);
ba_ops!(ba5_ops, BA5, 5);
ba_ops!(ba6_ops, BA6, 6);
ba_ops!(ba7_ops, BA7, 7);
ba_ops!(ba8_ops, BA8, 8);
ba_ops!(ba16_ops, BA16, 16);
ba_ops!(ba20_ops, BA20, 20);
ba_ops!(ba32_ops, BA32, 32);
ba_ops!(ba64_ops, BA64, 64);
ba_ops!(ba112_ops, BA112, 112);
ba_ops!(ba256_ops, BA256, 256);

#[test]
fn verif_c08_shares_arrays() {
    let env = vlib::env();
    let mut ck = Ck::new("verif_c08_shares_arrays");
    let only = replay_case();
    let n = env.pick(200, 2400);
    for case in 0..n {
        if !env.mine(case) || only.is_some_and(|c| c != case) {
            continue;
        }
        let s = env.seed;
        guarded(&mut ck, "Fp31", "share_ops", case, |ck| share_ops::<Fp31, 1>(ck, case, s));
        guarded(&mut ck, "Fp32BitPrime", "share_ops", case, |ck| share_ops::<Fp32BitPrime, 1>(ck, case, s));
        guarded(&mut ck, "Fp32BitPrime", "share_ops", case, |ck| share_ops::<Fp32BitPrime, 32>(ck, case, s));
        guarded(&mut ck, "Fp61BitPrime", "share_ops", case, |ck| share_ops::<Fp61BitPrime, 1>(ck, case, s));
        guarded(&mut ck, "Boolean", "share_ops", case, |ck| share_ops::<Boolean, 1>(ck, case, s));
        guarded(&mut ck, "Boolean", "share_ops", case, |ck| share_ops::<Boolean, 3>(ck, case, s));
        guarded(&mut ck, "Boolean", "share_ops", case, |ck| share_ops::<Boolean, 5>(ck, case, s));
        guarded(&mut ck, "Boolean", "share_ops", case, |ck| share_ops::<Boolean, 8>(ck, case, s));
        guarded(&mut ck, "Boolean", "share_ops", case, |ck| share_ops::<Boolean, 20>(ck, case, s));
        guarded(&mut ck, "Boolean", "share_ops", case, |ck| share_ops::<Boolean, 64>(ck, case, s));
        guarded(&mut ck, "Boolean", "share_ops", case, |ck| share_ops::<Boolean, 256>(ck, case, s));
        guarded(&mut ck, "Gf2", "share_ops", case, |ck| share_ops::<Gf2, 1>(ck, case, s));
        guarded(&mut ck, "Gf3Bit", "share_ops", case, |ck| share_ops::<Gf3Bit, 1>(ck, case, s));
        guarded(&mut ck, "Gf8Bit", "share_ops", case, |ck| share_ops::<Gf8Bit, 1>(ck, case, s));
        guarded(&mut ck, "Gf9Bit", "share_ops", case, |ck| share_ops::<Gf9Bit, 1>(ck, case, s));
        guarded(&mut ck, "Gf20Bit", "share_ops", case, |ck| share_ops::<Gf20Bit, 1>(ck, case, s));
        guarded(&mut ck, "Gf32Bit", "share_ops", case, |ck| share_ops::<Gf32Bit, 1>(ck, case, s));
        guarded(&mut ck, "Gf32Bit", "share_ops", case, |ck| share_ops::<Gf32Bit, 32>(ck, case, s));
        guarded(&mut ck, "Gf40Bit", "share_ops", case, |ck| share_ops::<Gf40Bit, 1>(ck, case, s));
        guarded(&mut ck, "Fp25519", "share_ops", case, |ck| share_ops::<Fp25519, 1>(ck, case, s));
        guarded(&mut ck, "Fp25519", "share_ops", case, |ck| share_ops::<Fp25519, 16>(ck, case, s));
        guarded(&mut ck, "Fp31", "stdarray_ops", case, |ck| stdarray_ops::<Fp31, 3>(ck, case, s));
        guarded(&mut ck, "Fp32BitPrime", "stdarray_ops", case, |ck| stdarray_ops::<Fp32BitPrime, 32>(ck, case, s));
        guarded(&mut ck, "Fp61BitPrime", "stdarray_ops", case, |ck| stdarray_ops::<Fp61BitPrime, 5>(ck, case, s));
        guarded(&mut ck, "Fp61BitPrime", "stdarray_ops", case, |ck| stdarray_ops::<Fp61BitPrime, 64>(ck, case, s));
        guarded(&mut ck, "Boolean", "stdarray_ops", case, |ck| stdarray_ops::<Boolean, 3>(ck, case, s));
        guarded(&mut ck, "Gf8Bit", "stdarray_ops", case, |ck| stdarray_ops::<Gf8Bit, 4>(ck, case, s));
        guarded(&mut ck, "Gf32Bit", "stdarray_ops", case, |ck| stdarray_ops::<Gf32Bit, 32>(ck, case, s));
        guarded(&mut ck, "Gf40Bit", "stdarray_ops", case, |ck| stdarray_ops::<Gf40Bit, 2>(ck, case, s));
        guarded(&mut ck, "Fp25519", "stdarray_ops", case, |ck| stdarray_ops::<Fp25519, 16>(ck, case, s));
        guarded(&mut ck, "Boolean", "ba_ops", case, |ck| ba3_ops(ck, case, s));
        guarded(&mut ck, "Boolean", "ba_ops", case, |ck| ba4_ops(ck, case, s));
        guarded(&mut ck, "Boolean", "ba_ops", case, |ck| ba5_ops(ck, case, s));
        guarded(&mut ck, "Boolean", "ba_ops", case, |ck| ba6_ops(ck, case, s));
        guarded(&mut ck, "Boolean", "ba_ops", case, |ck| ba7_ops(ck, case, s));
        guarded(&mut ck, "Boolean", "ba_ops", case, |ck| ba8_ops(ck, case, s));
        guarded(&mut ck, "Boolean", "ba_ops", case, |ck| ba16_ops(ck, case, s));
        guarded(&mut ck, "Boolean", "ba_ops", case, |ck| ba20_ops(ck, case, s));
        guarded(&mut ck, "Boolean", "ba_ops", case, |ck| ba32_ops(ck, case, s));
        guarded(&mut ck, "Boolean", "ba_ops", case, |ck| ba64_ops(ck, case, s));
        guarded(&mut ck, "Boolean", "ba_ops", case, |ck| ba112_ops(ck, case, s));
        guarded(&mut ck, "Boolean", "ba_ops", case, |ck| ba256_ops(ck, case, s));
        ck.rec.count("share_array_cases");
    }
    ck.finish();
}
