// placeholder: c16 monitors (not built yet)
