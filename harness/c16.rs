// C16 A record is released only after its whole batch is validated, with its verdict.
//
// Monitor = event log with ONE logical clock (position in the log):
//   Req(i)            the harness is about to call `validate_record(i)`
//   Begin{b,..}       the validation closure supplied by the harness was invoked for batch b
//   End{b, ok}        that closure is about to return (after a harness-controlled gate opened)
//   Release{i, res}   the future returned by `validate_record(i)` resolved
// and an offline rule checker over that log (`check_log`), which only knows the reference model
// "batch(i) = i / records_per_batch, last batch ends at the declared total":
//   R1 Release(i) after Req(j) for every j of batch(i) and after End(batch(i))
//   R2 Release(i) is Ok  <=>  End(batch(i)).ok
//   R3 closure invoked exactly once per batch whose records were all requested, never before that,
//      never for another batch, and with that batch's own state
//   R4 the final partial batch closes exactly at the declared total (R3 specialised, own signature)
//   R5 misuse is loud (Err or panic), never Ok / never silently parked      (verif_c16_misuse)
//   R6 no quiescent-but-not-released state once a batch is complete and its gate is open
// Executor: vlib::Manual (every poll is chosen by the harness). The second half drives the real users
// (DZKPUpgraded::validate_record with real proofs, MAC validate_record) on the paused-clock runtime.

#[cfg(not(feature = "shuttle"))]
mod m {
    use std::{
        cell::RefCell,
        future::Future,
        pin::Pin,
        rc::Rc,
        task::{Context as TaskContext, Poll, Waker},
    };

    use serde_json::{Value, json};

    use super::super::super::batcher::Batcher;
    use crate::{
        error::Error,
        helpers::TotalRecords,
        protocol::RecordId,
        verif::vlib::{self, Manual, Recorder, VRng, catch, catch_fut},
    };

    // -----------------------------------------------------------------------------------------
    // instrumented batch, event log, gates
    // -----------------------------------------------------------------------------------------

    #[derive(Debug)]
    pub(super) struct TestBatch {
        index: usize,
        items: Vec<usize>,
    }

    #[derive(Clone, Debug, PartialEq)]
    enum Res {
        Ok,
        Err(String),
        Panic(String),
    }

    impl Res {
        fn class(&self) -> String {
            match self {
                Res::Ok => "ok".into(),
                Res::Err(e) => format!("err:{e}"),
                Res::Panic(p) => format!("panic:{}", panic_class(p)),
            }
        }
    }

    #[derive(Clone, Debug)]
    enum Ev {
        Req(usize),
        Begin { b: usize, state: usize, items: Vec<usize> },
        End { b: usize, ok: bool },
        Release { i: usize, res: Res },
        /// harness opened gate b (trace only)
        Gate(usize),
        /// outcome of a deliberate misuse (verif_c16_misuse)
        Misuse { res: Res },
    }

    fn ev_str(e: &Ev) -> String {
        match e {
            Ev::Req(i) => format!("req({i})"),
            Ev::Begin { b, state, items } => format!("batch_begin({b}, state={state}, items={items:?})"),
            Ev::End { b, ok } => format!("batch_end({b}, {})", if *ok { "Ok" } else { "Err" }),
            Ev::Release { i, res } => format!("release({i}, {})", res.class()),
            Ev::Gate(b) => format!("gate_open({b})"),
            Ev::Misuse { res } => format!("misuse -> {}", res.class()),
        }
    }

    fn panic_class(msg: &str) -> String {
        let mut s: String = msg.chars().map(|c| if c.is_ascii_digit() { '#' } else { c }).collect();
        while s.contains("##") {
            s = s.replace("##", "#");
        }
        s.truncate(70);
        s
    }

    fn err_class(e: &Error) -> String {
        let s = format!("{e:?}");
        s.split(|c: char| !c.is_alphanumeric()).next().unwrap_or("").to_string()
    }

    struct Shared {
        batcher: crate::sync::Mutex<Batcher<'static, TestBatch>>,
        log: RefCell<Vec<Ev>>,
        gates: RefCell<Vec<(bool, Option<Waker>)>>,
        fail: u32,
    }

    impl Shared {
        fn new(rpb: usize, total: TotalRecords, fail: u32) -> Rc<Self> {
            Rc::new(Shared {
                batcher: Batcher::new(rpb, total, Box::new(|index| TestBatch { index, items: Vec::new() })),
                log: RefCell::new(Vec::new()),
                gates: RefCell::new(Vec::new()),
                fail,
            })
        }
        fn lock(&self) -> crate::sync::MutexGuard<'_, Batcher<'static, TestBatch>> {
            // a panic of the code under test inside the lock poisons it; the harness carries on
            self.batcher.lock().unwrap_or_else(|e| e.into_inner())
        }
        fn log(&self, e: Ev) {
            self.log.borrow_mut().push(e);
        }
        fn gate_is_open(&self, b: usize) -> bool {
            self.gates.borrow().get(b).is_some_and(|g| g.0)
        }
        fn open_gate(&self, b: usize) {
            let w = {
                let mut g = self.gates.borrow_mut();
                if g.len() <= b {
                    g.resize(b + 1, (false, None));
                }
                if g[b].0 {
                    return;
                }
                g[b].0 = true;
                g[b].1.take()
            };
            self.log(Ev::Gate(b));
            if let Some(w) = w {
                w.wake();
            }
        }
    }

    struct GateFut {
        sh: Rc<Shared>,
        b: usize,
    }
    impl Future for GateFut {
        type Output = ();
        fn poll(self: Pin<&mut Self>, cx: &mut TaskContext<'_>) -> Poll<()> {
            if self.b > 4096 || self.sh.gate_is_open(self.b) {
                return Poll::Ready(());
            }
            let mut g = self.sh.gates.borrow_mut();
            if g.len() <= self.b {
                g.resize(self.b + 1, (false, None));
            }
            g[self.b].1 = Some(cx.waker().clone());
            Poll::Pending
        }
    }

    struct YieldOnce(bool);
    impl Future for YieldOnce {
        type Output = ();
        fn poll(mut self: Pin<&mut Self>, cx: &mut TaskContext<'_>) -> Poll<()> {
            if self.0 {
                Poll::Ready(())
            } else {
                self.0 = true;
                cx.waker().wake_by_ref();
                Poll::Pending
            }
        }
    }

    type BoxFut = Pin<Box<dyn Future<Output = Result<(), Error>>>>;

    /// The batch validation closure handed to `validate_record`: logs, waits for the gate, returns the
    /// verdict the case prescribes for this batch.
    fn closure(sh: Rc<Shared>) -> impl FnOnce(usize, TestBatch) -> BoxFut {
        move |b, batch| {
            Box::pin(async move {
                sh.log(Ev::Begin { b, state: batch.index, items: batch.items.clone() });
                GateFut { sh: Rc::clone(&sh), b }.await;
                let ok = b >= 32 || sh.fail & (1 << b) == 0;
                sh.log(Ev::End { b, ok });
                if ok { Ok(()) } else { Err(Error::DZKPValidationFailed) }
            })
        }
    }

    async fn call_validate(sh: &Rc<Shared>, i: usize, push: bool, yield_once: bool) -> Res {
        let fut = catch(|| {
            let mut b = sh.lock();
            if push {
                // what the real users do before validating: record something in the batch
                b.get_batch(RecordId::from(i)).batch.items.push(i);
            }
            b.validate_record(RecordId::from(i), closure(Rc::clone(sh)))
        });
        match fut {
            Err(p) => Res::Panic(p),
            Ok(f) => {
                if yield_once {
                    YieldOnce(false).await;
                }
                match catch_fut(f).await {
                    Ok(Ok(())) => Res::Ok,
                    Ok(Err(e)) => Res::Err(err_class(&e)),
                    Err(p) => Res::Panic(p),
                }
            }
        }
    }

    async fn record_task(sh: Rc<Shared>, i: usize, yield_once: bool) {
        sh.log(Ev::Req(i));
        let res = call_validate(&sh, i, true, yield_once).await;
        sh.log(Ev::Release { i, res });
    }

    async fn misuse_task(sh: Rc<Shared>, i: usize) {
        let res = call_validate(&sh, i, false, false).await;
        sh.log(Ev::Misuse { res });
    }

    // -----------------------------------------------------------------------------------------
    // reference model + offline rule checker
    // -----------------------------------------------------------------------------------------

    #[derive(Clone, Copy, Debug)]
    struct Model {
        rpb: usize,
        total: usize,
    }
    impl Model {
        fn nb(&self) -> usize {
            self.total.div_ceil(self.rpb)
        }
        fn batch(&self, i: usize) -> usize {
            i / self.rpb
        }
        fn members(&self, b: usize) -> std::ops::Range<usize> {
            (b * self.rpb)..((b + 1) * self.rpb).min(self.total)
        }
        fn partial_last(&self, b: usize) -> bool {
            b + 1 == self.nb() && self.members(b).len() < self.rpb
        }
    }

    struct Finding {
        rule: &'static str,
        kind: &'static str,
        detail: Value,
    }

    #[derive(Default)]
    struct LogStats {
        closures: u64,
        rel_ok: u64,
        rel_err: u64,
        ooo_begin: bool,
        ooo_end: bool,
        partial_closed: bool,
        err_classes: Vec<String>,
    }

    /// Pure function of the log and the model. `final_quiescent`: the log is complete (the system was
    /// run until nothing was runnable with every gate open) => "exactly once" lower bounds apply.
    fn check_log(md: Model, log: &[Ev], final_quiescent: bool) -> (Vec<Finding>, LogStats) {
        let nb = md.nb();
        let mut f = Vec::new();
        let mut st = LogStats::default();
        let mut req_t: Vec<Option<usize>> = vec![None; md.total];
        let mut rel_t: Vec<Option<usize>> = vec![None; md.total];
        let mut begin_n = vec![0usize; nb];
        let mut end: Vec<Option<(usize, bool)>> = vec![None; nb];
        let mut last_begin: Option<usize> = None;
        let mut last_end: Option<usize> = None;
        for (t, e) in log.iter().enumerate() {
            match e {
                Ev::Req(i) => {
                    if *i < md.total {
                        req_t[*i] = Some(t);
                    }
                }
                Ev::Begin { b, state, items } => {
                    st.closures += 1;
                    if *b >= nb {
                        f.push(Finding { rule: "R3", kind: "closure_for_nonexistent_batch", detail: json!({"batch": b, "t": t}) });
                        continue;
                    }
                    begin_n[*b] += 1;
                    if begin_n[*b] > 1 {
                        f.push(Finding { rule: "R3", kind: "batch_validated_more_than_once", detail: json!({"batch": b, "t": t}) });
                    }
                    let missing: Vec<usize> = md.members(*b).filter(|j| req_t[*j].is_none()).collect();
                    if !missing.is_empty() {
                        let (rule, kind) = if md.partial_last(*b) {
                            ("R4", "final_partial_batch_closed_before_declared_total")
                        } else {
                            ("R3", "closure_ran_for_incomplete_batch")
                        };
                        f.push(Finding { rule, kind, detail: json!({"batch": b, "not_yet_requested": missing, "t": t}) });
                    }
                    let mut it = items.clone();
                    it.sort_unstable();
                    if *state != *b || it != md.members(*b).collect::<Vec<_>>() {
                        f.push(Finding {
                            rule: "R3",
                            kind: "closure_got_another_batchs_state",
                            detail: json!({"batch": b, "state_index": state, "items": items, "t": t}),
                        });
                    }
                    if last_begin.is_some_and(|p| p > *b) {
                        st.ooo_begin = true;
                    }
                    last_begin = Some(*b);
                    if md.partial_last(*b) && missing.is_empty() {
                        st.partial_closed = true;
                    }
                }
                Ev::End { b, ok } => {
                    if *b < nb {
                        end[*b] = Some((t, *ok));
                        if last_end.is_some_and(|p| p > *b) {
                            st.ooo_end = true;
                        }
                        last_end = Some(*b);
                    }
                }
                Ev::Release { i, res } => {
                    if *i >= md.total {
                        continue;
                    }
                    rel_t[*i] = Some(t);
                    let b = md.batch(*i);
                    match res {
                        Res::Ok => st.rel_ok += 1,
                        Res::Err(c) => {
                            st.rel_err += 1;
                            if !st.err_classes.contains(c) {
                                st.err_classes.push(c.clone());
                            }
                        }
                        Res::Panic(p) => {
                            f.push(Finding {
                                rule: "R0",
                                kind: "panic_on_legal_use",
                                detail: json!({"record": i, "panic": panic_class(p), "t": t}),
                            });
                            continue;
                        }
                    }
                    let missing: Vec<usize> = md.members(b).filter(|j| req_t[*j].is_none()).collect();
                    if !missing.is_empty() {
                        f.push(Finding {
                            rule: "R1",
                            kind: "released_before_whole_batch_requested",
                            detail: json!({"record": i, "batch": b, "not_yet_requested": missing, "result": res.class(), "t": t}),
                        });
                    }
                    match end[b] {
                        None => f.push(Finding {
                            rule: "R1",
                            kind: "released_before_batch_check_finished",
                            detail: json!({"record": i, "batch": b, "check_started": begin_n[b] > 0, "result": res.class(), "t": t}),
                        }),
                        Some((_, ok)) => {
                            if ok != (*res == Res::Ok) {
                                f.push(Finding {
                                    rule: "R2",
                                    kind: if ok { "err_although_batch_check_succeeded" } else { "ok_although_batch_check_failed" },
                                    detail: json!({"record": i, "batch": b, "result": res.class(), "t": t}),
                                });
                            }
                        }
                    }
                }
                Ev::Gate(_) | Ev::Misuse { .. } => {}
            }
        }
        if final_quiescent {
            for b in 0..nb {
                let complete = md.members(b).all(|j| req_t[j].is_some());
                if complete && begin_n[b] == 0 {
                    let (rule, kind) = if md.partial_last(b) {
                        ("R4", "final_partial_batch_never_closed")
                    } else {
                        ("R3", "complete_batch_never_validated")
                    };
                    f.push(Finding { rule, kind, detail: json!({"batch": b}) });
                }
            }
        }
        (f, st)
    }

    // -----------------------------------------------------------------------------------------
    // simulation of one history on the manual scheduler
    // -----------------------------------------------------------------------------------------

    const MODES: [&str; 4] = ["sequential", "concurrent", "interleaved", "hold_last"];
    const PICKS: [&str; 3] = ["fifo", "lifo", "seeded"];

    #[derive(Clone, Debug)]
    struct Case {
        n: usize,
        rpb: usize,
        perm: Vec<usize>,
        fail: u32,
        gate_order: Vec<usize>,
        gate_variant: usize,
        mode: usize,
        pick: usize,
        yield_once: bool,
        late_total: bool,
        walk_seed: u64,
        rep: usize,
    }

    impl Case {
        fn json(&self, idx: usize) -> Value {
            json!({"case": idx, "tier": tier_name(), "total": self.n, "records_per_batch": self.rpb, "arrival": self.perm,
                   "fail_mask": self.fail, "gate_order": self.gate_order, "mode": MODES[self.mode],
                   "pick": PICKS[self.pick], "yield_between_call_and_first_poll": self.yield_once,
                   "total_set_late": self.late_total, "walk_seed": self.walk_seed})
        }
    }

    struct Sim<'a> {
        md: Model,
        sh: Rc<Shared>,
        m: Manual<'a, ()>,
        rng: VRng,
        pick: usize,
        yield_once: bool,
        r6: Vec<Finding>,
        overrun: bool,
    }

    impl<'a> Sim<'a> {
        fn new(md: Model, fail: u32, late_total: bool, pick: usize, yield_once: bool, walk_seed: u64) -> Self {
            let sh = if late_total {
                let sh = Shared::new(md.rpb, TotalRecords::Unspecified, fail);
                sh.lock().set_total_records(TotalRecords::specified(md.total).unwrap());
                sh
            } else {
                Shared::new(md.rpb, TotalRecords::specified(md.total).unwrap(), fail)
            };
            Sim { md, sh, m: Manual::new(), rng: VRng::new(walk_seed, 0xC16), pick, yield_once, r6: Vec::new(), overrun: false }
        }
        /// `validate_record(rec)` is called: spawn the task and give it its first poll.
        fn arrive(&mut self, rec: usize) {
            let id = self.m.spawn(record_task(Rc::clone(&self.sh), rec, self.yield_once));
            self.m.poll_task(id);
        }
        fn ready(&self) -> Vec<usize> {
            self.m.ready_ids().into_iter().filter(|id| !self.m.is_done(*id)).collect()
        }
        fn poll_one(&mut self) -> bool {
            let r = self.ready();
            if r.is_empty() {
                return false;
            }
            if self.m.polls > 20_000 {
                self.overrun = true;
                return false;
            }
            let id = match self.pick {
                0 => r[0],
                1 => r[r.len() - 1],
                _ => r[self.rng.below(r.len() as u64) as usize],
            };
            self.m.poll_task(id);
            true
        }
        fn run_quiescent(&mut self) {
            while self.poll_one() {}
            self.quiescent_check();
        }
        fn open_gate(&mut self, b: usize) {
            self.sh.open_gate(b);
        }
        /// R6: nothing is runnable now. Every batch whose records have all been requested and whose
        /// gate is open must have released all of its records.
        fn quiescent_check(&mut self) {
            if !self.ready().is_empty() {
                return;
            }
            let log = self.sh.log.borrow();
            let mut req = vec![false; self.md.total];
            let mut rel = vec![false; self.md.total];
            let mut begun = vec![false; self.md.nb()];
            let mut ended = vec![false; self.md.nb()];
            for e in log.iter() {
                match e {
                    Ev::Req(i) if *i < self.md.total => req[*i] = true,
                    Ev::Release { i, .. } if *i < self.md.total => rel[*i] = true,
                    Ev::Begin { b, .. } if *b < self.md.nb() => begun[*b] = true,
                    Ev::End { b, .. } if *b < self.md.nb() => ended[*b] = true,
                    _ => {}
                }
            }
            for b in 0..self.md.nb() {
                if self.md.members(b).all(|j| req[j]) && self.sh.gate_is_open(b) {
                    let stuck: Vec<usize> = self.md.members(b).filter(|j| !rel[*j]).collect();
                    if !stuck.is_empty() && !self.r6.iter().any(|x| x.detail["batch"] == json!(b)) {
                        self.r6.push(Finding {
                            rule: "R6",
                            kind: "quiescent_but_records_not_released",
                            detail: json!({"batch": b, "stuck_records": stuck, "check_started": begun[b], "check_finished": ended[b],
                                           "partial_last": self.md.partial_last(b), "t": log.len()}),
                        });
                    }
                }
            }
        }
        fn finalize(&mut self, gate_order: &[usize]) {
            for g in gate_order {
                self.open_gate(*g);
            }
            self.run_quiescent();
        }
    }

    fn run_case(c: &Case) -> (Vec<Ev>, Vec<Finding>, Vec<usize>, bool) {
        let md = Model { rpb: c.rpb, total: c.n };
        let mut s = Sim::new(md, c.fail, c.late_total, c.pick, c.yield_once, c.walk_seed);
        match c.mode {
            0 => {
                // sequential: after each call drive everything that can make progress, opening the gate of a
                // batch as soon as its check starts (the caller "awaits" as far as that is possible)
                for rec in &c.perm {
                    s.arrive(*rec);
                    loop {
                        let begun: Vec<usize> = s
                            .sh
                            .log
                            .borrow()
                            .iter()
                            .filter_map(|e| if let Ev::Begin { b, .. } = e { Some(*b) } else { None })
                            .collect();
                        for b in begun {
                            s.open_gate(b);
                        }
                        if !s.poll_one() {
                            break;
                        }
                    }
                    s.quiescent_check();
                }
            }
            1 => {
                // concurrent: every record is requested before any batch check may finish; then the checks are
                // completed in the prescribed (possibly reversed / seeded) order
                for rec in &c.perm {
                    s.arrive(*rec);
                }
                for g in &c.gate_order {
                    s.open_gate(*g);
                    s.run_quiescent();
                }
            }
            2 => {
                // interleaved: seeded walk over {next arrival, poll a woken task, open the next gate}
                let mut arrivals = c.perm.iter();
                let mut gates = c.gate_order.iter();
                let (mut na, mut ng) = (c.perm.len(), c.gate_order.len());
                loop {
                    let can_poll = !s.ready().is_empty();
                    let mut acts = Vec::with_capacity(3);
                    if na > 0 {
                        acts.push(0);
                    }
                    if ng > 0 {
                        acts.push(1);
                    }
                    if can_poll {
                        acts.push(2);
                        acts.push(2);
                    }
                    if acts.is_empty() {
                        break;
                    }
                    match acts[s.rng.below(acts.len() as u64) as usize] {
                        0 => {
                            s.arrive(*arrivals.next().unwrap());
                            na -= 1;
                        }
                        1 => {
                            let g = *gates.next().unwrap();
                            s.open_gate(g);
                            ng -= 1;
                        }
                        _ => {
                            if !s.poll_one() {
                                break;
                            }
                        }
                    }
                    s.quiescent_check();
                }
            }
            _ => {
                // hold_last: the last arrival is withheld until everything else is quiescent with all gates open
                let (last, first) = c.perm.split_last().unwrap();
                for rec in first {
                    s.arrive(*rec);
                }
                for g in &c.gate_order {
                    s.open_gate(*g);
                    s.run_quiescent();
                }
                s.arrive(*last);
                s.run_quiescent();
            }
        }
        s.finalize(&c.gate_order);
        let log = s.sh.log.borrow().clone();
        let trace = s.m.trace.clone();
        (log, std::mem::take(&mut s.r6), trace, s.overrun)
    }

    // -----------------------------------------------------------------------------------------
    // enumeration helpers
    // -----------------------------------------------------------------------------------------

    fn next_permutation(p: &mut [usize]) -> bool {
        if p.len() < 2 {
            return false;
        }
        let mut i = p.len() - 1;
        while i > 0 && p[i - 1] >= p[i] {
            i -= 1;
        }
        if i == 0 {
            return false;
        }
        let mut j = p.len() - 1;
        while p[j] <= p[i - 1] {
            j -= 1;
        }
        p.swap(i - 1, j);
        p[i..].reverse();
        true
    }

    /// every subset of batches for up to three batches; otherwise none, all and two seeded proper subsets
    fn fail_sets(nb: usize, r: &mut VRng) -> Vec<u32> {
        let all = (1u32 << nb) - 1;
        if nb <= 3 {
            return (0..=all).collect();
        }
        let mut v = vec![0, all];
        while v.len() < 4 {
            let m = (r.next() as u32) & all;
            if !v.contains(&m) {
                v.push(m);
            }
        }
        v
    }

    fn gate_orders(nb: usize, r: &mut VRng) -> Vec<Vec<usize>> {
        let fwd: Vec<usize> = (0..nb).collect();
        let mut out = vec![fwd.clone()];
        if nb >= 2 {
            out.push(fwd.iter().rev().copied().collect());
        }
        if nb >= 3 {
            let mut s = fwd.clone();
            loop {
                r.shuffle(&mut s);
                if !out.contains(&s) {
                    break;
                }
            }
            out.push(s);
        }
        out
    }

    /// case indices depend on the tier: replay with the same `--tier` (and `--seed`)
    fn tier_name() -> &'static str {
        if vlib::env().thorough { "thorough" } else { "quick" }
    }

    fn replay_case() -> Option<usize> {
        let p = vlib::env().replay?;
        let w: Value = serde_json::from_str(&std::fs::read_to_string(p).ok()?).ok()?;
        w["witness"]["case"].as_u64().map(|v| v as usize)
    }

    fn report(rec: &mut Recorder, what_prefix: &str, f: &Finding, case: &Value, log: &[Ev], trace: &[usize]) {
        let what = format!("{what_prefix}{} {}", f.rule, f.kind.replace('_', " "));
        let mut sig = json!({"rule": f.rule, "kind": f.kind, "mode": case["mode"]});
        for k in ["partial_last", "check_started", "check_finished", "panic"] {
            if !f.detail[k].is_null() {
                sig[k] = f.detail[k].clone();
            }
        }
        let mut w = case.clone();
        w["finding"] = f.detail.clone();
        w["log"] = json!(log.iter().map(ev_str).collect::<Vec<_>>());
        w["poll_trace_task_ids"] = json!(trace);
        rec.violation(&what, sig, w);
    }

    // -----------------------------------------------------------------------------------------
    // test 1: exhaustive arrival orders on the bare Batcher
    // -----------------------------------------------------------------------------------------

    #[test]
    fn verif_c16_orders() {
        let env = vlib::env();
        let mut rec = Recorder::new("C16", "verif_c16_orders");
        let only = replay_case();
        let max_n = env.pick(6, 7);
        let walk_reps = 2;
        let mut idx = 0usize;
        for n in 1..=max_n {
            for rpb in 1..=4usize {
                let md = Model { rpb, total: n };
                let nb = md.nb();
                let mut perm: Vec<usize> = (0..n).collect();
                let mut perm_no = 0usize;
                loop {
                    // the variants below are a deterministic function of (seed, n, rpb, perm_no)
                    let mut vr = VRng::new(env.seed ^ 0xC16_0001, ((n * 8 + rpb) * 6000 + perm_no) as u64);
                    let fails = fail_sets(nb, &mut vr);
                    let gos = gate_orders(nb, &mut vr);
                    for fail in &fails {
                        for (gv, go) in gos.iter().enumerate() {
                            for mode in 0..4usize {
                                if mode == 0 && gv != 0 {
                                    continue; // sequential mode ignores the gate order
                                }
                                let reps = if mode == 2 { walk_reps } else { 1 };
                                for rep in 0..reps {
                                    let my_idx = idx;
                                    idx += 1;
                                    if !env.mine(my_idx) || only.is_some_and(|c| c != my_idx) {
                                        continue;
                                    }
                                    let mut cr = VRng::new(env.seed ^ 0xC16_0002, my_idx as u64);
                                    let case = Case {
                                        n,
                                        rpb,
                                        perm: perm.clone(),
                                        fail: *fail,
                                        gate_order: go.clone(),
                                        gate_variant: gv,
                                        mode,
                                        pick: cr.below(3) as usize,
                                        yield_once: cr.bool(),
                                        late_total: cr.below(4) == 0,
                                        walk_seed: cr.next() ^ rep as u64,
                                        rep,
                                    };
                                    one_history(&mut rec, &case, my_idx);
                                }
                            }
                        }
                    }
                    perm_no += 1;
                    if !next_permutation(&mut perm) {
                        break;
                    }
                }
            }
        }
        rec.finish();
    }

    fn one_history(rec: &mut Recorder, case: &Case, idx: usize) {
        let md = Model { rpb: case.rpb, total: case.n };
        let (log, r6, trace, overrun) = run_case(case);
        rec.eval();
        if overrun {
            rec.inconclusive(format!("case {idx}: more than 20000 polls, history abandoned"));
            return;
        }
        let (mut findings, st) = check_log(md, &log, true);
        findings.extend(r6);
        rec.count("histories");
        rec.add("events", log.len() as u64);
        rec.add("closure_invocations", st.closures);
        rec.add("releases_ok", st.rel_ok);
        rec.add("releases_err", st.rel_err);
        if st.ooo_begin {
            rec.count("histories_with_out_of_order_batch_start");
        }
        if st.ooo_end {
            rec.count("histories_with_out_of_order_batch_completion");
        }
        if st.partial_closed {
            rec.count("partial_last_batch_closed");
        }
        for c in &st.err_classes {
            rec.seen("release_error_classes", c.clone());
        }
        rec.seen("shapes", format!("total={} per_batch={}", case.n, case.rpb));
        rec.seen("modes", format!("{}/{}", MODES[case.mode], PICKS[case.pick]));
        if findings.is_empty() {
            if st.closures > 0 && st.rel_ok + st.rel_err > 0 {
                rec.distinct(&(case.n, case.rpb, &case.perm, case.fail, case.gate_variant, case.mode, case.pick,
                               case.yield_once, case.late_total, case.rep));
            }
        } else {
            let cj = case.json(idx);
            // one witness per rule and history
            let mut seen: Vec<(&str, &str)> = Vec::new();
            for f in &findings {
                if seen.contains(&(f.rule, f.kind)) {
                    continue;
                }
                seen.push((f.rule, f.kind));
                report(rec, "batched validation: ", f, &cj, &log, &trace);
            }
        }
        if rec.want_sample() && idx % 977 == 5 {
            let mut s = case.json(idx);
            s["log"] = json!(log.iter().map(ev_str).collect::<Vec<_>>());
            rec.sample(s);
        }
    }

    // -----------------------------------------------------------------------------------------
    // test 2: misuse must be loud (R5)
    // -----------------------------------------------------------------------------------------

    #[derive(Clone, Copy, Debug, PartialEq)]
    enum Misuse {
        DupPending,
        DupInProgress,
        DupValidated,
        Beyond,
        TouchValidated,
    }
    impl Misuse {
        fn name(self) -> &'static str {
            match self {
                Misuse::DupPending => "same_record_twice_batch_pending",
                Misuse::DupInProgress => "same_record_twice_batch_check_running",
                Misuse::DupValidated => "same_record_twice_batch_validated",
                Misuse::Beyond => "record_at_or_beyond_total",
                Misuse::TouchValidated => "get_batch_of_validated_batch",
            }
        }
    }

    /// Replays the legal prefix `perm[..k]`; `drive`: every batch check that starts is completed at once.
    fn misuse_prefix<'a>(md: Model, perm: &[usize], k: usize, drive: bool, fail: u32, seed: u64) -> Sim<'a> {
        let mut s = Sim::new(md, fail, false, (seed % 3) as usize, false, seed);
        for rec in &perm[..k] {
            s.arrive(*rec);
            if drive {
                loop {
                    let begun: Vec<usize> = s
                        .sh
                        .log
                        .borrow()
                        .iter()
                        .filter_map(|e| if let Ev::Begin { b, .. } = e { Some(*b) } else { None })
                        .collect();
                    for b in begun {
                        s.open_gate(b);
                    }
                    if !s.poll_one() {
                        break;
                    }
                }
            }
        }
        s
    }

    /// State of the reference model after a prefix: per batch (requested records, check begun, check ended).
    fn model_state(md: Model, log: &[Ev]) -> (Vec<bool>, Vec<bool>, Vec<bool>) {
        let mut req = vec![false; md.total];
        let mut begun = vec![false; md.nb()];
        let mut ended = vec![false; md.nb()];
        for e in log {
            match e {
                Ev::Req(i) if *i < md.total => req[*i] = true,
                Ev::Begin { b, .. } if *b < md.nb() => begun[*b] = true,
                Ev::End { b, .. } if *b < md.nb() => ended[*b] = true,
                _ => {}
            }
        }
        (req, begun, ended)
    }

    #[test]
    fn verif_c16_misuse() {
        let env = vlib::env();
        let mut rec = Recorder::new("C16", "verif_c16_misuse");
        let only = replay_case();
        let max_n = env.pick(5, 7);
        let n_perms = env.pick(3, 6);
        let mut idx = 0usize;
        for n in 1..=max_n {
            for rpb in 1..=4usize {
                let md = Model { rpb, total: n };
                for pv in 0..n_perms {
                    let mut pr = VRng::new(env.seed ^ 0xC16_0003, ((n * 8 + rpb) * 16 + pv) as u64);
                    let mut perm: Vec<usize> = (0..n).collect();
                    match pv {
                        0 => {}
                        1 => perm.reverse(),
                        _ => pr.shuffle(&mut perm),
                    }
                    let fail = if pv % 2 == 0 { 0 } else { (pr.next() as u32) & ((1 << md.nb()) - 1) };
                    for k in 0..=n {
                        for drive in [true, false] {
                            // reference-model state after the prefix (taken from the log of a dry run)
                            let (req, begun, ended) = {
                                let s = misuse_prefix(md, &perm, k, drive, fail, pr.0);
                                let log = s.sh.log.borrow().clone();
                                model_state(md, &log)
                            };
                            let mut targets: Vec<(Misuse, usize)> = Vec::new();
                            for i in 0..(md.nb() * rpb + rpb + 2) {
                                if i >= n {
                                    targets.push((Misuse::Beyond, i));
                                } else if req[i] {
                                    let b = md.batch(i);
                                    targets.push((
                                        if ended[b] {
                                            Misuse::DupValidated
                                        } else if begun[b] {
                                            Misuse::DupInProgress
                                        } else {
                                            Misuse::DupPending
                                        },
                                        i,
                                    ));
                                }
                                if i < n && ended[md.batch(i)] {
                                    targets.push((Misuse::TouchValidated, i));
                                }
                            }
                            for (kind, i) in targets {
                                let my_idx = idx;
                                idx += 1;
                                if !env.mine(my_idx) || only.is_some_and(|c| c != my_idx) {
                                    continue;
                                }
                                let case = json!({"case": my_idx, "tier": tier_name(), "total": n, "records_per_batch": rpb, "arrival": perm,
                                                  "legal_prefix_len": k, "checks_completed_eagerly": drive, "fail_mask": fail,
                                                  "misuse": kind.name(), "misused_record": i});
                                one_misuse(&mut rec, md, &perm, k, drive, fail, pr.0, kind, i, &case);
                            }
                        }
                    }
                }
            }
        }
        // missing total records
        for rpb in 1..=4usize {
            for i in 0..6usize {
                for (tv, total) in [TotalRecords::Unspecified, TotalRecords::Indeterminate].into_iter().enumerate() {
                    let my_idx = idx;
                    idx += 1;
                    if !env.mine(my_idx) || only.is_some_and(|c| c != my_idx) {
                        continue;
                    }
                    let sh = Shared::new(rpb, total, 0);
                    sh.open_gate(i / rpb);
                    let mut m: Manual<'_, ()> = Manual::new();
                    let id = m.spawn(misuse_task(Rc::clone(&sh), i));
                    m.poll_task(id);
                    // complete the rest of that batch as far as possible, then see what became of the call
                    for j in (i / rpb * rpb)..((i / rpb + 1) * rpb) {
                        if j != i {
                            let id = m.spawn(misuse_task(Rc::clone(&sh), j));
                            m.poll_task(id);
                        }
                    }
                    m.run(&mut |_| 0, 1000);
                    let first = sh.log.borrow().iter().find_map(|e| if let Ev::Misuse { res } = e { Some(res.clone()) } else { None });
                    let all: Vec<Res> = sh.log.borrow().iter().filter_map(|e| if let Ev::Misuse { res } = e { Some(res.clone()) } else { None }).collect();
                    rec.eval();
                    let case = json!({"case": my_idx, "records_per_batch": rpb, "record": i,
                                      "total_records": if tv == 0 { "Unspecified" } else { "Indeterminate" }});
                    if tv == 1 {
                        // not "missing": observation only
                        rec.seen("indeterminate_total_outcomes", first.map_or("pending".into(), |r| r.class()));
                        continue;
                    }
                    let accepted = all.iter().any(|r| *r == Res::Ok) || all.len() < rpb;
                    if accepted {
                        rec.violation(
                            "batched validation: R5 validate_record without total records was not rejected",
                            json!({"rule": "R5", "kind": "missing_total_records",
                                   "outcome": if all.iter().any(|r| *r == Res::Ok) { "ok" } else { "never_resolved" }}),
                            json!({"case": case, "log": sh.log.borrow().iter().map(ev_str).collect::<Vec<_>>()}),
                        );
                    } else {
                        rec.count("misuse_rejected_loudly");
                        rec.seen("misuse_kinds_rejected", "missing_total_records");
                        rec.seen("misuse_rejections", format!("missing_total_records -> {}", all[0].class()));
                        rec.distinct(&("missing_total", rpb, i));
                    }
                }
            }
        }
        rec.finish();
    }

    #[allow(clippy::too_many_arguments)]
    fn one_misuse(rec: &mut Recorder, md: Model, perm: &[usize], k: usize, drive: bool, fail: u32, seed: u64, kind: Misuse, i: usize, case: &Value) {
        let mut s = misuse_prefix(md, perm, k, drive, fail, seed);
        rec.eval();
        let outcome: Option<Res> = if kind == Misuse::TouchValidated {
            let sh = Rc::clone(&s.sh);
            Some(match catch(|| {
                sh.lock().get_batch(RecordId::from(i));
            }) {
                Ok(()) => Res::Ok,
                Err(p) => Res::Panic(p),
            })
        } else {
            let id = s.m.spawn(misuse_task(Rc::clone(&s.sh), i));
            s.m.poll_task(id);
            // whatever was decided at the call is final; otherwise finish the legal history and look again
            let find = |s: &Sim| s.sh.log.borrow().iter().find_map(|e| if let Ev::Misuse { res } = e { Some(res.clone()) } else { None });
            let mut r = find(&s);
            if r.is_none() {
                for recd in &perm[k..] {
                    s.arrive(*recd);
                }
                let mut gates: Vec<usize> = (0..md.nb() + 1).collect();
                gates.push(i / md.rpb);
                for g in gates {
                    s.open_gate(g);
                }
                while s.poll_one() {}
                r = find(&s);
                rec.count("misuse_decided_only_after_continuation");
            }
            r
        };
        let log: Vec<String> = s.sh.log.borrow().iter().map(ev_str).collect();
        match outcome {
            Some(Res::Err(_) | Res::Panic(_)) => {
                let r = outcome.unwrap();
                rec.count("misuse_rejected_loudly");
                rec.seen("misuse_kinds_rejected", kind.name());
                rec.seen("misuse_rejections", format!("{} -> {}", kind.name(), r.class()));
                rec.distinct(&(kind.name(), md.total, md.rpb, perm, k, drive, i));
                if rec.want_sample() && i % 5 == 1 && k > 1 {
                    let mut c = case.clone();
                    c["outcome"] = json!(r.class());
                    rec.sample(c);
                }
            }
            other => {
                let out = if other.is_some() { "ok" } else { "never_resolved" };
                let mut w = case.clone();
                w["log"] = json!(log);
                rec.violation(
                    &format!("batched validation: R5 misuse silently accepted ({})", kind.name().replace('_', " ")),
                    json!({"rule": "R5", "kind": kind.name(), "outcome": out}),
                    w,
                );
            }
        }
    }

    // -----------------------------------------------------------------------------------------
    // tests 3/4: the real users (DZKP validator with real proofs, MAC validator) on the paused-clock runtime
    // -----------------------------------------------------------------------------------------

    use std::{sync::Arc, time::Duration};

    use crate::{
        ff::{Field, Fp32BitPrime, U128Conversions, boolean::Boolean},
        helpers::{GatewayConfig, Role},
        protocol::{
            basics::SecureMul,
            context::{
                Context, DZKPContext, MaliciousContext, TEST_DZKP_STEPS, UpgradableContext, UpgradedContext,
                dzkp_validator::DZKPValidator, upgrade::Upgradable, validator::Validator,
            },
        },
        secret_sharing::replicated::{ReplicatedSecretSharing, semi_honest::AdditiveShare as Replicated},
        seq_join::SeqJoin,
        sharding::NotSharded,
        test_fixture::{Reconstruct, Runner, TestWorld, TestWorldConfig},
    };

    /// (helper, is_release, record, ok) in the order in which things happened (one clock for the world)
    type RLog = Arc<std::sync::Mutex<Vec<(usize, bool, usize, bool)>>>;

    fn rlog_push(l: &RLog, e: (usize, bool, usize, bool)) {
        l.lock().unwrap_or_else(|e| e.into_inner()).push(e);
    }

    /// Joins record futures like `seq_join` would admit them (record k may start only while k < first
    /// incomplete record + window) but polls the admitted ones in a seeded order on every wake-up, so
    /// that `validate_record` calls reach the batcher in many different orders.
    struct SeededJoin<'a, T> {
        futs: Vec<Option<Pin<Box<dyn Future<Output = T> + Send + 'a>>>>,
        out: Vec<Option<T>>,
        window: usize,
        head: usize,
        rng: VRng,
    }
    impl<'a, T> SeededJoin<'a, T> {
        fn new(futs: Vec<Pin<Box<dyn Future<Output = T> + Send + 'a>>>, window: usize, rng: VRng) -> Self {
            let n = futs.len();
            SeededJoin { futs: futs.into_iter().map(Some).collect(), out: (0..n).map(|_| None).collect(), window: window.max(1), head: 0, rng }
        }
    }
    impl<T: Unpin> Future for SeededJoin<'_, T> {
        type Output = Vec<T>;
        fn poll(self: Pin<&mut Self>, cx: &mut TaskContext<'_>) -> Poll<Vec<T>> {
            let this = self.get_mut();
            let n = this.futs.len();
            loop {
                let hi = (this.head + this.window).min(n);
                let mut ids: Vec<usize> = (this.head..hi).filter(|i| this.futs[*i].is_some()).collect();
                this.rng.shuffle(&mut ids);
                let mut progressed = false;
                for i in ids {
                    if let Poll::Ready(v) = this.futs[i].as_mut().unwrap().as_mut().poll(cx) {
                        this.out[i] = Some(v);
                        this.futs[i] = None;
                        progressed = true;
                    }
                }
                while this.head < n && this.futs[this.head].is_none() {
                    this.head += 1;
                }
                if this.head == n {
                    return Poll::Ready(this.out.iter_mut().map(|o| o.take().unwrap()).collect());
                }
                if !progressed {
                    return Poll::Pending;
                }
            }
        }
    }

    /// Dropping a half-finished world can panic in the code under test (validator drop checks); that must
    /// not take the harness down.
    struct QuietDrop<F>(Option<F>);
    impl<F: Future + Unpin> Future for QuietDrop<F> {
        type Output = F::Output;
        fn poll(mut self: Pin<&mut Self>, cx: &mut TaskContext<'_>) -> Poll<F::Output> {
            Pin::new(self.0.as_mut().unwrap()).poll(cx)
        }
    }
    impl<F> Drop for QuietDrop<F> {
        fn drop(&mut self) {
            let f = self.0.take();
            let _ = catch(move || drop(f));
        }
    }

    #[derive(Clone, Debug)]
    struct RealCase {
        user: &'static str,
        count: usize,
        rpb: usize,
        all_at_once: bool,
        total_on_ctx: bool,
        /// (helper index, record) whose input share is spoiled by that helper (MAC only)
        tamper: Option<(usize, usize)>,
        /// a seeded virtual-time pause between the multiplication and `validate_record`, per helper and record:
        /// with the paused clock this *is* the order in which the requests reach the batcher
        delays: bool,
        seed: u64,
    }
    impl RealCase {
        fn json(&self, idx: usize) -> Value {
            json!({"case": idx, "tier": tier_name(), "user": self.user, "total": self.count, "records_per_batch": self.rpb,
                   "all_records_started_at_once": self.all_at_once, "total_set_on_context_before_validator": self.total_on_ctx,
                   "tamper_helper_record": self.tamper, "seeded_request_order": self.delays, "world_and_poll_seed": self.seed})
        }
    }

    type RecordResults = Vec<Result<(), String>>;

    fn pause_of(c: &RealCase, role: usize, i: usize) -> Option<Duration> {
        c.delays.then(|| Duration::from_millis(VRng::new(c.seed ^ 0x55, (role * 4096 + i) as u64).below(2 * c.count as u64 + 1)))
    }

    async fn dzkp_helper(ctx: MaliciousContext<'_>, shares: Vec<Replicated<Boolean>>, c: RealCase, log: RLog) -> Vec<Result<Replicated<Boolean>, String>> {
        let role = ctx.role() as usize;
        let count = c.count;
        let (v, m_ctx) = if c.total_on_ctx {
            let v = ctx.set_total_records(count).dzkp_validator(TEST_DZKP_STEPS, c.rpb);
            let m = v.context();
            (v, m)
        } else {
            let mut v = ctx.dzkp_validator(TEST_DZKP_STEPS, c.rpb);
            v.set_total_records(TotalRecords::specified(count).unwrap());
            let m = v.context().set_total_records(count);
            (v, m)
        };
        let window = if c.all_at_once { count } else { m_ctx.active_work().get() };
        let shares = &shares;
        let futs: Vec<Pin<Box<dyn Future<Output = Result<Replicated<Boolean>, String>> + Send + '_>>> = (0..count)
            .map(|i| {
                let cx = m_ctx.clone();
                let log = Arc::clone(&log);
                let pause = pause_of(&c, role, i);
                let f: Pin<Box<dyn Future<Output = Result<Replicated<Boolean>, String>> + Send + '_>> = Box::pin(async move {
                    let rid = RecordId::from(i);
                    let prod = shares[i].multiply(&shares[i + 1], cx.clone(), rid).await.map_err(|e| format!("multiply:{}", err_class(&e)))?;
                    if let Some(d) = pause {
                        tokio::time::sleep(d).await;
                    }
                    rlog_push(&log, (role, false, i, true));
                    let r = cx.validate_record(rid).await;
                    rlog_push(&log, (role, true, i, r.is_ok()));
                    r.map_err(|e| err_class(&e))?;
                    Ok(prod)
                });
                f
            })
            .collect();
        let out = SeededJoin::new(futs, window, VRng::new(c.seed ^ 0x77, role as u64)).await;
        drop(v);
        out
    }

    async fn mac_helper(ctx: MaliciousContext<'_>, shares: Vec<Replicated<Fp32BitPrime>>, c: RealCase, log: RLog) -> RecordResults {
        let role = ctx.role() as usize;
        let count = c.count;
        let v = ctx.set_total_records(count).validator::<Fp32BitPrime>();
        let m_ctx = v.context();
        let window = if c.all_at_once { count } else { m_ctx.active_work().get() };
        let shares = &shares;
        let futs: Vec<Pin<Box<dyn Future<Output = Result<(), String>> + Send + '_>>> = (0..count)
            .map(|i| {
                let cx = m_ctx.clone();
                let log = Arc::clone(&log);
                let mut a = shares[i].clone();
                let b = shares[i + 1].clone();
                let pause = pause_of(&c, role, i);
                if c.tamper == Some((role, i)) {
                    a = Replicated::new(a.left(), a.right() + Fp32BitPrime::ONE);
                }
                let f: Pin<Box<dyn Future<Output = Result<(), String>> + Send + '_>> = Box::pin(async move {
                    let rid = RecordId::from(i);
                    let (am, bm) = (a, b).upgrade(cx.clone(), rid).await.map_err(|e| format!("upgrade:{}", err_class(&e)))?;
                    let _p = am.multiply(&bm, cx.clone(), rid).await.map_err(|e| format!("multiply:{}", err_class(&e)))?;
                    if let Some(d) = pause {
                        tokio::time::sleep(d).await;
                    }
                    rlog_push(&log, (role, false, i, true));
                    let r = cx.validate_record(rid).await;
                    rlog_push(&log, (role, true, i, r.is_ok()));
                    r.map_err(|e| err_class(&e))
                });
                f
            })
            .collect();
        let out = SeededJoin::new(futs, window, VRng::new(c.seed ^ 0x99, role as u64)).await;
        drop(v);
        out
    }

    enum RealOutcome {
        Stalled,
        Panic(String),
        /// per helper, per record + "values reconstruct to the expected products"
        Done([RecordResults; 3], bool),
    }

    fn run_real(c: &RealCase) -> (RealOutcome, Vec<(usize, bool, usize, bool)>) {
        let log: RLog = Arc::new(std::sync::Mutex::new(Vec::new()));
        let l2 = Arc::clone(&log);
        let c2 = c.clone();
        let fut = async move {
            let c = c2;
            let mut config = TestWorldConfig { seed: c.seed, ..Default::default() }.with_no_timeout();
            let mut r = VRng::new(c.seed, 0xDA7A);
            if c.user == "dzkp" {
                let world = TestWorld::<NotSharded>::with_config(&config);
                let xs: Vec<Boolean> = (0..=c.count).map(|_| Boolean::from(r.bool())).collect();
                let res: [Vec<Result<Replicated<Boolean>, String>>; 3] = world
                    .malicious(xs.clone().into_iter(), |ctx, shares: Vec<Replicated<Boolean>>| dzkp_helper(ctx, shares, c.clone(), Arc::clone(&l2)))
                    .await;
                let mut values_ok = true;
                for i in 0..c.count {
                    if let (Ok(a), Ok(b), Ok(d)) = (&res[0][i], &res[1][i], &res[2][i]) {
                        let got: Boolean = [a.clone(), b.clone(), d.clone()].reconstruct();
                        values_ok &= got == xs[i] * xs[i + 1];
                    }
                }
                (res.map(|h| h.into_iter().map(|x| x.map(|_| ())).collect::<Vec<_>>()), values_ok)
            } else {
                config.gateway_config = GatewayConfig { active: c.rpb.try_into().unwrap(), ..Default::default() };
                let world = TestWorld::<NotSharded>::with_config(&config);
                let xs: Vec<Fp32BitPrime> = (0..=c.count).map(|_| Fp32BitPrime::truncate_from(r.u128())).collect();
                let res: [RecordResults; 3] = world
                    .malicious(xs.into_iter(), |ctx, shares: Vec<Replicated<Fp32BitPrime>>| mac_helper(ctx, shares, c.clone(), Arc::clone(&l2)))
                    .await;
                (res, true)
            }
        };
        let out = match vlib::run_paused(Duration::from_secs(60), QuietDrop(Some(catch_fut(fut)))) {
            vlib::Paused::Quiescent => RealOutcome::Stalled,
            vlib::Paused::Done(Err(p)) => RealOutcome::Panic(p),
            vlib::Paused::Done(Ok((res, values_ok))) => RealOutcome::Done(res, values_ok),
        };
        let l = log.lock().unwrap_or_else(|e| e.into_inner()).clone();
        (out, l)
    }

    fn rlog_json(l: &[(usize, bool, usize, bool)]) -> Value {
        json!(l.iter().map(|(h, rel, i, ok)| if *rel { format!("H{}: release({i}, {})", h + 1, if *ok { "Ok" } else { "Err" }) } else { format!("H{}: req({i})", h + 1) }).collect::<Vec<_>>())
    }

    fn judge_real(rec: &mut Recorder, c: &RealCase, idx: usize) {
        let md = Model { rpb: c.rpb, total: c.count };
        let (out, log) = run_real(c);
        rec.eval();
        let cj = c.json(idx);
        let witness = |extra: Value| {
            let mut w = cj.clone();
            w["observed"] = extra;
            w["log"] = rlog_json(&log);
            w
        };
        rec.seen("real_shapes", format!("{} total={} per_batch={} at_once={}", c.user, c.count, c.rpb, c.all_at_once));
        let res = match out {
            RealOutcome::Stalled => {
                let released = log.iter().filter(|e| e.1).count();
                rec.violation(
                    "batched validation did not complete (R6): the three helpers are idle but records are not released",
                    json!({"rule": "R6", "kind": "real_user_stalled", "user": c.user, "all_at_once": c.all_at_once}),
                    witness(json!({"releases_seen": released, "expected": 3 * c.count})),
                );
                return;
            }
            RealOutcome::Panic(p) => {
                rec.violation(
                    "batched validation: panic while validating records of an honest, legal run",
                    json!({"rule": "R0", "kind": "real_user_panic", "user": c.user, "panic": panic_class(&p), "all_at_once": c.all_at_once}),
                    witness(json!({"panic": p})),
                );
                return;
            }
            RealOutcome::Done(res, values_ok) => {
                if !values_ok {
                    rec.inconclusive(format!("case {idx}: products do not reconstruct (not a C16 matter, run not usable)"));
                    return;
                }
                res
            }
        };
        let mut bad = false;
        // R1 per helper on the world log
        for h in 0..3 {
            let mut req = vec![false; c.count];
            for (hh, rel, i, _) in &log {
                if *hh != h || *i >= c.count {
                    continue;
                }
                if !*rel {
                    req[*i] = true;
                } else {
                    let missing: Vec<usize> = md.members(md.batch(*i)).filter(|j| !req[*j]).collect();
                    if !missing.is_empty() && !bad {
                        bad = true;
                        rec.violation(
                            "batched validation: R1 released before whole batch requested (real user)",
                            json!({"rule": "R1", "kind": "released_before_whole_batch_requested", "user": c.user}),
                            witness(json!({"helper": h, "record": i, "not_yet_requested": missing})),
                        );
                    }
                }
            }
        }
        // R2: one verdict per batch and helper; honest batches Ok
        let tampered_batch = c.tamper.map(|(_, i)| md.batch(i));
        let mut tamper_rejected = 0;
        for h in 0..3 {
            for b in 0..md.nb() {
                let verdicts: Vec<bool> = md.members(b).map(|i| res[h][i].is_ok()).collect();
                let all_ok = verdicts.iter().all(|v| *v);
                let all_err = verdicts.iter().all(|v| !*v);
                if !all_ok && !all_err && !bad {
                    bad = true;
                    rec.violation(
                        "batched validation: R2 records of one batch got different verdicts (real user)",
                        json!({"rule": "R2", "kind": "mixed_verdicts_within_batch", "user": c.user, "tampered": tampered_batch == Some(b)}),
                        witness(json!({"helper": h, "batch": b, "results": md.members(b).map(|i| format!("{:?}", res[h][i])).collect::<Vec<_>>()})),
                    );
                }
                if tampered_batch == Some(b) {
                    if all_err {
                        tamper_rejected += 1;
                    }
                } else if !all_ok && !bad {
                    bad = true;
                    rec.violation(
                        "batched validation: R2 honest batch not released as Ok (real user)",
                        json!({"rule": "R2", "kind": "honest_batch_rejected", "user": c.user, "with_tampered_other_batch": tampered_batch.is_some()}),
                        witness(json!({"helper": h, "batch": b, "results": md.members(b).map(|i| format!("{:?}", res[h][i])).collect::<Vec<_>>()})),
                    );
                }
            }
        }
        if bad {
            return;
        }
        if tampered_batch.is_some() {
            if tamper_rejected == 3 {
                rec.count(&format!("real_{}_tampered_batch_rejected_others_ok", c.user));
            } else {
                rec.inconclusive(format!("case {idx}: tampered batch accepted by {} helper(s) (MAC soundness, not C16)", 3 - tamper_rejected));
                return;
            }
        } else {
            rec.count(&format!("real_{}_honest_ok", c.user));
        }
        rec.add("real_records_released", log.iter().filter(|e| e.1).count() as u64);
        // was the order in which records reached validate_record on H1 different from 0,1,2,…?
        let order: Vec<usize> = log.iter().filter(|e| e.0 == 0 && !e.1).map(|e| e.2).collect();
        if order.windows(2).any(|w| w[0] > w[1]) {
            rec.count("real_runs_with_out_of_order_requests");
        }
        let rel_batches: Vec<usize> = log.iter().filter(|e| e.0 == 0 && e.1).map(|e| md.batch(e.2)).collect();
        if rel_batches.windows(2).any(|w| w[0] > w[1]) {
            rec.count("real_runs_with_out_of_order_batch_release");
        }
        rec.distinct(&(c.user, c.count, c.rpb, c.all_at_once, c.total_on_ctx, c.tamper, c.delays, c.seed));
        if rec.want_sample() {
            let mut s = cj.clone();
            s["h1_request_order"] = json!(order);
            rec.sample(s);
        }
    }

    #[test]
    fn verif_c16_real_dzkp() {
        let env = vlib::env();
        let mut rec = Recorder::new("C16", "verif_c16_real_dzkp");
        let only = replay_case();
        // (records per batch, totals): 1, 2 and 3+ batches, short last batches, batch larger than the default
        // active work (16) so that the adjusted window matters
        let shapes: Vec<(usize, Vec<usize>)> =
            vec![(1, vec![1, 2, 5, 9, 20]), (2, vec![1, 2, 3, 7, 8]), (4, vec![3, 4, 6, 9, 13]), (8, vec![5, 8, 19]), (32, vec![33, 40, 64])];
        let reps = env.pick(3, 12);
        let mut idx = 0usize;
        for (rpb, totals) in &shapes {
            for total in totals {
                for all_at_once in [false, true] {
                    for delays in [true, false] {
                        for rep in 0..reps {
                            let my_idx = idx;
                            idx += 1;
                            if !env.mine(my_idx) || only.is_some_and(|c| c != my_idx) {
                                continue;
                            }
                            let mut r = VRng::new(env.seed ^ 0xC16_0004, my_idx as u64);
                            let c = RealCase { user: "dzkp", count: *total, rpb: *rpb, all_at_once, total_on_ctx: r.bool(), tamper: None, delays,
                                               seed: env.seed.wrapping_mul(100_000).wrapping_add((my_idx * 8 + rep) as u64) };
                            judge_real(&mut rec, &c, my_idx);
                        }
                    }
                }
            }
        }
        rec.finish();
    }

    #[test]
    fn verif_c16_real_mac() {
        let env = vlib::env();
        let mut rec = Recorder::new("C16", "verif_c16_real_mac");
        let only = replay_case();
        // MAC validator: records per batch = active work of the gateway
        let shapes: Vec<(usize, Vec<usize>)> = vec![(2, vec![1, 2, 3, 7]), (4, vec![3, 4, 5, 9, 12]), (8, vec![7, 8, 9, 17]), (16, vec![5, 16, 33])];
        let reps = env.pick(2, 8);
        let mut idx = 0usize;
        for (rpb, totals) in &shapes {
            for total in totals {
                for all_at_once in [false, true] {
                    for tampered in [false, true] {
                        for rep in 0..reps {
                            let my_idx = idx;
                            idx += 1;
                            if !env.mine(my_idx) || only.is_some_and(|c| c != my_idx) {
                                continue;
                            }
                            let mut r = VRng::new(env.seed ^ 0xC16_0005, my_idx as u64);
                            let tamper = tampered.then(|| (r.below(3) as usize, r.below(*total as u64) as usize));
                            let c = RealCase { user: "mac", count: *total, rpb: *rpb, all_at_once, total_on_ctx: true, tamper, delays: r.below(4) != 0,
                                               seed: env.seed.wrapping_mul(100_000).wrapping_add((my_idx * 8 + rep) as u64) };
                            judge_real(&mut rec, &c, my_idx);
                        }
                    }
                }
            }
        }
        rec.finish();
    }
}
