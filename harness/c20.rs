// C20 Helper-to-helper and shard-to-shard endpoints refuse unauthenticated callers.
//
// The route inventory is *discovered* by `lib/routes.py` (path templates, methods, mounting router) and handed over in
// the file named by $VERIF_ROUTES. The monitors send real requests
//   (a) in-process through `IpaHttpServer::handle_req` (no extension = no verified identity), and
//   (b) over loopback connections to `TestServer`s: TLS on {no client certificate, certificate of helper i / of the
//       shard, a certificate the server does not know, each with and without a caller-supplied identity header} and
//       TLS off {no header, header, malformed header},
// and judge every response against an oracle that does not look at the code under test:
//   * a fixed allow-list of report-collector routes (ALLOW) that must never answer 401;
//   * every other (server, method, path) must answer 401 without a verified identity whenever the same request sent
//     with a verified client certificate shows that the route exists with that method (status other than 404/405);
//     404/405 are only accepted when the reference request says 404/405 as well;
//   * under TLS the identity header never changes the outcome; with TLS off it is honoured.
// A request handler installed in the servers records every request that gets past the HTTP layer: a protected route
// whose handler is reached without a verified identity is a violation whatever the status code.
// IO errors / timeouts are inconclusive, never violations.

#[cfg(all(not(feature = "shuttle"), unit_test))]
mod live {
    use std::{
        collections::{BTreeMap, BTreeSet},
        sync::{
            Arc, Mutex,
            atomic::{AtomicU64, Ordering},
        },
        time::Duration,
    };

    use axum::body::Body;
    use futures::StreamExt;
    use hyper::{Request, Uri};
    use serde_json::{Value, json};

    use super::super::vlib::{self, Env, Recorder, VRng};
    use crate::{
        config::{ClientConfig, PeerConfig},
        executor::IpaRuntime,
        helpers::{
            ApiError, BodyStream, HelperIdentity, HelperResponse, RequestHandler, RoleAssignment,
            TransportIdentity, make_owned_handler,
            routing::{Addr, RouteId},
        },
        net::{
            ClientIdentity, ConnectionFlavor, Helper, HttpTransport, IpaHttpClient, IpaHttpServer, Shard,
            test::{TestConfig, TestServer, TestServerBuilder, get_client_test_identity},
        },
        protocol::{Gate, QueryId},
        sharding::{ShardIndex, ShardedHelperIdentity},
    };

    // -----------------------------------------------------------------------------------------
    // oracle table: the report-collector allow-list (server, method, full path template)
    // -----------------------------------------------------------------------------------------

    #[derive(Clone, Copy, PartialEq, Eq, Hash, Debug, PartialOrd, Ord)]
    enum Srv {
        Mpc,
        Shard,
    }
    impl Srv {
        fn name(self) -> &'static str {
            match self {
                Srv::Mpc => "mpc",
                Srv::Shard => "shard",
            }
        }
    }

    /// Routes that an external caller (report collector) may use without a helper/shard identity.
    /// Everything else that exists on either server must answer 401 without a verified identity.
    const ALLOW: &[(Srv, &str, &str)] = &[
        (Srv::Mpc, "GET", "/echo"),
        (Srv::Mpc, "GET", "/metrics"),
        (Srv::Mpc, "POST", "/query"),
        (Srv::Mpc, "POST", "/query/:query_id/input"),
        (Srv::Mpc, "GET", "/query/:query_id"),
        (Srv::Mpc, "POST", "/query/:query_id/kill"),
        (Srv::Mpc, "GET", "/query/:query_id/complete"),
        (Srv::Shard, "GET", "/echo"),
    ];

    fn allowed(srv: Srv, method: &str, template: &str) -> bool {
        ALLOW.iter().any(|(s, m, t)| *s == srv && *m == method && *t == template)
    }

    const METHODS: &[&str] = &["GET", "POST", "PUT", "DELETE", "PATCH"];
    const HELPER_HEADER: &str = "x-unverified-helper-identity";
    const SHARD_HEADER: &str = "x-unverified-shard-index";
    const IO_TIMEOUT: Duration = Duration::from_secs(30);

    // -----------------------------------------------------------------------------------------
    // inventory produced by lib/routes.py
    // -----------------------------------------------------------------------------------------

    #[derive(Clone, Debug)]
    struct Route {
        srv: Srv,
        router: String,
        methods: Vec<String>,
        full: String,
        name: String,
        auth_layer: bool,
    }

    struct Inventory {
        routes: Vec<Route>,
        warnings: Vec<String>,
        /// every path template seen anywhere (constants and mounted routes, without prefixes)
        raw_templates: BTreeSet<String>,
        prefixes: Vec<String>,
    }

    fn load_inventory() -> Result<Inventory, String> {
        let path = std::env::var("VERIF_ROUTES").map_err(|_| "VERIF_ROUTES is not set (route scanner did not run)".to_string())?;
        let txt = std::fs::read_to_string(&path).map_err(|e| format!("cannot read {path}: {e}"))?;
        let v: Value = serde_json::from_str(&txt).map_err(|e| format!("cannot parse {path}: {e}"))?;
        let mut routes = Vec::new();
        for r in v["routes"].as_array().cloned().unwrap_or_default() {
            let srv = match r["server"].as_str() {
                Some("mpc") => Srv::Mpc,
                Some("shard") => Srv::Shard,
                other => return Err(format!("scanner reported an unknown server {other:?}")),
            };
            routes.push(Route {
                srv,
                router: r["router"].as_str().unwrap_or("?").to_string(),
                methods: r["methods"].as_array().map(|a| a.iter().filter_map(|m| m.as_str().map(String::from)).collect()).unwrap_or_default(),
                full: r["full"].as_str().unwrap_or("").to_string(),
                name: r["name"].as_str().unwrap_or("").to_string(),
                auth_layer: r["auth_layer"].as_bool().unwrap_or(false),
            });
        }
        let warnings = v["warnings"].as_array().map(|a| a.iter().filter_map(|w| w.as_str().map(String::from)).collect()).unwrap_or_default();
        let mut prefixes: Vec<String> = v["prefixes"].as_array().map(|a| a.iter().filter_map(|w| w.as_str().map(String::from)).collect()).unwrap_or_default();
        if !prefixes.iter().any(String::is_empty) {
            prefixes.push(String::new());
        }
        let mut raw_templates = BTreeSet::new();
        for c in v["constants"].as_array().cloned().unwrap_or_default() {
            if let Some(p) = c["value"].as_str() {
                if !prefixes.iter().any(|x| x == p) {
                    raw_templates.insert(p.to_string());
                }
            }
        }
        for c in v["loose_templates"].as_array().cloned().unwrap_or_default() {
            if let Some(p) = c.as_str() {
                if !prefixes.iter().any(|x| x == p) {
                    raw_templates.insert(p.to_string());
                }
            }
        }
        for r in &routes {
            // strip the longest known prefix to get the raw template back
            let mut raw = r.full.clone();
            for p in &prefixes {
                if !p.is_empty() && r.full.starts_with(p.as_str()) && r.full.len() > p.len() {
                    raw = r.full[p.len()..].to_string();
                }
            }
            raw_templates.insert(raw);
        }
        Ok(Inventory { routes, warnings, raw_templates, prefixes })
    }

    /// distinct (server, full template) in scanner order, with the union of registered methods
    #[derive(Clone, Debug)]
    struct Tmpl {
        srv: Srv,
        full: String,
        registered: BTreeSet<String>,
        names: BTreeSet<String>,
        routers: BTreeSet<String>,
    }

    fn templates(inv: &Inventory) -> Vec<Tmpl> {
        let mut out: Vec<Tmpl> = Vec::new();
        for r in &inv.routes {
            if let Some(t) = out.iter_mut().find(|t| t.srv == r.srv && t.full == r.full) {
                t.registered.extend(r.methods.iter().cloned());
                t.names.insert(r.name.clone());
                t.routers.insert(r.router.clone());
            } else {
                out.push(Tmpl {
                    srv: r.srv,
                    full: r.full.clone(),
                    registered: r.methods.iter().cloned().collect(),
                    names: [r.name.clone()].into_iter().collect(),
                    routers: [r.router.clone()].into_iter().collect(),
                });
            }
        }
        out
    }

    /// matchit-style match of a concrete path (no query string) against a template
    fn template_matches(template: &str, path: &str) -> bool {
        let t: Vec<&str> = template.trim_end_matches('/').split('/').collect();
        let p: Vec<&str> = path.trim_end_matches('/').split('/').collect();
        let mut i = 0;
        while i < t.len() {
            let seg = t[i];
            if seg.starts_with('*') {
                return p.len() > i && !p[i..].join("/").is_empty();
            }
            if i >= p.len() {
                return false;
            }
            if seg.starts_with(':') {
                if p[i].is_empty() {
                    return false;
                }
            } else if seg != p[i] {
                return false;
            }
            i += 1;
        }
        p.len() == t.len()
    }

    // -----------------------------------------------------------------------------------------
    // request variants
    // -----------------------------------------------------------------------------------------

    const QUERY_OK: &str = "?query_type=test-multiply&field_type=fp31&size=1&status=Running";
    const QUERIES_BAD: &[&str] = &[
        "",
        "?x=1",
        "?size=0&field_type=bogus&query_type=nonsense",
        "?status=bogus",
        "?query_type=malicious-hybrid&field_type=fp32_bit_prime&size=18446744073709551616",
        "?query_type=test-multiply&field_type=fp31&size=1&size=2",
        "?%00=%ff",
    ];
    const IDS_BAD: &[&str] = &[
        "1", "abc", "00", "-1", "%30", "0%2F..%2Fecho", "null", "%00", "0.0", "0;0", "%F0%9F%A6%80", "~",
    ];
    const GATES: &[&str] = &["protocol/verif/a", "x", "protocol/hybrid/step-7/row%201", "a//b", "%2e%2e/%2e%2e/echo", "complete", "0/input"];

    #[derive(Clone, Debug)]
    struct Variant {
        label: String,
        /// path with '{U}' where a per-request unique suffix is inserted (only for wildcard templates)
        path: String,
        query: String,
        body: u8,
    }

    fn url_safe(r: &mut VRng, max: u64) -> String {
        const CH: &[u8] = b"abcdefghijklmnopqrstuvwxyzABCDEFGHIJKLMNOPQRSTUVWXYZ0123456789-._~";
        let n = r.range(1, max);
        (0..n)
            .map(|_| {
                if r.below(9) == 0 {
                    format!("%{:02X}", r.below(256))
                } else {
                    (CH[r.below(CH.len() as u64) as usize] as char).to_string()
                }
            })
            .collect()
    }

    fn instantiate(template: &str, id: &str, other: &str, gate: &str) -> String {
        let mut out = Vec::new();
        for seg in template.split('/') {
            if let Some(name) = seg.strip_prefix(':') {
                out.push(if name.contains("query") || name == "id" { id.to_string() } else { other.to_string() });
            } else if seg.starts_with('*') {
                out.push(format!("{gate}{{U}}"));
            } else {
                out.push(seg.to_string());
            }
        }
        out.join("/")
    }

    /// Deterministic variant list for one template: fixed corner list first, then seeded ones.
    fn variants(env: &Env, t: &Tmpl, tix: usize) -> Vec<Variant> {
        let mut v = Vec::new();
        let tp = t.full.as_str();
        v.push(Variant { label: "canonical".into(), path: instantiate(tp, "0", "0", GATES[0]), query: QUERY_OK.into(), body: 1 });
        v.push(Variant { label: "canonical-noquery".into(), path: instantiate(tp, "0", "0", GATES[1]), query: String::new(), body: 0 });
        v.push(Variant { label: "bad-id".into(), path: instantiate(tp, "abc", "%20", GATES[0]), query: QUERIES_BAD[1].into(), body: 2 });
        if !tp.contains("/*") {
            v.push(Variant { label: "trailing-slash".into(), path: format!("{}/", instantiate(tp, "0", "0", GATES[0])), query: QUERY_OK.into(), body: 1 });
        }
        let fixed = if env.thorough { IDS_BAD.len().max(GATES.len()).max(QUERIES_BAD.len()) } else { 0 };
        for k in 0..fixed {
            v.push(Variant {
                label: format!("pool-{k}"),
                path: instantiate(tp, if k % 3 == 2 { "0" } else { IDS_BAD[k % IDS_BAD.len()] }, IDS_BAD[(k + 1) % IDS_BAD.len()], GATES[k % GATES.len()]),
                query: if k % 4 == 3 { QUERY_OK.into() } else { QUERIES_BAD[k % QUERIES_BAD.len()].into() },
                body: (k % 3) as u8,
            });
        }
        v.push(Variant { label: "long".into(), path: instantiate(tp, &"9".repeat(300), &"z".repeat(300), &"s/".repeat(400)), query: format!("?q={}", "a".repeat(1200)), body: 2 });
        let seeded = env.pick(3, 40);
        for k in 0..seeded {
            let mut r = VRng::new(env.seed ^ 0xC20_0001, (tix * 1000 + k) as u64);
            let id = if r.below(3) == 0 { "0".to_string() } else { url_safe(&mut r, 12) };
            let gate = (0..r.range(1, 4)).map(|_| url_safe(&mut r, 10)).collect::<Vec<_>>().join("/");
            let q = match r.below(4) {
                0 => String::new(),
                1 => QUERY_OK.to_string(),
                _ => format!("?{}={}&{}={}", url_safe(&mut r, 6), url_safe(&mut r, 6), ["size", "status", "field_type", "query_type"][r.below(4) as usize], url_safe(&mut r, 8)),
            };
            v.push(Variant { label: format!("seeded-{k}"), path: instantiate(tp, &id, &url_safe(&mut r, 5), &gate), query: q, body: r.below(3) as u8 });
        }
        v
    }

    struct Case {
        idx: usize,
        tmpl: Tmpl,
        method: &'static str,
        variant: Variant,
    }

    fn build_cases(env: &Env, inv: &Inventory) -> Vec<Case> {
        let mut cases = Vec::new();
        for (tix, t) in templates(inv).into_iter().enumerate() {
            for variant in variants(env, &t, tix) {
                for m in METHODS {
                    cases.push(Case { idx: cases.len(), tmpl: t.clone(), method: m, variant: variant.clone() });
                }
            }
        }
        cases
    }

    fn replay_witness() -> Option<Value> {
        let p = vlib::env().replay?;
        serde_json::from_str(&std::fs::read_to_string(p).ok()?).ok()
    }
    fn replay_case() -> Option<usize> {
        replay_witness()?["witness"]["case"].as_u64().map(|v| v as usize)
    }
    /// start modes to run: both, or the one named in the witness being replayed
    fn starts() -> Vec<Start> {
        let only = replay_witness().and_then(|w| w["witness"]["start"].as_str().map(String::from));
        Start::ALL.into_iter().filter(|s| only.as_deref().is_none_or(|o| o == s.name())).collect()
    }

    // -----------------------------------------------------------------------------------------
    // world: four servers (mpc / shard, TLS on / off), recording request handlers, clients
    // -----------------------------------------------------------------------------------------

    type Log = Arc<Mutex<Vec<String>>>;

    fn response_for(route: RouteId) -> Result<HelperResponse, ApiError> {
        Ok(match route {
            RouteId::ReceiveQuery => HelperResponse::from(serde_json::to_vec(&json!({"query_id": QueryId})).unwrap()),
            RouteId::QueryStatus => HelperResponse::from(serde_json::to_vec(&json!({"status": "Running"})).unwrap()),
            RouteId::KillQuery => HelperResponse::from(serde_json::to_vec(&json!({"query_id": QueryId, "status": "killed"})).unwrap()),
            RouteId::CompleteQuery | RouteId::Metrics => HelperResponse::from(b"verif".to_vec()),
            _ => HelperResponse::ok(),
        })
    }

    fn recording_handler<I: TransportIdentity>(log: &Log) -> Arc<dyn RequestHandler<I>> {
        let log = Arc::clone(log);
        make_owned_handler(move |addr: Addr<I>, _body: BodyStream| {
            log.lock().unwrap().push(format!("{:?}", addr.route));
            let route = addr.route;
            async move { response_for(route) }
        })
    }

    fn cert_identity(k: usize) -> ClientIdentity<Helper> {
        let id = ShardedHelperIdentity::new(HelperIdentity::try_from(k % 3 + 1).unwrap(), ShardIndex::from((k / 3) as u32));
        get_client_test_identity(id).helper
    }

    fn cert_der(k: usize) -> crate::config::OwnedCertificate {
        match cert_identity(k) {
            ClientIdentity::Certificate((c, _)) => c[0].clone(),
            _ => unreachable!(),
        }
    }

    fn client(port: u16, tls: bool, id: ClientIdentity<Helper>) -> IpaHttpClient<Helper> {
        let url: Uri = format!("{}://localhost:{port}", if tls { "https" } else { "http" }).parse().unwrap();
        // both test servers present the certificate of (helper 1, shard 0)
        let peer = PeerConfig::new(url, tls.then(|| cert_der(0)));
        IpaHttpClient::new(IpaRuntime::current(), &ClientConfig::default(), peer, id)
    }

    /// How the listening socket of the servers under test came to be: `IpaHttpServer::start_on` has one arm per
    /// (disable_https, listener) combination. `TestServer` always hands over a pre-bound listener; a deployed helper
    /// passes `None` and lets the server bind `config.port` (here: `None` = a port chosen by the kernel).
    #[derive(Clone, Copy, PartialEq, Eq, Hash, Debug, PartialOrd, Ord)]
    enum Start {
        PreBound,
        SelfBound,
    }
    impl Start {
        const ALL: [Start; 2] = [Start::PreBound, Start::SelfBound];
        fn name(self) -> &'static str {
            match self {
                Start::PreBound => "listener-some",
                Start::SelfBound => "listener-none",
            }
        }
    }

    struct World {
        start: Start,
        /// port of the server that the loopback requests go to, per (server, tls)
        ports: BTreeMap<(Srv, bool), u16>,
        // servers started with `listener = None` (they share transport + request handler with the TestServer of the same kind)
        _own_h: Vec<IpaHttpServer<Helper>>,
        _own_s: Vec<IpaHttpServer<Shard>>,
        mpc_tls: TestServer<Helper>,
        mpc_plain: TestServer<Helper>,
        shard_tls: TestServer<Shard>,
        shard_plain: TestServer<Shard>,
        logs: BTreeMap<(Srv, bool), Log>,
        /// (server, tls, client label) -> client
        clients: BTreeMap<(Srv, bool, &'static str), IpaHttpClient<Helper>>,
        // keep the handlers alive: the transports only hold weak references
        _handlers_h: Vec<Arc<dyn RequestHandler<HelperIdentity>>>,
        _handlers_s: Vec<Arc<dyn RequestHandler<ShardIndex>>>,
        uniq: AtomicU64,
    }

    /// client certificates: index into the repository's test certificates
    /// (0,1,2 = helpers 1..3 of ring 0 = shard 0 of each helper; 3 = helper 1 / shard 1, unknown to every test server)
    const MPC_CERTS: &[(&str, usize)] = &[("cert-H1", 0), ("cert-H2", 1), ("cert-H3", 2)];
    const SHARD_CERTS: &[(&str, usize)] = &[("cert-S0", 0)];
    const FOREIGN_FOR_MPC: usize = 3;
    const FOREIGN_FOR_SHARD: usize = 1;

    impl World {
        async fn new(start: Start) -> World {
            let mut logs = BTreeMap::new();
            let mut hh = Vec::new();
            let mut hs = Vec::new();
            for srv in [Srv::Mpc, Srv::Shard] {
                for tls in [true, false] {
                    logs.insert((srv, tls), Log::default());
                }
            }
            let mk_h = |tls: bool, hh: &mut Vec<Arc<dyn RequestHandler<HelperIdentity>>>| {
                let h = recording_handler::<HelperIdentity>(&logs[&(Srv::Mpc, tls)]);
                hh.push(Arc::clone(&h));
                h
            };
            let mk_s = |tls: bool, hs: &mut Vec<Arc<dyn RequestHandler<ShardIndex>>>| {
                let h = recording_handler::<ShardIndex>(&logs[&(Srv::Shard, tls)]);
                hs.push(Arc::clone(&h));
                h
            };
            let mpc_tls = TestServer::builder().with_request_handler(mk_h(true, &mut hh)).build().await;
            let mpc_plain = TestServer::builder().disable_https().with_request_handler(mk_h(false, &mut hh)).build().await;
            let shard_tls = TestServerBuilder::<Shard>::default().with_request_handler(mk_s(true, &mut hs)).build().await;
            let shard_plain = TestServerBuilder::<Shard>::default().disable_https().with_request_handler(mk_s(false, &mut hs)).build().await;
            let mut ports = BTreeMap::new();
            ports.insert((Srv::Mpc, true), mpc_tls.addr.port());
            ports.insert((Srv::Mpc, false), mpc_plain.addr.port());
            ports.insert((Srv::Shard, true), shard_tls.addr.port());
            ports.insert((Srv::Shard, false), shard_plain.addr.port());
            let mut own_h = Vec::new();
            let mut own_s = Vec::new();
            if start == Start::SelfBound {
                // Second server per kind on the same transport (same request handler, same record streams), built from
                // the repository's own test configuration but with `port: None`, started the way bin/helper.rs does it:
                // no listener, the server binds by itself.
                for tls in [true, false] {
                    let tc = TestConfig::builder().with_disable_https_option(!tls).build();
                    let ring = tc.rings.first().unwrap();
                    let mut cfg = ring.servers[0].config.clone();
                    assert_eq!(cfg.disable_https, !tls);
                    cfg.port = None;
                    let t = if tls { &mpc_tls.transport } else { &mpc_plain.transport };
                    let server = IpaHttpServer::new_mpc(Arc::clone(t), cfg, ring.network.clone());
                    let (addr, _join) = server.start_on(&IpaRuntime::current(), None, ()).await;
                    ports.insert((Srv::Mpc, tls), addr.port());
                    own_h.push(server);

                    let net = &tc.shards[0];
                    let mut cfg = net.servers[0].config.clone();
                    assert_eq!(cfg.disable_https, !tls);
                    cfg.port = None;
                    let t = if tls { &shard_tls.transport } else { &shard_plain.transport };
                    let server = IpaHttpServer::new_shards(Arc::clone(t), cfg, net.network.clone());
                    let (addr, _join) = server.start_on(&IpaRuntime::current(), None, ()).await;
                    ports.insert((Srv::Shard, tls), addr.port());
                    own_s.push(server);
                }
            }
            let mut clients = BTreeMap::new();
            for (srv, port_tls, port_plain, certs, foreign) in [
                (Srv::Mpc, ports[&(Srv::Mpc, true)], ports[&(Srv::Mpc, false)], MPC_CERTS, FOREIGN_FOR_MPC),
                (Srv::Shard, ports[&(Srv::Shard, true)], ports[&(Srv::Shard, false)], SHARD_CERTS, FOREIGN_FOR_SHARD),
            ] {
                clients.insert((srv, true, "none"), client(port_tls, true, ClientIdentity::None));
                for (label, k) in certs {
                    clients.insert((srv, true, *label), client(port_tls, true, cert_identity(*k)));
                }
                clients.insert((srv, true, "cert-foreign"), client(port_tls, true, cert_identity(foreign)));
                clients.insert((srv, false, "none"), client(port_plain, false, ClientIdentity::None));
            }
            World { start, ports, _own_h: own_h, _own_s: own_s, mpc_tls, mpc_plain, shard_tls, shard_plain, logs, clients, _handlers_h: hh, _handlers_s: hs, uniq: AtomicU64::new(0) }
        }

        fn port(&self, srv: Srv, tls: bool) -> u16 {
            self.ports[&(srv, tls)]
        }

        fn next_uniq(&self) -> u64 {
            self.uniq.fetch_add(1, Ordering::Relaxed)
        }
    }

    #[derive(Clone, Debug)]
    struct Outcome {
        status: Option<u16>,
        err: Option<String>,
        /// request-handler invocations caused by this request
        reached: Vec<String>,
        path: String,
    }

    impl Outcome {
        fn class(&self) -> String {
            match (self.status, &self.err) {
                (Some(s), _) => s.to_string(),
                (None, Some(_)) => "io-error".into(),
                _ => "?".into(),
            }
        }
        fn json(&self) -> Value {
            json!({"status": self.status, "error": self.err, "handler_reached": self.reached, "path": self.path})
        }
    }

    #[derive(Clone, Copy, Debug, PartialEq, Eq)]
    enum Via {
        /// `IpaHttpServer::handle_req` of the TLS (true) or plain (false) server object
        InProc(bool),
        /// loopback connection: TLS on/off with the named client
        Net(bool, &'static str),
    }

    fn body_for(kind: u8, method: &str) -> (Body, Option<&'static str>) {
        if method == "GET" || method == "DELETE" {
            return (Body::empty(), None);
        }
        match kind {
            0 => (Body::empty(), None),
            1 => (
                Body::from(serde_json::to_string(&json!({"roles": RoleAssignment::new(HelperIdentity::make_three())})).unwrap()),
                Some("application/json"),
            ),
            _ => (Body::from(vec![0xA5u8; 64]), Some("application/octet-stream")),
        }
    }

    /// Sends one request. `headers` are added verbatim (the clients add none themselves).
    async fn send(w: &World, srv: Srv, via: Via, method: &str, v: &Variant, headers: &[(&str, &str)]) -> Outcome {
        let u = w.next_uniq();
        let path = v.path.replace("{U}", &format!("-u{u}"));
        let tls = match via {
            Via::InProc(t) | Via::Net(t, _) => t,
        };
        let full = format!("{}://localhost:{}{}{}", if tls { "https" } else { "http" }, w.port(srv, tls), path, v.query);
        let uri: Uri = match full.parse() {
            Ok(u) => u,
            Err(e) => return Outcome { status: None, err: Some(format!("uri: {e}")), reached: vec![], path },
        };
        let (body, ctype) = body_for(v.body, method);
        let mut b = Request::builder().method(method).uri(uri);
        if let Some(c) = ctype {
            b = b.header("content-type", c);
        }
        for (k, val) in headers {
            b = b.header(*k, *val);
        }
        let req = match b.body(body) {
            Ok(r) => r,
            Err(e) => return Outcome { status: None, err: Some(format!("request: {e}")), reached: vec![], path },
        };
        let log = &w.logs[&(srv, tls)];
        let before = log.lock().unwrap().len();
        let (status, err) = match via {
            Via::InProc(t) => {
                let fut = async {
                    match (srv, t) {
                        (Srv::Mpc, true) => w.mpc_tls.server.handle_req(req).await,
                        (Srv::Mpc, false) => w.mpc_plain.server.handle_req(req).await,
                        (Srv::Shard, true) => w.shard_tls.server.handle_req(req).await,
                        (Srv::Shard, false) => w.shard_plain.server.handle_req(req).await,
                    }
                };
                match tokio::time::timeout(IO_TIMEOUT, vlib::catch_fut(fut)).await {
                    Ok(Ok(resp)) => (Some(resp.status().as_u16()), None),
                    Ok(Err(p)) => (None, Some(format!("panic: {p}"))),
                    Err(_) => (None, Some("timeout".into())),
                }
            }
            Via::Net(t, label) => {
                let c = &w.clients[&(srv, t, label)];
                // a certificate the server does not know never gets a response: do not wait long for one
                let wait = if label == "cert-foreign" { Duration::from_secs(5) } else { IO_TIMEOUT };
                match tokio::time::timeout(wait, c.request(req)).await {
                    Ok(Ok(resp)) => (Some(resp.status().as_u16()), None),
                    Ok(Err(e)) => (None, Some(format!("{e}").chars().take(160).collect())),
                    Err(_) => (None, Some("timeout".into())),
                }
            }
        };
        let reached = log.lock().unwrap()[before..].to_vec();
        Outcome { status, err, reached, path }
    }

    fn id_header(srv: Srv) -> &'static str {
        match srv {
            Srv::Mpc => HELPER_HEADER,
            Srv::Shard => SHARD_HEADER,
        }
    }
    fn ref_client(srv: Srv) -> &'static str {
        match srv {
            Srv::Mpc => "cert-H2",
            Srv::Shard => "cert-S0",
        }
    }
    /// header values that name an existing peer of the server
    fn spoof_values(srv: Srv) -> &'static [&'static str] {
        match srv {
            Srv::Mpc => &["A", "B", "C"],
            Srv::Shard => &["0", "1"],
        }
    }

    fn run<F: std::future::Future>(f: F) -> F::Output {
        let rt = tokio::runtime::Builder::new_multi_thread()
            .worker_threads(2)
            .thread_name("verif_c20_rt")
            .enable_all()
            .build()
            .unwrap();
        let out = rt.block_on(f);
        rt.shutdown_background();
        out
    }

    // -----------------------------------------------------------------------------------------
    // the oracle
    // -----------------------------------------------------------------------------------------

    #[derive(Clone, Copy, PartialEq, Eq, Debug)]
    enum Ident {
        /// the request carries no verified identity (whatever headers it carries)
        Unverified,
        /// verified client certificate known to the server
        Verified,
        /// TLS disabled and a well-formed identity header: honoured by design
        HeaderHonoured,
        /// TLS disabled and a malformed identity header
        HeaderMalformed,
        /// certificate the server does not know: rejected at the TLS layer or treated as no identity
        Foreign,
    }

    struct Judge<'a> {
        rec: &'a mut Recorder,
        io_errors: u64,
        start: Start,
    }

    impl Judge<'_> {
        /// `reference` = same request sent with a verified client certificate over TLS.
        #[allow(clippy::too_many_arguments)]
        fn check(&mut self, case: &Case, mode: &str, ident: Ident, reference: &Outcome, baseline: Option<&Outcome>, o: &Outcome, hdr: Option<&str>) {
            let srv = case.tmpl.srv;
            let tp = case.tmpl.full.as_str();
            let allow = allowed(srv, case.method, tp);
            let kind = if allow { "allowed" } else { "protected" };
            self.rec.eval();
            self.rec.seen("status_classes", format!("{}/{mode}/{kind}/{}", srv.name(), o.class()));
            let witness = json!({"case": case.idx, "server": srv.name(), "method": case.method, "template": tp, "variant": case.variant.label,
                "mode": mode, "start": self.start.name(), "header": hdr, "query": case.variant.query, "body_kind": case.variant.body,
                "scanner": {"handler_modules": case.tmpl.names, "mounted_by": case.tmpl.routers, "registered_methods": case.tmpl.registered},
                "outcome": o.json(), "reference_with_verified_cert": reference.json(), "baseline": baseline.map(Outcome::json)});
            let start = self.start;
            let sig = |what: &str, o: &Outcome| json!({"kind": what, "server": srv.name(), "method": case.method, "template": tp, "mode": mode, "start": start.name(), "status": o.status});
            if o.status.is_some() && !mode.starts_with("inproc") {
                // which arm of `start_on` produced the listener that answered
                self.rec.seen("start_modes", format!("{}/{}/{}", srv.name(), if mode.starts_with("tls") { "https" } else { "http" }, start.name()));
            }
            let Some(st) = o.status else {
                if ident == Ident::Foreign {
                    self.rec.count("foreign_cert_rejected_at_tls");
                    self.rec.seen("foreign_cert_errors", o.err.clone().unwrap_or_default().chars().filter(|c| !c.is_ascii_digit()).take(110).collect::<String>());
                    self.rec.distinct(&(srv, case.method, tp, &case.variant.label, mode, start));
                } else if o.err.as_deref().is_some_and(|e| e.starts_with("uri:") || e.starts_with("request:")) {
                    self.rec.count("variant_rejected_by_http_client");
                } else {
                    self.io_errors += 1;
                    self.rec.count("io_errors");
                    self.rec.inconclusive(format!("io error on {} {} {} [{mode}]: {:?}", srv.name(), case.method, o.path.chars().take(80).collect::<String>(), o.err));
                }
                return;
            };
            let exists = reference.status.is_some_and(|s| s != 404 && s != 405);
            let mut ok = true;
            match ident {
                Ident::Unverified | Ident::Foreign => {
                    if allow {
                        if st == 401 {
                            ok = false;
                            self.rec.violation("report-collector route answered 401", sig("allowlisted_401", o), witness.clone());
                        }
                    } else {
                        if !o.reached.is_empty() {
                            ok = false;
                            self.rec.violation("request handler of a protected route reached without a verified identity", sig("handler_reached_unverified", o), witness.clone());
                        }
                        if exists && st != 401 {
                            ok = false;
                            self.rec.violation("route exists (per request with a verified certificate) but does not answer 401 without a verified identity", sig("not_401", o), witness.clone());
                        } else if !exists && !matches!(st, 401 | 404 | 405) {
                            ok = false;
                            self.rec.violation("request without a verified identity answered by something other than 401/404/405", sig("not_401", o), witness.clone());
                        }
                    }
                    // a caller-supplied header must not change anything (TLS) / nothing reaches handle_req's router
                    if let Some(b) = baseline {
                        if b.status.is_some() && b.status != o.status {
                            ok = false;
                            self.rec.violation("identity header changed the outcome of a request without a verified identity", sig("header_changed_outcome", o), witness.clone());
                        }
                    }
                }
                Ident::Verified => {
                    if allow && st == 401 {
                        ok = false;
                        self.rec.violation("report-collector route answered 401", sig("allowlisted_401", o), witness.clone());
                    }
                    if let Some(b) = baseline {
                        // certificate of i plus a header claiming j: must be exactly what the certificate alone gives
                        if b.status.is_some() && b.status != o.status {
                            ok = false;
                            self.rec.violation("identity header changed the outcome of a request with a client certificate", sig("header_changed_outcome", o), witness.clone());
                        }
                    } else if reference.status.is_some() && reference.status != o.status && (st == 401) != (reference.status == Some(401)) {
                        // another known certificate: same access decision as the reference certificate
                        ok = false;
                        self.rec.violation("two known client certificates get different access decisions", sig("cert_decision_differs", o), witness.clone());
                    }
                }
                Ident::HeaderHonoured => {
                    if allow && st == 401 {
                        ok = false;
                        self.rec.violation("report-collector route answered 401", sig("allowlisted_401", o), witness.clone());
                    }
                    if !allow && exists && st == 401 {
                        ok = false;
                        self.rec.violation("TLS disabled: identity header not honoured (401 although the route exists)", sig("header_not_honoured", o), witness.clone());
                    }
                }
                Ident::HeaderMalformed => {
                    if !allow && (!o.reached.is_empty() || (200..300).contains(&st)) {
                        ok = false;
                        self.rec.violation("TLS disabled: malformed identity header gave access to a protected route", sig("malformed_header_access", o), witness.clone());
                    }
                }
            }
            if ok {
                self.rec.distinct(&(srv, case.method, tp, &case.variant.label, mode, hdr, start));
                if start == Start::SelfBound {
                    self.rec.count("judged_ok_on_self_bound_listener");
                }
                self.rec.count(if allow { "allowed_ok" } else if exists { "protected_existing_ok" } else { "protected_absent_ok" });
                if !allow && exists && matches!(ident, Ident::Unverified) && st == 401 {
                    self.rec.seen("protected_routes", format!("{} {} {}", srv.name(), case.method, tp));
                }
                if allow && st != 401 {
                    self.rec.seen("allowed_routes", format!("{} {} {}", srv.name(), case.method, tp));
                }
            }
        }
    }

    /// Reference request: same method/path with a certificate the server knows. `None` (and an inconclusive note) when
    /// it cannot be obtained.
    async fn reference(w: &World, rec: &mut Recorder, case: &Case) -> Option<Outcome> {
        let r = send(w, case.tmpl.srv, Via::Net(true, ref_client(case.tmpl.srv)), case.method, &case.variant, &[]).await;
        if r.status.is_none() {
            if r.err.as_deref().is_some_and(|e| e.starts_with("uri:") || e.starts_with("request:")) {
                rec.count("variant_rejected_by_http_client");
            } else {
                rec.count("io_errors");
                rec.inconclusive(format!("reference request failed: {} {} {}: {:?}", case.tmpl.srv.name(), case.method, case.variant.label, r.err));
            }
            return None;
        }
        let registered = case.tmpl.registered.contains(case.method);
        if r.status == Some(401) && !allowed(case.tmpl.srv, case.method, &case.tmpl.full) && registered {
            rec.inconclusive(format!(
                "request with a known client certificate got 401 on {} {} {}: existence of the route cannot be established",
                case.tmpl.srv.name(), case.method, case.tmpl.full
            ));
            return None;
        }
        rec.seen("reference_status", format!("{} {} {} -> {}", case.tmpl.srv.name(), case.method, case.tmpl.full, r.class()));
        Some(r)
    }

    struct Setup {
        env: Env,
        inv: Inventory,
        cases: Vec<Case>,
        only: Option<usize>,
    }

    fn setup(rec: &mut Recorder) -> Option<Setup> {
        let env = vlib::env();
        let inv = match load_inventory() {
            Ok(i) => i,
            Err(e) => {
                rec.inconclusive(e);
                return None;
            }
        };
        if inv.routes.is_empty() {
            rec.inconclusive("route scanner found no routes");
            return None;
        }
        for wn in &inv.warnings {
            rec.inconclusive(format!("route scanner: {wn}"));
        }
        let cases = build_cases(&env, &inv);
        Some(Setup { env, inv, cases, only: replay_case() })
    }

    fn sample(rec: &mut Recorder, start: Start, case: &Case, mode: &str, r: &Outcome, o: &Outcome) {
        if rec.want_sample() && case.idx % 37 == 5 {
            rec.sample(json!({"case": case.idx, "server": case.tmpl.srv.name(), "method": case.method, "template": case.tmpl.full,
                "variant": case.variant.label, "path": o.path.chars().take(120).collect::<String>(), "mode": mode, "start": start.name(), "status": o.status,
                "status_with_verified_cert": r.status}));
        }
    }

    // -----------------------------------------------------------------------------------------
    // (a) in-process: IpaHttpServer::handle_req without the identity extension
    // -----------------------------------------------------------------------------------------

    #[test]
    fn verif_c20_inproc() {
        let mut rec = Recorder::new("C20", "verif_c20_inproc");
        let Some(s) = setup(&mut rec) else { return rec.finish() };
        // handle_req does not involve a listener: one world is enough
        for start in [Start::PreBound] { run(async {
            let w = World::new(start).await;
            let mut j = Judge { rec: &mut rec, io_errors: 0, start };
            for case in &s.cases {
                if !s.env.mine(case.idx) || s.only.is_some_and(|c| c != case.idx) {
                    continue;
                }
                let srv = case.tmpl.srv;
                let Some(r) = reference(&w, j.rec, case).await else { continue };
                j.rec.seen("routes", format!("{} {}", srv.name(), case.tmpl.full));
                for tls_obj in [true, false] {
                    let mode = if tls_obj { "inproc-tlscfg" } else { "inproc-plaincfg" };
                    let base = send(&w, srv, Via::InProc(tls_obj), case.method, &case.variant, &[]).await;
                    j.check(case, mode, Ident::Unverified, &r, None, &base, None);
                    sample(j.rec, j.start, case, mode, &r, &base);
                    // the header is only interpreted by a layer that start_on adds for plain-HTTP listeners: the bare
                    // router must ignore it
                    let hv = spoof_values(srv)[case.idx % spoof_values(srv).len()];
                    let o = send(&w, srv, Via::InProc(tls_obj), case.method, &case.variant, &[(id_header(srv), hv)]).await;
                    let mode_h = if tls_obj { "inproc-tlscfg+header" } else { "inproc-plaincfg+header" };
                    j.check(case, mode_h, Ident::Unverified, &r, Some(&base), &o, Some(hv));
                }
                if j.io_errors > 20 {
                    break;
                }
            }
        }); }
        rec.finish();
    }

    // -----------------------------------------------------------------------------------------
    // (b1) loopback, TLS on
    // -----------------------------------------------------------------------------------------

    #[test]
    fn verif_c20_tls() {
        let mut rec = Recorder::new("C20", "verif_c20_tls");
        let Some(s) = setup(&mut rec) else { return rec.finish() };
        for start in starts() { run(async {
            let w = World::new(start).await;
            let mut j = Judge { rec: &mut rec, io_errors: 0, start };
            for case in &s.cases {
                if !s.env.mine(case.idx) || s.only.is_some_and(|c| c != case.idx) {
                    continue;
                }
                let srv = case.tmpl.srv;
                let Some(r) = reference(&w, j.rec, case).await else { continue };
                j.rec.seen("routes", format!("{} {}", srv.name(), case.tmpl.full));
                let hdr = id_header(srv);
                // no client certificate
                let base = send(&w, srv, Via::Net(true, "none"), case.method, &case.variant, &[]).await;
                j.check(case, "tls-nocert", Ident::Unverified, &r, None, &base, None);
                sample(j.rec, j.start, case, "tls-nocert", &r, &base);
                // no client certificate + spoofed header (every peer name, a malformed one, and the *other* flavour's header)
                let mut spoof: Vec<(&str, &str)> = spoof_values(srv).iter().map(|v| (hdr, *v)).collect();
                spoof.push((hdr, "H1; DROP"));
                spoof.push((id_header(if srv == Srv::Mpc { Srv::Shard } else { Srv::Mpc }), if srv == Srv::Mpc { "0" } else { "A" }));
                for (k, (hn, hv)) in spoof.iter().enumerate() {
                    // quick: two of them per case (rotating), thorough: all
                    if !s.env.thorough && k != case.idx % spoof.len() && k != (case.idx / 5 + 1) % spoof.len() {
                        continue;
                    }
                    let o = send(&w, srv, Via::Net(true, "none"), case.method, &case.variant, &[(*hn, *hv)]).await;
                    let mode = if *hn == hdr { "tls-nocert+header" } else { "tls-nocert+otherheader" };
                    j.check(case, mode, Ident::Unverified, &r, Some(&base), &o, Some(*hv));
                }
                // known client certificates, without and with a header claiming somebody else
                let certs = if srv == Srv::Mpc { MPC_CERTS } else { SHARD_CERTS };
                for (ci, (label, _)) in certs.iter().enumerate() {
                    if !s.env.thorough && certs.len() > 1 && ci != case.idx % certs.len() {
                        continue;
                    }
                    let cb = send(&w, srv, Via::Net(true, label), case.method, &case.variant, &[]).await;
                    j.check(case, "tls-cert", Ident::Verified, &r, None, &cb, None);
                    let others: Vec<&str> = spoof_values(srv).iter().copied().filter(|v| spoof_values(srv)[ci.min(spoof_values(srv).len() - 1)] != *v).collect();
                    let claim = others[case.idx % others.len()];
                    let o = send(&w, srv, Via::Net(true, label), case.method, &case.variant, &[(hdr, claim)]).await;
                    j.check(case, "tls-cert+header", Ident::Verified, &r, Some(&cb), &o, Some(claim));
                    let o = send(&w, srv, Via::Net(true, label), case.method, &case.variant, &[(hdr, "not-an-identity")]).await;
                    j.check(case, "tls-cert+badheader", Ident::Verified, &r, Some(&cb), &o, Some("not-an-identity"));
                }
                // a certificate the server does not know (a shard-1 certificate for the helper ring; another helper's
                // certificate for the shard network): TLS rejection or 401, with or without a header
                if s.env.thorough || case.idx % 3 == 0 {
                    let o = send(&w, srv, Via::Net(true, "cert-foreign"), case.method, &case.variant, &[]).await;
                    j.check(case, "tls-foreigncert", Ident::Foreign, &r, None, &o, None);
                    let hv = spoof_values(srv)[0];
                    let o = send(&w, srv, Via::Net(true, "cert-foreign"), case.method, &case.variant, &[(hdr, hv)]).await;
                    j.check(case, "tls-foreigncert+header", Ident::Foreign, &r, None, &o, Some(hv));
                }
                if j.io_errors > 20 {
                    break;
                }
            }
        }); }
        rec.finish();
    }

    // -----------------------------------------------------------------------------------------
    // (b2) loopback, TLS off: the header is the identity
    // -----------------------------------------------------------------------------------------

    #[test]
    fn verif_c20_plain() {
        let mut rec = Recorder::new("C20", "verif_c20_plain");
        let Some(s) = setup(&mut rec) else { return rec.finish() };
        for start in starts() { run(async {
            let w = World::new(start).await;
            let mut j = Judge { rec: &mut rec, io_errors: 0, start };
            for case in &s.cases {
                if !s.env.mine(case.idx) || s.only.is_some_and(|c| c != case.idx) {
                    continue;
                }
                let srv = case.tmpl.srv;
                let Some(r) = reference(&w, j.rec, case).await else { continue };
                j.rec.seen("routes", format!("{} {}", srv.name(), case.tmpl.full));
                let hdr = id_header(srv);
                let base = send(&w, srv, Via::Net(false, "none"), case.method, &case.variant, &[]).await;
                j.check(case, "plain-noheader", Ident::Unverified, &r, None, &base, None);
                sample(j.rec, j.start, case, "plain-noheader", &r, &base);
                for (k, hv) in spoof_values(srv).iter().enumerate() {
                    if !s.env.thorough && k != case.idx % spoof_values(srv).len() {
                        continue;
                    }
                    let o = send(&w, srv, Via::Net(false, "none"), case.method, &case.variant, &[(hdr, *hv)]).await;
                    j.check(case, "plain-header", Ident::HeaderHonoured, &r, None, &o, Some(*hv));
                }
                let bad = ["H1", "", "-1", "AA"][case.idx % 4];
                let o = send(&w, srv, Via::Net(false, "none"), case.method, &case.variant, &[(hdr, bad)]).await;
                j.check(case, "plain-badheader", Ident::HeaderMalformed, &r, None, &o, Some(bad));
                // the other flavour's header is not an identity for this server
                let (oh, ov) = if srv == Srv::Mpc { (SHARD_HEADER, "0") } else { (HELPER_HEADER, "A") };
                let o = send(&w, srv, Via::Net(false, "none"), case.method, &case.variant, &[(oh, ov)]).await;
                j.check(case, "plain-otherheader", Ident::Unverified, &r, Some(&base), &o, Some(ov));
                if j.io_errors > 20 {
                    break;
                }
            }
        }); }
        rec.finish();
    }

    // -----------------------------------------------------------------------------------------
    // identity binding on the record-stream route: the stream is registered under the *verified* identity
    // -----------------------------------------------------------------------------------------

    /// Reads what the transport holds for (query, `from`, gate): `Some(bytes)` when a stream is registered there and
    /// delivers data within `wait`, `None` otherwise. Must be called at most once per key (taking a stream out of the
    /// collection leaves a tombstone).
    async fn stream_under<F: ConnectionFlavor>(t: &HttpTransport<F>, from: F::Identity, gate: &str, want: usize, wait: Duration) -> Option<Vec<u8>> {
        let mut s = Box::pin(t.receive(from, &(QueryId, Gate::from(gate))));
        let mut got = Vec::new();
        let r = tokio::time::timeout(wait, async {
            while got.len() < want {
                match s.next().await {
                    Some(Ok(b)) => got.extend_from_slice(b.as_ref()),
                    _ => break,
                }
            }
        })
        .await;
        if r.is_err() && got.is_empty() { None } else { Some(got) }
    }

    /// all identities the server could possibly file a stream under
    fn all_ids(srv: Srv) -> Vec<String> {
        match srv {
            Srv::Mpc => vec!["A".into(), "B".into(), "C".into()],
            Srv::Shard => (0..4).map(|i| i.to_string()).collect(),
        }
    }

    async fn held_by(w: &World, srv: Srv, tls: bool, id: &str, gate: &str, want: usize, wait: Duration) -> Option<Vec<u8>> {
        match (srv, tls) {
            (Srv::Mpc, true) => stream_under(&w.mpc_tls.transport, HelperIdentity::from_str(id).unwrap(), gate, want, wait).await,
            (Srv::Mpc, false) => stream_under(&w.mpc_plain.transport, HelperIdentity::from_str(id).unwrap(), gate, want, wait).await,
            (Srv::Shard, true) => stream_under(&w.shard_tls.transport, ShardIndex::from_str(id).unwrap(), gate, want, wait).await,
            (Srv::Shard, false) => stream_under(&w.shard_plain.transport, ShardIndex::from_str(id).unwrap(), gate, want, wait).await,
        }
    }

    #[test]
    fn verif_c20_identity_binding() {
        let mut rec = Recorder::new("C20", "verif_c20_identity_binding");
        let Some(s) = setup(&mut rec) else { return rec.finish() };
        // stream routes = discovered templates with a wildcard tail that are registered for POST
        let streams: Vec<Tmpl> = templates(&s.inv).into_iter().filter(|t| t.full.contains("/*") && t.registered.contains("POST")).collect();
        if streams.is_empty() {
            rec.inconclusive("no record-stream route (wildcard tail, POST) discovered");
            return rec.finish();
        }
        // (tls, client label, verified identity (None = no certificate), header claim)
        struct B {
            tls: bool,
            client: &'static str,
            verified: Option<&'static str>,
            claim: Option<&'static str>,
        }
        let mut plans: Vec<(Tmpl, B)> = Vec::new();
        for t in &streams {
            let (certs, names): (&[(&str, usize)], &[&str]) = if t.srv == Srv::Mpc { (MPC_CERTS, &["A", "B", "C"]) } else { (SHARD_CERTS, &["0"]) };
            let claims: &[&str] = if t.srv == Srv::Mpc { &["A", "B", "C"] } else { &["0", "1", "3"] };
            for (ci, (label, _)) in certs.iter().enumerate() {
                plans.push((t.clone(), B { tls: true, client: label, verified: Some(names[ci]), claim: None }));
                for c in claims {
                    if *c != names[ci] {
                        plans.push((t.clone(), B { tls: true, client: label, verified: Some(names[ci]), claim: Some(c) }));
                    }
                }
            }
            for c in claims {
                plans.push((t.clone(), B { tls: true, client: "none", verified: None, claim: Some(c) }));
                plans.push((t.clone(), B { tls: false, client: "none", verified: Some(c), claim: Some(c) }));
            }
            plans.push((t.clone(), B { tls: false, client: "none", verified: None, claim: None }));
        }
        let rounds = s.env.pick(1, 12);
        for start in starts() { run(async {
            let w = World::new(start).await;
            let mut idx = 0usize;
            for round in 0..rounds {
                for (t, b) in &plans {
                    let case_idx = idx;
                    idx += 1;
                    if !s.env.mine(case_idx) || s.only.is_some_and(|c| c != case_idx) {
                        continue;
                    }
                    let srv = t.srv;
                    let mut r = VRng::new(s.env.seed ^ 0xC20_B1D, case_idx as u64);
                    let gate = format!("verif/bind/{}/{}", case_idx, url_safe(&mut r, 8).replace('%', "p"));
                    let plen = r.range(1, 48) as usize;
                    let payload = r.bytes(plen);
                    let path = instantiate(&t.full, "0", "0", &gate).replace("{U}", "");
                    let uri: Uri = format!("{}://localhost:{}{}", if b.tls { "https" } else { "http" }, w.port(srv, b.tls), path).parse().unwrap();
                    let mut rb = Request::builder().method("POST").uri(uri);
                    if let Some(c) = b.claim {
                        rb = rb.header(id_header(srv), c);
                    }
                    let req = rb.body(Body::from(payload.clone())).unwrap();
                    let resp = tokio::time::timeout(IO_TIMEOUT, w.clients[&(srv, b.tls, b.client)].request(req)).await;
                    let status = match resp {
                        Ok(Ok(resp)) => resp.status().as_u16(),
                        other => {
                            rec.count("io_errors");
                            rec.inconclusive(format!("binding request failed: {:?}", other.map(|r| r.map(|x| x.status()).map_err(|e| e.to_string()))));
                            continue;
                        }
                    };
                    rec.eval();
                    let mode = format!("{}{}{}", if b.tls { "tls" } else { "plain" }, if b.client == "none" { "-nocert" } else { "-cert" }, if b.claim.is_some() { "+header" } else { "" });
                    rec.seen("status_classes", format!("{}/bind-{mode}/protected/{status}", srv.name()));
                    rec.seen("start_modes", format!("{}/{}/{}", srv.name(), if b.tls { "https" } else { "http" }, start.name()));
                    rec.seen("routes", format!("{} {}", srv.name(), t.full));
                    // where did the stream end up? the verified identity first (generous wait for the bytes), then everybody
                    // else (an identity that holds nothing stays pending; short wait)
                    let mut filed = Vec::new();
                    let mut unknown = false;
                    let mut order = all_ids(srv);
                    if let Some(v) = b.verified {
                        order.sort_by_key(|x| x != v);
                    }
                    for id in order {
                        let wait = if b.verified == Some(id.as_str()) && status != 401 { Duration::from_secs(15) } else { Duration::from_millis(120) };
                        match held_by(&w, srv, b.tls, &id, &gate, payload.len(), wait).await {
                            Some(bytes) if bytes == payload => filed.push(id),
                            Some(_) => {
                                unknown = true;
                                filed.push(format!("{id}?"));
                            }
                            None => {}
                        }
                    }
                    let witness = json!({"case": case_idx, "round": round, "start": start.name(), "server": srv.name(), "template": t.full, "tls": b.tls, "client": b.client,
                        "verified_identity": b.verified, "header_claim": b.claim, "gate": gate, "status": status, "stream_filed_under": filed});
                    let sig = |k: &str| json!({"kind": k, "server": srv.name(), "method": "POST", "template": t.full, "mode": mode, "start": start.name(), "status": status});
                    match b.verified {
                        None => {
                            if status != 401 {
                                rec.violation("record-stream route did not answer 401 without a verified identity", sig("not_401"), witness);
                            } else if !filed.is_empty() {
                                rec.violation("record stream accepted from a caller without a verified identity", sig("stream_filed_unverified"), witness);
                            } else {
                                rec.count("binding_refused_ok");
                                if start == Start::SelfBound {
                                    rec.count("binding_refused_ok_on_self_bound_listener");
                                }
                                rec.distinct(&(srv, &t.full, &mode, b.claim, "refused", start));
                            }
                        }
                        Some(v) => {
                            if status == 401 {
                                if b.tls {
                                    rec.inconclusive(format!("known client certificate refused (401) on {} {}", srv.name(), t.full));
                                } else {
                                    rec.violation("TLS disabled: identity header not honoured on the record-stream route", sig("header_not_honoured"), witness);
                                }
                            } else if unknown {
                                rec.inconclusive(format!("record stream registered but its bytes did not arrive as sent ({} {mode})", srv.name()));
                            } else if filed == vec![v.to_string()] {
                                rec.count("binding_ok");
                                rec.distinct(&(srv, &t.full, &mode, b.client, b.claim, start));
                                if start == Start::SelfBound {
                                    rec.count("binding_ok_on_self_bound_listener");
                                }
                                if rec.want_sample() {
                                    rec.sample(json!({"case": case_idx, "server": srv.name(), "mode": mode, "start": start.name(), "client": b.client, "header_claim": b.claim,
                                        "status": status, "stream_filed_under": filed}));
                                }
                            } else if (200..300).contains(&status) {
                                rec.violation(
                                    "record stream filed under an identity other than the verified one",
                                    json!({"kind": "stream_misfiled", "server": srv.name(), "method": "POST", "template": t.full, "mode": mode, "start": start.name(),
                                        "claimed": b.claim.is_some(), "filed_under_claim": b.claim.is_some_and(|c| filed.iter().any(|f| f == c))}),
                                    witness,
                                );
                            } else {
                                rec.inconclusive(format!("record-stream route answered {status} to a verified caller ({} {mode})", srv.name()));
                            }
                        }
                    }
                }
            }
        }); }
        rec.finish();
    }

    // -----------------------------------------------------------------------------------------
    // inventory cross-check (single process)
    // -----------------------------------------------------------------------------------------

    #[test]
    fn verif_c20_inventory_x1() {
        let mut rec = Recorder::new("C20", "verif_c20_inventory_x1");
        let Some(s) = setup(&mut rec) else { return rec.finish() };
        let tmpls = templates(&s.inv);
        // scanner attribution vs. allow-list (informational; the oracle is the table)
        for r in &s.inv.routes {
            rec.seen("scanner_routes", format!("{} [{}] {} {} ({}{})", r.srv.name(), r.router, r.methods.join("|"), r.full, r.name, if r.auth_layer { ", auth layer" } else { "" }));
            for m in &r.methods {
                let a = allowed(r.srv, m, &r.full);
                if a && (r.router == "h2h" || r.router == "s2s") {
                    rec.note(format!("allow-listed route {} {} {} is mounted by the {} router", r.srv.name(), m, r.full, r.router));
                }
                if !a && r.router != "h2h" && r.router != "s2s" {
                    rec.note(format!("route {} {} {} is mounted outside the h2h/s2s routers but is not allow-listed: treated as protected", r.srv.name(), m, r.full));
                }
            }
        }
        for (srv, m, t) in ALLOW {
            if !s.inv.routes.iter().any(|r| r.srv == *srv && r.full == *t && r.methods.iter().any(|x| x == m)) {
                rec.note(format!("allow-list entry {} {m} {t} was not discovered by the scanner", srv.name()));
            }
        }
        for start in starts() { run(async {
            let w = World::new(start).await;
            let mut j = Judge { rec: &mut rec, io_errors: 0, start };
            let canon = |t: &Tmpl| Variant { label: "canonical".into(), path: instantiate(&t.full, "0", "0", GATES[0]), query: QUERY_OK.into(), body: 1 };
            // 1. every attributed (server, method, template) exists on that server
            for t in &tmpls {
                for m in &t.registered {
                    let Some(method) = METHODS.iter().find(|x| **x == m.as_str()) else {
                        j.rec.note(format!("method {m} of {} is outside the probed method set", t.full));
                        continue;
                    };
                    let case = Case { idx: 0, tmpl: t.clone(), method, variant: canon(t) };
                    let r = send(&w, t.srv, Via::Net(true, ref_client(t.srv)), method, &case.variant, &[]).await;
                    j.rec.eval();
                    match r.status {
                        None => j.rec.inconclusive(format!("existence probe failed: {:?}", r.err)),
                        Some(404 | 405) => j.rec.inconclusive(format!(
                            "scanner attributes {} {} to the {} server but the server answers {} to a verified caller",
                            m, t.full, t.srv.name(), r.class()
                        )),
                        Some(_) => {
                            j.rec.seen("routes", format!("{} {}", t.srv.name(), t.full));
                            j.rec.seen("routes_confirmed", format!("{} {} {}", t.srv.name(), m, t.full));
                            j.rec.distinct(&("exists", t.srv, m, &t.full));
                            let u = send(&w, t.srv, Via::Net(true, "none"), method, &case.variant, &[]).await;
                            j.check(&case, "tls-nocert", Ident::Unverified, &r, None, &u, None);
                        }
                    }
                }
            }
            // 2. every discovered raw template under every discovered prefix on *both* servers: anything that exists
            //    there without being attributed by the scanner is an undeclared mount and falls under the default rule
            for srv in [Srv::Mpc, Srv::Shard] {
                for p in &s.inv.prefixes {
                    for raw in &s.inv.raw_templates {
                        let full = if raw == "/" && !p.is_empty() { p.clone() } else { format!("{}{}", p.trim_end_matches('/'), raw) };
                        if tmpls.iter().any(|t| t.srv == srv && t.full == full) {
                            continue;
                        }
                        let t = Tmpl { srv, full: full.clone(), registered: BTreeSet::new(), names: BTreeSet::new(), routers: BTreeSet::new() };
                        let v = canon(&t);
                        let concrete = v.path.replace("{U}", "");
                        if tmpls.iter().any(|k| k.srv == srv && template_matches(&k.full, &concrete)) {
                            j.rec.count("unattributed_shadowed_by_known_template");
                            continue;
                        }
                        for method in METHODS {
                            let case = Case { idx: 0, tmpl: t.clone(), method, variant: v.clone() };
                            let r = send(&w, srv, Via::Net(true, ref_client(srv)), method, &v, &[]).await;
                            j.rec.eval();
                            j.rec.count("unattributed_combos_probed");
                            match r.status {
                                None => j.rec.inconclusive(format!("existence probe failed: {:?}", r.err)),
                                Some(404 | 405) => j.rec.distinct(&("absent", srv, method, &full)),
                                Some(_) => {
                                    j.rec.seen("undeclared_mounts", format!("{} {} {}", srv.name(), method, full));
                                    let u = send(&w, srv, Via::Net(true, "none"), method, &v, &[]).await;
                                    j.check(&case, "tls-nocert", Ident::Unverified, &r, None, &u, None);
                                }
                            }
                        }
                    }
                }
            }
        }); }
        rec.finish();
    }
}
