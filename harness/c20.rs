// C20 Helper-to-helper and shard-to-shard endpoints refuse unauthenticated callers.
//
// The route inventory is *discovered* by `lib/routes.py` (path templates, methods, mounting router) and handed over in
// the file named by $VERIF_ROUTES. The monitors send real requests
//   (a) in-process through `IpaHttpServer::handle_req` (no extension = no verified identity), and
//   (b) over loopback connections to `TestServer`s: TLS on {no client certificate, certificate of helper i / of the
//       shard, a certificate the server does not know, each with and without a caller-supplied identity header} and
//       TLS off {no header, header, malformed header},
// and judge every response against an oracle that does not look at the code under test:
//   * a fixed allow-list of report-collector routes (ALLOW) that must never answer 401;
//   * every other (server, method, path) must answer 401 without a verified identity whenever the same request sent
//     with a verified client certificate shows that the route exists with that method (status other than 404/405);
//     404/405 are only accepted when the reference request says 404/405 as well;
//   * under TLS the identity header never changes the outcome; with TLS off it is honoured.
// Two further monitors use hyper's connection-level client over sockets they open themselves (the project's client always
// speaks HTTP/2 with an absolute https:// or http:// URI):
//   (c) `verif_c20_http_versions`: HTTP/1.1 {origin-form, absolute-form http / https} and HTTP/2 {:scheme https / http} on TLS
//       and plain listeners x {no certificate, known certificate, unknown certificate} x identity headers: under TLS a header
//       never authenticates nor changes the outcome whatever the HTTP version / request-URI scheme; with TLS off it is honoured;
//   (d) `verif_c20_unpinned_peers`: TLS servers whose network configuration leaves some peers without a pinned certificate
//       (every subset): only callers whose certificate is pinned in that configuration are served, under their own identity;
//       callers without certificate or with any other certificate are refused (401 or TLS handshake), the request handler is
//       not invoked and no record stream is created.
//   (e) `verif_c20_incomplete_tls_config`: servers of both kinds (both start modes) whose configuration does not disable HTTPS
//       but carries no or incomplete TLS material (`tls: None`, certificate without key, key without certificate, empty, files
//       that do not exist): either the server refuses to start, or it refuses every caller that is not authenticated by a client
//       certificate (plain HTTP and TLS callers, with and without identity headers naming every helper / shard).
// A request handler installed in the servers records every request that gets past the HTTP layer: a protected route
// whose handler is reached without a verified identity is a violation whatever the status code.
// IO errors / timeouts are inconclusive, never violations.

#[cfg(all(not(feature = "shuttle"), unit_test))]
mod live {
    use std::{
        collections::{BTreeMap, BTreeSet},
        sync::{
            Arc, Mutex,
            atomic::{AtomicU64, Ordering},
        },
        time::Duration,
    };

    use axum::body::Body;
    use futures::StreamExt;
    use hyper::{Request, Uri};
    use serde_json::{Value, json};

    use super::super::vlib::{self, Env, Recorder, VRng};
    use crate::{
        config::{ClientConfig, PeerConfig},
        executor::IpaRuntime,
        helpers::{
            ApiError, BodyStream, HelperIdentity, HelperResponse, RequestHandler, RoleAssignment,
            TransportIdentity, make_owned_handler,
            routing::{Addr, RouteId},
        },
        net::{
            ClientIdentity, ConnectionFlavor, Helper, HttpTransport, IpaHttpClient, IpaHttpServer, Shard,
            test::{TestConfig, TestServer, TestServerBuilder, get_client_test_identity},
        },
        protocol::{Gate, QueryId},
        sharding::{ShardIndex, ShardedHelperIdentity},
    };

    // -----------------------------------------------------------------------------------------
    // oracle table: the report-collector allow-list (server, method, full path template)
    // -----------------------------------------------------------------------------------------

    #[derive(Clone, Copy, PartialEq, Eq, Hash, Debug, PartialOrd, Ord)]
    enum Srv {
        Mpc,
        Shard,
    }
    impl Srv {
        fn name(self) -> &'static str {
            match self {
                Srv::Mpc => "mpc",
                Srv::Shard => "shard",
            }
        }
    }

    /// Routes that an external caller (report collector) may use without a helper/shard identity.
    /// Everything else that exists on either server must answer 401 without a verified identity.
    const ALLOW: &[(Srv, &str, &str)] = &[
        (Srv::Mpc, "GET", "/echo"),
        (Srv::Mpc, "GET", "/metrics"),
        (Srv::Mpc, "POST", "/query"),
        (Srv::Mpc, "POST", "/query/:query_id/input"),
        (Srv::Mpc, "GET", "/query/:query_id"),
        (Srv::Mpc, "POST", "/query/:query_id/kill"),
        (Srv::Mpc, "GET", "/query/:query_id/complete"),
        (Srv::Shard, "GET", "/echo"),
    ];

    fn allowed(srv: Srv, method: &str, template: &str) -> bool {
        ALLOW.iter().any(|(s, m, t)| *s == srv && *m == method && *t == template)
    }

    const METHODS: &[&str] = &["GET", "POST", "PUT", "DELETE", "PATCH"];
    const HELPER_HEADER: &str = "x-unverified-helper-identity";
    const SHARD_HEADER: &str = "x-unverified-shard-index";
    const IO_TIMEOUT: Duration = Duration::from_secs(30);

    // -----------------------------------------------------------------------------------------
    // inventory produced by lib/routes.py
    // -----------------------------------------------------------------------------------------

    #[derive(Clone, Debug)]
    struct Route {
        srv: Srv,
        router: String,
        methods: Vec<String>,
        full: String,
        name: String,
        auth_layer: bool,
    }

    struct Inventory {
        routes: Vec<Route>,
        warnings: Vec<String>,
        /// every path template seen anywhere (constants and mounted routes, without prefixes)
        raw_templates: BTreeSet<String>,
        prefixes: Vec<String>,
    }

    fn load_inventory() -> Result<Inventory, String> {
        let path = std::env::var("VERIF_ROUTES").map_err(|_| "VERIF_ROUTES is not set (route scanner did not run)".to_string())?;
        let txt = std::fs::read_to_string(&path).map_err(|e| format!("cannot read {path}: {e}"))?;
        let v: Value = serde_json::from_str(&txt).map_err(|e| format!("cannot parse {path}: {e}"))?;
        let mut routes = Vec::new();
        for r in v["routes"].as_array().cloned().unwrap_or_default() {
            let srv = match r["server"].as_str() {
                Some("mpc") => Srv::Mpc,
                Some("shard") => Srv::Shard,
                other => return Err(format!("scanner reported an unknown server {other:?}")),
            };
            routes.push(Route {
                srv,
                router: r["router"].as_str().unwrap_or("?").to_string(),
                methods: r["methods"].as_array().map(|a| a.iter().filter_map(|m| m.as_str().map(String::from)).collect()).unwrap_or_default(),
                full: r["full"].as_str().unwrap_or("").to_string(),
                name: r["name"].as_str().unwrap_or("").to_string(),
                auth_layer: r["auth_layer"].as_bool().unwrap_or(false),
            });
        }
        let warnings = v["warnings"].as_array().map(|a| a.iter().filter_map(|w| w.as_str().map(String::from)).collect()).unwrap_or_default();
        let mut prefixes: Vec<String> = v["prefixes"].as_array().map(|a| a.iter().filter_map(|w| w.as_str().map(String::from)).collect()).unwrap_or_default();
        if !prefixes.iter().any(String::is_empty) {
            prefixes.push(String::new());
        }
        let mut raw_templates = BTreeSet::new();
        for c in v["constants"].as_array().cloned().unwrap_or_default() {
            if let Some(p) = c["value"].as_str() {
                if !prefixes.iter().any(|x| x == p) {
                    raw_templates.insert(p.to_string());
                }
            }
        }
        for c in v["loose_templates"].as_array().cloned().unwrap_or_default() {
            if let Some(p) = c.as_str() {
                if !prefixes.iter().any(|x| x == p) {
                    raw_templates.insert(p.to_string());
                }
            }
        }
        for r in &routes {
            // strip the longest known prefix to get the raw template back
            let mut raw = r.full.clone();
            for p in &prefixes {
                if !p.is_empty() && r.full.starts_with(p.as_str()) && r.full.len() > p.len() {
                    raw = r.full[p.len()..].to_string();
                }
            }
            raw_templates.insert(raw);
        }
        Ok(Inventory { routes, warnings, raw_templates, prefixes })
    }

    /// distinct (server, full template) in scanner order, with the union of registered methods
    #[derive(Clone, Debug)]
    struct Tmpl {
        srv: Srv,
        full: String,
        registered: BTreeSet<String>,
        names: BTreeSet<String>,
        routers: BTreeSet<String>,
    }

    fn templates(inv: &Inventory) -> Vec<Tmpl> {
        let mut out: Vec<Tmpl> = Vec::new();
        for r in &inv.routes {
            if let Some(t) = out.iter_mut().find(|t| t.srv == r.srv && t.full == r.full) {
                t.registered.extend(r.methods.iter().cloned());
                t.names.insert(r.name.clone());
                t.routers.insert(r.router.clone());
            } else {
                out.push(Tmpl {
                    srv: r.srv,
                    full: r.full.clone(),
                    registered: r.methods.iter().cloned().collect(),
                    names: [r.name.clone()].into_iter().collect(),
                    routers: [r.router.clone()].into_iter().collect(),
                });
            }
        }
        out
    }

    /// matchit-style match of a concrete path (no query string) against a template
    fn template_matches(template: &str, path: &str) -> bool {
        let t: Vec<&str> = template.trim_end_matches('/').split('/').collect();
        let p: Vec<&str> = path.trim_end_matches('/').split('/').collect();
        let mut i = 0;
        while i < t.len() {
            let seg = t[i];
            if seg.starts_with('*') {
                return p.len() > i && !p[i..].join("/").is_empty();
            }
            if i >= p.len() {
                return false;
            }
            if seg.starts_with(':') {
                if p[i].is_empty() {
                    return false;
                }
            } else if seg != p[i] {
                return false;
            }
            i += 1;
        }
        p.len() == t.len()
    }

    // -----------------------------------------------------------------------------------------
    // request variants
    // -----------------------------------------------------------------------------------------

    const QUERY_OK: &str = "?query_type=test-multiply&field_type=fp31&size=1&status=Running";
    const QUERIES_BAD: &[&str] = &[
        "",
        "?x=1",
        "?size=0&field_type=bogus&query_type=nonsense",
        "?status=bogus",
        "?query_type=malicious-hybrid&field_type=fp32_bit_prime&size=18446744073709551616",
        "?query_type=test-multiply&field_type=fp31&size=1&size=2",
        "?%00=%ff",
    ];
    const IDS_BAD: &[&str] = &[
        "1", "abc", "00", "-1", "%30", "0%2F..%2Fecho", "null", "%00", "0.0", "0;0", "%F0%9F%A6%80", "~",
    ];
    const GATES: &[&str] = &["protocol/verif/a", "x", "protocol/hybrid/step-7/row%201", "a//b", "%2e%2e/%2e%2e/echo", "complete", "0/input"];

    #[derive(Clone, Debug)]
    struct Variant {
        label: String,
        /// path with '{U}' where a per-request unique suffix is inserted (only for wildcard templates)
        path: String,
        query: String,
        body: u8,
    }

    fn url_safe(r: &mut VRng, max: u64) -> String {
        const CH: &[u8] = b"abcdefghijklmnopqrstuvwxyzABCDEFGHIJKLMNOPQRSTUVWXYZ0123456789-._~";
        let n = r.range(1, max);
        (0..n)
            .map(|_| {
                if r.below(9) == 0 {
                    format!("%{:02X}", r.below(256))
                } else {
                    (CH[r.below(CH.len() as u64) as usize] as char).to_string()
                }
            })
            .collect()
    }

    fn instantiate(template: &str, id: &str, other: &str, gate: &str) -> String {
        let mut out = Vec::new();
        for seg in template.split('/') {
            if let Some(name) = seg.strip_prefix(':') {
                out.push(if name.contains("query") || name == "id" { id.to_string() } else { other.to_string() });
            } else if seg.starts_with('*') {
                out.push(format!("{gate}{{U}}"));
            } else {
                out.push(seg.to_string());
            }
        }
        out.join("/")
    }

    /// Deterministic variant list for one template: fixed corner list first, then seeded ones.
    fn variants(env: &Env, t: &Tmpl, tix: usize) -> Vec<Variant> {
        let mut v = Vec::new();
        let tp = t.full.as_str();
        v.push(Variant { label: "canonical".into(), path: instantiate(tp, "0", "0", GATES[0]), query: QUERY_OK.into(), body: 1 });
        v.push(Variant { label: "canonical-noquery".into(), path: instantiate(tp, "0", "0", GATES[1]), query: String::new(), body: 0 });
        v.push(Variant { label: "bad-id".into(), path: instantiate(tp, "abc", "%20", GATES[0]), query: QUERIES_BAD[1].into(), body: 2 });
        if !tp.contains("/*") {
            v.push(Variant { label: "trailing-slash".into(), path: format!("{}/", instantiate(tp, "0", "0", GATES[0])), query: QUERY_OK.into(), body: 1 });
        }
        let fixed = if env.thorough { IDS_BAD.len().max(GATES.len()).max(QUERIES_BAD.len()) } else { 0 };
        for k in 0..fixed {
            v.push(Variant {
                label: format!("pool-{k}"),
                path: instantiate(tp, if k % 3 == 2 { "0" } else { IDS_BAD[k % IDS_BAD.len()] }, IDS_BAD[(k + 1) % IDS_BAD.len()], GATES[k % GATES.len()]),
                query: if k % 4 == 3 { QUERY_OK.into() } else { QUERIES_BAD[k % QUERIES_BAD.len()].into() },
                body: (k % 3) as u8,
            });
        }
        v.push(Variant { label: "long".into(), path: instantiate(tp, &"9".repeat(300), &"z".repeat(300), &"s/".repeat(400)), query: format!("?q={}", "a".repeat(1200)), body: 2 });
        let seeded = env.pick(3, 40);
        for k in 0..seeded {
            let mut r = VRng::new(env.seed ^ 0xC20_0001, (tix * 1000 + k) as u64);
            let id = if r.below(3) == 0 { "0".to_string() } else { url_safe(&mut r, 12) };
            let gate = (0..r.range(1, 4)).map(|_| url_safe(&mut r, 10)).collect::<Vec<_>>().join("/");
            let q = match r.below(4) {
                0 => String::new(),
                1 => QUERY_OK.to_string(),
                _ => format!("?{}={}&{}={}", url_safe(&mut r, 6), url_safe(&mut r, 6), ["size", "status", "field_type", "query_type"][r.below(4) as usize], url_safe(&mut r, 8)),
            };
            v.push(Variant { label: format!("seeded-{k}"), path: instantiate(tp, &id, &url_safe(&mut r, 5), &gate), query: q, body: r.below(3) as u8 });
        }
        v
    }

    struct Case {
        idx: usize,
        tmpl: Tmpl,
        method: &'static str,
        variant: Variant,
    }

    fn build_cases(env: &Env, inv: &Inventory) -> Vec<Case> {
        let mut cases = Vec::new();
        for (tix, t) in templates(inv).into_iter().enumerate() {
            for variant in variants(env, &t, tix) {
                for m in METHODS {
                    cases.push(Case { idx: cases.len(), tmpl: t.clone(), method: m, variant: variant.clone() });
                }
            }
        }
        cases
    }

    fn replay_witness() -> Option<Value> {
        let p = vlib::env().replay?;
        serde_json::from_str(&std::fs::read_to_string(p).ok()?).ok()
    }
    fn replay_case() -> Option<usize> {
        replay_witness()?["witness"]["case"].as_u64().map(|v| v as usize)
    }
    /// start modes to run: both, or the one named in the witness being replayed
    fn starts() -> Vec<Start> {
        let only = replay_witness().and_then(|w| w["witness"]["start"].as_str().map(String::from));
        Start::ALL.into_iter().filter(|s| only.as_deref().is_none_or(|o| o == s.name())).collect()
    }

    // -----------------------------------------------------------------------------------------
    // world: four servers (mpc / shard, TLS on / off), recording request handlers, clients
    // -----------------------------------------------------------------------------------------

    type Log = Arc<Mutex<Vec<String>>>;

    fn response_for(route: RouteId) -> Result<HelperResponse, ApiError> {
        Ok(match route {
            RouteId::ReceiveQuery => HelperResponse::from(serde_json::to_vec(&json!({"query_id": QueryId})).unwrap()),
            RouteId::QueryStatus => HelperResponse::from(serde_json::to_vec(&json!({"status": "Running"})).unwrap()),
            RouteId::KillQuery => HelperResponse::from(serde_json::to_vec(&json!({"query_id": QueryId, "status": "killed"})).unwrap()),
            RouteId::CompleteQuery | RouteId::Metrics => HelperResponse::from(b"verif".to_vec()),
            _ => HelperResponse::ok(),
        })
    }

    fn recording_handler<I: TransportIdentity>(log: &Log) -> Arc<dyn RequestHandler<I>> {
        let log = Arc::clone(log);
        make_owned_handler(move |addr: Addr<I>, _body: BodyStream| {
            log.lock().unwrap().push(format!("{:?}", addr.route));
            let route = addr.route;
            async move { response_for(route) }
        })
    }

    fn cert_identity(k: usize) -> ClientIdentity<Helper> {
        let id = ShardedHelperIdentity::new(HelperIdentity::try_from(k % 3 + 1).unwrap(), ShardIndex::from((k / 3) as u32));
        get_client_test_identity(id).helper
    }

    fn cert_der(k: usize) -> crate::config::OwnedCertificate {
        match cert_identity(k) {
            ClientIdentity::Certificate((c, _)) => c[0].clone(),
            _ => unreachable!(),
        }
    }

    fn client(port: u16, tls: bool, id: ClientIdentity<Helper>) -> IpaHttpClient<Helper> {
        let url: Uri = format!("{}://localhost:{port}", if tls { "https" } else { "http" }).parse().unwrap();
        // both test servers present the certificate of (helper 1, shard 0)
        let peer = PeerConfig::new(url, tls.then(|| cert_der(0)));
        IpaHttpClient::new(IpaRuntime::current(), &ClientConfig::default(), peer, id)
    }

    /// How the listening socket of the servers under test came to be: `IpaHttpServer::start_on` has one arm per
    /// (disable_https, listener) combination. `TestServer` always hands over a pre-bound listener; a deployed helper
    /// passes `None` and lets the server bind `config.port` (here: `None` = a port chosen by the kernel).
    #[derive(Clone, Copy, PartialEq, Eq, Hash, Debug, PartialOrd, Ord)]
    enum Start {
        PreBound,
        SelfBound,
    }
    impl Start {
        const ALL: [Start; 2] = [Start::PreBound, Start::SelfBound];
        fn name(self) -> &'static str {
            match self {
                Start::PreBound => "listener-some",
                Start::SelfBound => "listener-none",
            }
        }
    }

    struct World {
        start: Start,
        /// port of the server that the loopback requests go to, per (server, tls)
        ports: BTreeMap<(Srv, bool), u16>,
        // servers started with `listener = None` (they share transport + request handler with the TestServer of the same kind)
        _own_h: Vec<IpaHttpServer<Helper>>,
        _own_s: Vec<IpaHttpServer<Shard>>,
        mpc_tls: TestServer<Helper>,
        mpc_plain: TestServer<Helper>,
        shard_tls: TestServer<Shard>,
        shard_plain: TestServer<Shard>,
        logs: BTreeMap<(Srv, bool), Log>,
        /// (server, tls, client label) -> client
        clients: BTreeMap<(Srv, bool, &'static str), IpaHttpClient<Helper>>,
        // keep the handlers alive: the transports only hold weak references
        _handlers_h: Vec<Arc<dyn RequestHandler<HelperIdentity>>>,
        _handlers_s: Vec<Arc<dyn RequestHandler<ShardIndex>>>,
        uniq: AtomicU64,
    }

    /// client certificates: index into the repository's test certificates
    /// (0,1,2 = helpers 1..3 of ring 0 = shard 0 of each helper; 3 = helper 1 / shard 1, unknown to every test server)
    const MPC_CERTS: &[(&str, usize)] = &[("cert-H1", 0), ("cert-H2", 1), ("cert-H3", 2)];
    const SHARD_CERTS: &[(&str, usize)] = &[("cert-S0", 0)];
    const FOREIGN_FOR_MPC: usize = 3;
    const FOREIGN_FOR_SHARD: usize = 1;

    impl World {
        async fn new(start: Start) -> World {
            let mut logs = BTreeMap::new();
            let mut hh = Vec::new();
            let mut hs = Vec::new();
            for srv in [Srv::Mpc, Srv::Shard] {
                for tls in [true, false] {
                    logs.insert((srv, tls), Log::default());
                }
            }
            let mk_h = |tls: bool, hh: &mut Vec<Arc<dyn RequestHandler<HelperIdentity>>>| {
                let h = recording_handler::<HelperIdentity>(&logs[&(Srv::Mpc, tls)]);
                hh.push(Arc::clone(&h));
                h
            };
            let mk_s = |tls: bool, hs: &mut Vec<Arc<dyn RequestHandler<ShardIndex>>>| {
                let h = recording_handler::<ShardIndex>(&logs[&(Srv::Shard, tls)]);
                hs.push(Arc::clone(&h));
                h
            };
            let mpc_tls = TestServer::builder().with_request_handler(mk_h(true, &mut hh)).build().await;
            let mpc_plain = TestServer::builder().disable_https().with_request_handler(mk_h(false, &mut hh)).build().await;
            let shard_tls = TestServerBuilder::<Shard>::default().with_request_handler(mk_s(true, &mut hs)).build().await;
            let shard_plain = TestServerBuilder::<Shard>::default().disable_https().with_request_handler(mk_s(false, &mut hs)).build().await;
            let mut ports = BTreeMap::new();
            ports.insert((Srv::Mpc, true), mpc_tls.addr.port());
            ports.insert((Srv::Mpc, false), mpc_plain.addr.port());
            ports.insert((Srv::Shard, true), shard_tls.addr.port());
            ports.insert((Srv::Shard, false), shard_plain.addr.port());
            let mut own_h = Vec::new();
            let mut own_s = Vec::new();
            if start == Start::SelfBound {
                // Second server per kind on the same transport (same request handler, same record streams), built from
                // the repository's own test configuration but with `port: None`, started the way bin/helper.rs does it:
                // no listener, the server binds by itself.
                for tls in [true, false] {
                    let tc = TestConfig::builder().with_disable_https_option(!tls).build();
                    let ring = tc.rings.first().unwrap();
                    let mut cfg = ring.servers[0].config.clone();
                    assert_eq!(cfg.disable_https, !tls);
                    cfg.port = None;
                    let t = if tls { &mpc_tls.transport } else { &mpc_plain.transport };
                    let server = IpaHttpServer::new_mpc(Arc::clone(t), cfg, ring.network.clone());
                    let (addr, _join) = server.start_on(&IpaRuntime::current(), None, ()).await;
                    ports.insert((Srv::Mpc, tls), addr.port());
                    own_h.push(server);

                    let net = &tc.shards[0];
                    let mut cfg = net.servers[0].config.clone();
                    assert_eq!(cfg.disable_https, !tls);
                    cfg.port = None;
                    let t = if tls { &shard_tls.transport } else { &shard_plain.transport };
                    let server = IpaHttpServer::new_shards(Arc::clone(t), cfg, net.network.clone());
                    let (addr, _join) = server.start_on(&IpaRuntime::current(), None, ()).await;
                    ports.insert((Srv::Shard, tls), addr.port());
                    own_s.push(server);
                }
            }
            let mut clients = BTreeMap::new();
            for (srv, port_tls, port_plain, certs, foreign) in [
                (Srv::Mpc, ports[&(Srv::Mpc, true)], ports[&(Srv::Mpc, false)], MPC_CERTS, FOREIGN_FOR_MPC),
                (Srv::Shard, ports[&(Srv::Shard, true)], ports[&(Srv::Shard, false)], SHARD_CERTS, FOREIGN_FOR_SHARD),
            ] {
                clients.insert((srv, true, "none"), client(port_tls, true, ClientIdentity::None));
                for (label, k) in certs {
                    clients.insert((srv, true, *label), client(port_tls, true, cert_identity(*k)));
                }
                clients.insert((srv, true, "cert-foreign"), client(port_tls, true, cert_identity(foreign)));
                clients.insert((srv, false, "none"), client(port_plain, false, ClientIdentity::None));
            }
            World { start, ports, _own_h: own_h, _own_s: own_s, mpc_tls, mpc_plain, shard_tls, shard_plain, logs, clients, _handlers_h: hh, _handlers_s: hs, uniq: AtomicU64::new(0) }
        }

        fn port(&self, srv: Srv, tls: bool) -> u16 {
            self.ports[&(srv, tls)]
        }

        fn next_uniq(&self) -> u64 {
            self.uniq.fetch_add(1, Ordering::Relaxed)
        }
    }

    #[derive(Clone, Debug)]
    struct Outcome {
        status: Option<u16>,
        err: Option<String>,
        /// request-handler invocations caused by this request
        reached: Vec<String>,
        path: String,
    }

    impl Outcome {
        fn class(&self) -> String {
            match (self.status, &self.err) {
                (Some(s), _) => s.to_string(),
                (None, Some(_)) => "io-error".into(),
                _ => "?".into(),
            }
        }
        fn json(&self) -> Value {
            json!({"status": self.status, "error": self.err, "handler_reached": self.reached, "path": self.path})
        }
    }

    #[derive(Clone, Copy, Debug, PartialEq, Eq)]
    enum Via {
        /// `IpaHttpServer::handle_req` of the TLS (true) or plain (false) server object
        InProc(bool),
        /// loopback connection: TLS on/off with the named client
        Net(bool, &'static str),
    }

    fn body_for(kind: u8, method: &str) -> (Body, Option<&'static str>) {
        if method == "GET" || method == "DELETE" {
            return (Body::empty(), None);
        }
        match kind {
            0 => (Body::empty(), None),
            1 => (
                Body::from(serde_json::to_string(&json!({"roles": RoleAssignment::new(HelperIdentity::make_three())})).unwrap()),
                Some("application/json"),
            ),
            _ => (Body::from(vec![0xA5u8; 64]), Some("application/octet-stream")),
        }
    }

    /// Sends one request. `headers` are added verbatim (the clients add none themselves).
    async fn send(w: &World, srv: Srv, via: Via, method: &str, v: &Variant, headers: &[(&str, &str)]) -> Outcome {
        let u = w.next_uniq();
        let path = v.path.replace("{U}", &format!("-u{u}"));
        let tls = match via {
            Via::InProc(t) | Via::Net(t, _) => t,
        };
        let full = format!("{}://localhost:{}{}{}", if tls { "https" } else { "http" }, w.port(srv, tls), path, v.query);
        let uri: Uri = match full.parse() {
            Ok(u) => u,
            Err(e) => return Outcome { status: None, err: Some(format!("uri: {e}")), reached: vec![], path },
        };
        let (body, ctype) = body_for(v.body, method);
        let mut b = Request::builder().method(method).uri(uri);
        if let Some(c) = ctype {
            b = b.header("content-type", c);
        }
        for (k, val) in headers {
            b = b.header(*k, *val);
        }
        let req = match b.body(body) {
            Ok(r) => r,
            Err(e) => return Outcome { status: None, err: Some(format!("request: {e}")), reached: vec![], path },
        };
        let log = &w.logs[&(srv, tls)];
        let before = log.lock().unwrap().len();
        let (status, err) = match via {
            Via::InProc(t) => {
                let fut = async {
                    match (srv, t) {
                        (Srv::Mpc, true) => w.mpc_tls.server.handle_req(req).await,
                        (Srv::Mpc, false) => w.mpc_plain.server.handle_req(req).await,
                        (Srv::Shard, true) => w.shard_tls.server.handle_req(req).await,
                        (Srv::Shard, false) => w.shard_plain.server.handle_req(req).await,
                    }
                };
                match tokio::time::timeout(IO_TIMEOUT, vlib::catch_fut(fut)).await {
                    Ok(Ok(resp)) => (Some(resp.status().as_u16()), None),
                    Ok(Err(p)) => (None, Some(format!("panic: {p}"))),
                    Err(_) => (None, Some("timeout".into())),
                }
            }
            Via::Net(t, label) => {
                let c = &w.clients[&(srv, t, label)];
                // a certificate the server does not know never gets a response: do not wait long for one
                let wait = if label == "cert-foreign" { Duration::from_secs(5) } else { IO_TIMEOUT };
                match tokio::time::timeout(wait, c.request(req)).await {
                    Ok(Ok(resp)) => (Some(resp.status().as_u16()), None),
                    Ok(Err(e)) => (None, Some(format!("{e}").chars().take(160).collect())),
                    Err(_) => (None, Some("timeout".into())),
                }
            }
        };
        let reached = log.lock().unwrap()[before..].to_vec();
        Outcome { status, err, reached, path }
    }

    fn id_header(srv: Srv) -> &'static str {
        match srv {
            Srv::Mpc => HELPER_HEADER,
            Srv::Shard => SHARD_HEADER,
        }
    }
    fn ref_client(srv: Srv) -> &'static str {
        match srv {
            Srv::Mpc => "cert-H2",
            Srv::Shard => "cert-S0",
        }
    }
    /// header values that name an existing peer of the server
    fn spoof_values(srv: Srv) -> &'static [&'static str] {
        match srv {
            Srv::Mpc => &["A", "B", "C"],
            Srv::Shard => &["0", "1"],
        }
    }

    fn run<F: std::future::Future>(f: F) -> F::Output {
        let rt = tokio::runtime::Builder::new_multi_thread()
            .worker_threads(2)
            .thread_name("verif_c20_rt")
            .enable_all()
            .build()
            .unwrap();
        let out = rt.block_on(f);
        rt.shutdown_background();
        out
    }

    // -----------------------------------------------------------------------------------------
    // the oracle
    // -----------------------------------------------------------------------------------------

    #[derive(Clone, Copy, PartialEq, Eq, Debug)]
    enum Ident {
        /// the request carries no verified identity (whatever headers it carries)
        Unverified,
        /// verified client certificate known to the server
        Verified,
        /// TLS disabled and a well-formed identity header: honoured by design
        HeaderHonoured,
        /// TLS disabled and a malformed identity header
        HeaderMalformed,
        /// certificate the server does not know: rejected at the TLS layer or treated as no identity
        Foreign,
    }

    struct Judge<'a> {
        rec: &'a mut Recorder,
        io_errors: u64,
        start: Start,
    }

    impl Judge<'_> {
        /// `reference` = same request sent with a verified client certificate over TLS.
        #[allow(clippy::too_many_arguments)]
        fn check(&mut self, case: &Case, mode: &str, ident: Ident, reference: &Outcome, baseline: Option<&Outcome>, o: &Outcome, hdr: Option<&str>) {
            let srv = case.tmpl.srv;
            let tp = case.tmpl.full.as_str();
            let allow = allowed(srv, case.method, tp);
            let kind = if allow { "allowed" } else { "protected" };
            self.rec.eval();
            self.rec.seen("status_classes", format!("{}/{mode}/{kind}/{}", srv.name(), o.class()));
            let witness = json!({"case": case.idx, "server": srv.name(), "method": case.method, "template": tp, "variant": case.variant.label,
                "mode": mode, "start": self.start.name(), "header": hdr, "query": case.variant.query, "body_kind": case.variant.body,
                "scanner": {"handler_modules": case.tmpl.names, "mounted_by": case.tmpl.routers, "registered_methods": case.tmpl.registered},
                "outcome": o.json(), "reference_with_verified_cert": reference.json(), "baseline": baseline.map(Outcome::json)});
            let start = self.start;
            let sig = |what: &str, o: &Outcome| json!({"kind": what, "server": srv.name(), "method": case.method, "template": tp, "mode": mode, "start": start.name(), "status": o.status});
            if o.status.is_some() && !mode.starts_with("inproc") {
                // which arm of `start_on` produced the listener that answered
                self.rec.seen("start_modes", format!("{}/{}/{}", srv.name(), if mode.starts_with("tls") { "https" } else { "http" }, start.name()));
            }
            let Some(st) = o.status else {
                if ident == Ident::Foreign {
                    self.rec.count("foreign_cert_rejected_at_tls");
                    self.rec.seen("foreign_cert_errors", o.err.clone().unwrap_or_default().chars().filter(|c| !c.is_ascii_digit()).take(110).collect::<String>());
                    self.rec.distinct(&(srv, case.method, tp, &case.variant.label, mode, start));
                } else if o.err.as_deref().is_some_and(|e| e.starts_with("uri:") || e.starts_with("request:")) {
                    self.rec.count("variant_rejected_by_http_client");
                } else {
                    self.io_errors += 1;
                    self.rec.count("io_errors");
                    self.rec.inconclusive(format!("io error on {} {} {} [{mode}]: {:?}", srv.name(), case.method, o.path.chars().take(80).collect::<String>(), o.err));
                }
                return;
            };
            let exists = reference.status.is_some_and(|s| s != 404 && s != 405);
            let mut ok = true;
            match ident {
                Ident::Unverified | Ident::Foreign => {
                    if allow {
                        if st == 401 {
                            ok = false;
                            self.rec.violation("report-collector route answered 401", sig("allowlisted_401", o), witness.clone());
                        }
                    } else {
                        if !o.reached.is_empty() {
                            ok = false;
                            self.rec.violation("request handler of a protected route reached without a verified identity", sig("handler_reached_unverified", o), witness.clone());
                        }
                        if exists && st != 401 {
                            ok = false;
                            self.rec.violation("route exists (per request with a verified certificate) but does not answer 401 without a verified identity", sig("not_401", o), witness.clone());
                        } else if !exists && !matches!(st, 401 | 404 | 405) {
                            ok = false;
                            self.rec.violation("request without a verified identity answered by something other than 401/404/405", sig("not_401", o), witness.clone());
                        }
                    }
                    // a caller-supplied header must not change anything (TLS) / nothing reaches handle_req's router
                    if let Some(b) = baseline {
                        if b.status.is_some() && b.status != o.status {
                            ok = false;
                            self.rec.violation("identity header changed the outcome of a request without a verified identity", sig("header_changed_outcome", o), witness.clone());
                        }
                    }
                }
                Ident::Verified => {
                    if allow && st == 401 {
                        ok = false;
                        self.rec.violation("report-collector route answered 401", sig("allowlisted_401", o), witness.clone());
                    }
                    if let Some(b) = baseline {
                        // certificate of i plus a header claiming j: must be exactly what the certificate alone gives
                        if b.status.is_some() && b.status != o.status {
                            ok = false;
                            self.rec.violation("identity header changed the outcome of a request with a client certificate", sig("header_changed_outcome", o), witness.clone());
                        }
                    } else if reference.status.is_some() && reference.status != o.status && (st == 401) != (reference.status == Some(401)) {
                        // another known certificate: same access decision as the reference certificate
                        ok = false;
                        self.rec.violation("two known client certificates get different access decisions", sig("cert_decision_differs", o), witness.clone());
                    }
                }
                Ident::HeaderHonoured => {
                    if allow && st == 401 {
                        ok = false;
                        self.rec.violation("report-collector route answered 401", sig("allowlisted_401", o), witness.clone());
                    }
                    if !allow && exists && st == 401 {
                        ok = false;
                        self.rec.violation("TLS disabled: identity header not honoured (401 although the route exists)", sig("header_not_honoured", o), witness.clone());
                    }
                }
                Ident::HeaderMalformed => {
                    if !allow && (!o.reached.is_empty() || (200..300).contains(&st)) {
                        ok = false;
                        self.rec.violation("TLS disabled: malformed identity header gave access to a protected route", sig("malformed_header_access", o), witness.clone());
                    }
                }
            }
            if ok {
                self.rec.distinct(&(srv, case.method, tp, &case.variant.label, mode, hdr, start));
                if start == Start::SelfBound {
                    self.rec.count("judged_ok_on_self_bound_listener");
                }
                self.rec.count(if allow { "allowed_ok" } else if exists { "protected_existing_ok" } else { "protected_absent_ok" });
                if !allow && exists && matches!(ident, Ident::Unverified) && st == 401 {
                    self.rec.seen("protected_routes", format!("{} {} {}", srv.name(), case.method, tp));
                }
                if allow && st != 401 {
                    self.rec.seen("allowed_routes", format!("{} {} {}", srv.name(), case.method, tp));
                }
            }
        }
    }

    /// Reference request: same method/path with a certificate the server knows. `None` (and an inconclusive note) when
    /// it cannot be obtained.
    async fn reference(w: &World, rec: &mut Recorder, case: &Case) -> Option<Outcome> {
        let r = send(w, case.tmpl.srv, Via::Net(true, ref_client(case.tmpl.srv)), case.method, &case.variant, &[]).await;
        if r.status.is_none() {
            if r.err.as_deref().is_some_and(|e| e.starts_with("uri:") || e.starts_with("request:")) {
                rec.count("variant_rejected_by_http_client");
            } else {
                rec.count("io_errors");
                rec.inconclusive(format!("reference request failed: {} {} {}: {:?}", case.tmpl.srv.name(), case.method, case.variant.label, r.err));
            }
            return None;
        }
        let registered = case.tmpl.registered.contains(case.method);
        if r.status == Some(401) && !allowed(case.tmpl.srv, case.method, &case.tmpl.full) && registered {
            rec.inconclusive(format!(
                "request with a known client certificate got 401 on {} {} {}: existence of the route cannot be established",
                case.tmpl.srv.name(), case.method, case.tmpl.full
            ));
            return None;
        }
        rec.seen("reference_status", format!("{} {} {} -> {}", case.tmpl.srv.name(), case.method, case.tmpl.full, r.class()));
        Some(r)
    }

    struct Setup {
        env: Env,
        inv: Inventory,
        cases: Vec<Case>,
        only: Option<usize>,
    }

    fn setup(rec: &mut Recorder) -> Option<Setup> {
        let env = vlib::env();
        let inv = match load_inventory() {
            Ok(i) => i,
            Err(e) => {
                rec.inconclusive(e);
                return None;
            }
        };
        if inv.routes.is_empty() {
            rec.inconclusive("route scanner found no routes");
            return None;
        }
        for wn in &inv.warnings {
            rec.inconclusive(format!("route scanner: {wn}"));
        }
        let cases = build_cases(&env, &inv);
        Some(Setup { env, inv, cases, only: replay_case() })
    }

    fn sample(rec: &mut Recorder, start: Start, case: &Case, mode: &str, r: &Outcome, o: &Outcome) {
        if rec.want_sample() && case.idx % 37 == 5 {
            rec.sample(json!({"case": case.idx, "server": case.tmpl.srv.name(), "method": case.method, "template": case.tmpl.full,
                "variant": case.variant.label, "path": o.path.chars().take(120).collect::<String>(), "mode": mode, "start": start.name(), "status": o.status,
                "status_with_verified_cert": r.status}));
        }
    }

    // -----------------------------------------------------------------------------------------
    // (a) in-process: IpaHttpServer::handle_req without the identity extension
    // -----------------------------------------------------------------------------------------

    #[test]
    fn verif_c20_inproc() {
        let mut rec = Recorder::new("C20", "verif_c20_inproc");
        let Some(s) = setup(&mut rec) else { return rec.finish() };
        // handle_req does not involve a listener: one world is enough
        for start in [Start::PreBound] { run(async {
            let w = World::new(start).await;
            let mut j = Judge { rec: &mut rec, io_errors: 0, start };
            for case in &s.cases {
                if !s.env.mine(case.idx) || s.only.is_some_and(|c| c != case.idx) {
                    continue;
                }
                let srv = case.tmpl.srv;
                let Some(r) = reference(&w, j.rec, case).await else { continue };
                j.rec.seen("routes", format!("{} {}", srv.name(), case.tmpl.full));
                for tls_obj in [true, false] {
                    let mode = if tls_obj { "inproc-tlscfg" } else { "inproc-plaincfg" };
                    let base = send(&w, srv, Via::InProc(tls_obj), case.method, &case.variant, &[]).await;
                    j.check(case, mode, Ident::Unverified, &r, None, &base, None);
                    sample(j.rec, j.start, case, mode, &r, &base);
                    // the header is only interpreted by a layer that start_on adds for plain-HTTP listeners: the bare
                    // router must ignore it
                    let hv = spoof_values(srv)[case.idx % spoof_values(srv).len()];
                    let o = send(&w, srv, Via::InProc(tls_obj), case.method, &case.variant, &[(id_header(srv), hv)]).await;
                    let mode_h = if tls_obj { "inproc-tlscfg+header" } else { "inproc-plaincfg+header" };
                    j.check(case, mode_h, Ident::Unverified, &r, Some(&base), &o, Some(hv));
                }
                if j.io_errors > 20 {
                    break;
                }
            }
        }); }
        rec.finish();
    }

    // -----------------------------------------------------------------------------------------
    // (b1) loopback, TLS on
    // -----------------------------------------------------------------------------------------

    #[test]
    fn verif_c20_tls() {
        let mut rec = Recorder::new("C20", "verif_c20_tls");
        let Some(s) = setup(&mut rec) else { return rec.finish() };
        for start in starts() { run(async {
            let w = World::new(start).await;
            let mut j = Judge { rec: &mut rec, io_errors: 0, start };
            for case in &s.cases {
                if !s.env.mine(case.idx) || s.only.is_some_and(|c| c != case.idx) {
                    continue;
                }
                let srv = case.tmpl.srv;
                let Some(r) = reference(&w, j.rec, case).await else { continue };
                j.rec.seen("routes", format!("{} {}", srv.name(), case.tmpl.full));
                let hdr = id_header(srv);
                // no client certificate
                let base = send(&w, srv, Via::Net(true, "none"), case.method, &case.variant, &[]).await;
                j.check(case, "tls-nocert", Ident::Unverified, &r, None, &base, None);
                sample(j.rec, j.start, case, "tls-nocert", &r, &base);
                // no client certificate + spoofed header (every peer name, a malformed one, and the *other* flavour's header)
                let mut spoof: Vec<(&str, &str)> = spoof_values(srv).iter().map(|v| (hdr, *v)).collect();
                spoof.push((hdr, "H1; DROP"));
                spoof.push((id_header(if srv == Srv::Mpc { Srv::Shard } else { Srv::Mpc }), if srv == Srv::Mpc { "0" } else { "A" }));
                for (k, (hn, hv)) in spoof.iter().enumerate() {
                    // quick: two of them per case (rotating), thorough: all
                    if !s.env.thorough && k != case.idx % spoof.len() && k != (case.idx / 5 + 1) % spoof.len() {
                        continue;
                    }
                    let o = send(&w, srv, Via::Net(true, "none"), case.method, &case.variant, &[(*hn, *hv)]).await;
                    let mode = if *hn == hdr { "tls-nocert+header" } else { "tls-nocert+otherheader" };
                    j.check(case, mode, Ident::Unverified, &r, Some(&base), &o, Some(*hv));
                }
                // known client certificates, without and with a header claiming somebody else
                let certs = if srv == Srv::Mpc { MPC_CERTS } else { SHARD_CERTS };
                for (ci, (label, _)) in certs.iter().enumerate() {
                    if !s.env.thorough && certs.len() > 1 && ci != case.idx % certs.len() {
                        continue;
                    }
                    let cb = send(&w, srv, Via::Net(true, label), case.method, &case.variant, &[]).await;
                    j.check(case, "tls-cert", Ident::Verified, &r, None, &cb, None);
                    let others: Vec<&str> = spoof_values(srv).iter().copied().filter(|v| spoof_values(srv)[ci.min(spoof_values(srv).len() - 1)] != *v).collect();
                    let claim = others[case.idx % others.len()];
                    let o = send(&w, srv, Via::Net(true, label), case.method, &case.variant, &[(hdr, claim)]).await;
                    j.check(case, "tls-cert+header", Ident::Verified, &r, Some(&cb), &o, Some(claim));
                    let o = send(&w, srv, Via::Net(true, label), case.method, &case.variant, &[(hdr, "not-an-identity")]).await;
                    j.check(case, "tls-cert+badheader", Ident::Verified, &r, Some(&cb), &o, Some("not-an-identity"));
                }
                // a certificate the server does not know (a shard-1 certificate for the helper ring; another helper's
                // certificate for the shard network): TLS rejection or 401, with or without a header
                if s.env.thorough || case.idx % 3 == 0 {
                    let o = send(&w, srv, Via::Net(true, "cert-foreign"), case.method, &case.variant, &[]).await;
                    j.check(case, "tls-foreigncert", Ident::Foreign, &r, None, &o, None);
                    let hv = spoof_values(srv)[0];
                    let o = send(&w, srv, Via::Net(true, "cert-foreign"), case.method, &case.variant, &[(hdr, hv)]).await;
                    j.check(case, "tls-foreigncert+header", Ident::Foreign, &r, None, &o, Some(hv));
                }
                if j.io_errors > 20 {
                    break;
                }
            }
        }); }
        rec.finish();
    }

    // -----------------------------------------------------------------------------------------
    // (b2) loopback, TLS off: the header is the identity
    // -----------------------------------------------------------------------------------------

    #[test]
    fn verif_c20_plain() {
        let mut rec = Recorder::new("C20", "verif_c20_plain");
        let Some(s) = setup(&mut rec) else { return rec.finish() };
        for start in starts() { run(async {
            let w = World::new(start).await;
            let mut j = Judge { rec: &mut rec, io_errors: 0, start };
            for case in &s.cases {
                if !s.env.mine(case.idx) || s.only.is_some_and(|c| c != case.idx) {
                    continue;
                }
                let srv = case.tmpl.srv;
                let Some(r) = reference(&w, j.rec, case).await else { continue };
                j.rec.seen("routes", format!("{} {}", srv.name(), case.tmpl.full));
                let hdr = id_header(srv);
                let base = send(&w, srv, Via::Net(false, "none"), case.method, &case.variant, &[]).await;
                j.check(case, "plain-noheader", Ident::Unverified, &r, None, &base, None);
                sample(j.rec, j.start, case, "plain-noheader", &r, &base);
                for (k, hv) in spoof_values(srv).iter().enumerate() {
                    if !s.env.thorough && k != case.idx % spoof_values(srv).len() {
                        continue;
                    }
                    let o = send(&w, srv, Via::Net(false, "none"), case.method, &case.variant, &[(hdr, *hv)]).await;
                    j.check(case, "plain-header", Ident::HeaderHonoured, &r, None, &o, Some(*hv));
                }
                let bad = ["H1", "", "-1", "AA"][case.idx % 4];
                let o = send(&w, srv, Via::Net(false, "none"), case.method, &case.variant, &[(hdr, bad)]).await;
                j.check(case, "plain-badheader", Ident::HeaderMalformed, &r, None, &o, Some(bad));
                // the other flavour's header is not an identity for this server
                let (oh, ov) = if srv == Srv::Mpc { (SHARD_HEADER, "0") } else { (HELPER_HEADER, "A") };
                let o = send(&w, srv, Via::Net(false, "none"), case.method, &case.variant, &[(oh, ov)]).await;
                j.check(case, "plain-otherheader", Ident::Unverified, &r, Some(&base), &o, Some(ov));
                if j.io_errors > 20 {
                    break;
                }
            }
        }); }
        rec.finish();
    }

    // -----------------------------------------------------------------------------------------
    // identity binding on the record-stream route: the stream is registered under the *verified* identity
    // -----------------------------------------------------------------------------------------

    /// Reads what the transport holds for (query, `from`, gate): `Some(bytes)` when a stream is registered there and
    /// delivers data within `wait`, `None` otherwise. Must be called at most once per key (taking a stream out of the
    /// collection leaves a tombstone).
    async fn stream_under<F: ConnectionFlavor>(t: &HttpTransport<F>, from: F::Identity, gate: &str, want: usize, wait: Duration) -> Option<Vec<u8>> {
        let mut s = Box::pin(t.receive(from, &(QueryId, Gate::from(gate))));
        let mut got = Vec::new();
        let r = tokio::time::timeout(wait, async {
            while got.len() < want {
                match s.next().await {
                    Some(Ok(b)) => got.extend_from_slice(b.as_ref()),
                    _ => break,
                }
            }
        })
        .await;
        if r.is_err() && got.is_empty() { None } else { Some(got) }
    }

    /// all identities the server could possibly file a stream under
    fn all_ids(srv: Srv) -> Vec<String> {
        match srv {
            Srv::Mpc => vec!["A".into(), "B".into(), "C".into()],
            Srv::Shard => (0..4).map(|i| i.to_string()).collect(),
        }
    }

    async fn held_by(w: &World, srv: Srv, tls: bool, id: &str, gate: &str, want: usize, wait: Duration) -> Option<Vec<u8>> {
        match (srv, tls) {
            (Srv::Mpc, true) => stream_under(&w.mpc_tls.transport, HelperIdentity::from_str(id).unwrap(), gate, want, wait).await,
            (Srv::Mpc, false) => stream_under(&w.mpc_plain.transport, HelperIdentity::from_str(id).unwrap(), gate, want, wait).await,
            (Srv::Shard, true) => stream_under(&w.shard_tls.transport, ShardIndex::from_str(id).unwrap(), gate, want, wait).await,
            (Srv::Shard, false) => stream_under(&w.shard_plain.transport, ShardIndex::from_str(id).unwrap(), gate, want, wait).await,
        }
    }

    #[test]
    fn verif_c20_identity_binding() {
        let mut rec = Recorder::new("C20", "verif_c20_identity_binding");
        let Some(s) = setup(&mut rec) else { return rec.finish() };
        // stream routes = discovered templates with a wildcard tail that are registered for POST
        let streams: Vec<Tmpl> = templates(&s.inv).into_iter().filter(|t| t.full.contains("/*") && t.registered.contains("POST")).collect();
        if streams.is_empty() {
            rec.inconclusive("no record-stream route (wildcard tail, POST) discovered");
            return rec.finish();
        }
        // (tls, client label, verified identity (None = no certificate), header claim)
        struct B {
            tls: bool,
            client: &'static str,
            verified: Option<&'static str>,
            claim: Option<&'static str>,
        }
        let mut plans: Vec<(Tmpl, B)> = Vec::new();
        for t in &streams {
            let (certs, names): (&[(&str, usize)], &[&str]) = if t.srv == Srv::Mpc { (MPC_CERTS, &["A", "B", "C"]) } else { (SHARD_CERTS, &["0"]) };
            let claims: &[&str] = if t.srv == Srv::Mpc { &["A", "B", "C"] } else { &["0", "1", "3"] };
            for (ci, (label, _)) in certs.iter().enumerate() {
                plans.push((t.clone(), B { tls: true, client: label, verified: Some(names[ci]), claim: None }));
                for c in claims {
                    if *c != names[ci] {
                        plans.push((t.clone(), B { tls: true, client: label, verified: Some(names[ci]), claim: Some(c) }));
                    }
                }
            }
            for c in claims {
                plans.push((t.clone(), B { tls: true, client: "none", verified: None, claim: Some(c) }));
                plans.push((t.clone(), B { tls: false, client: "none", verified: Some(c), claim: Some(c) }));
            }
            plans.push((t.clone(), B { tls: false, client: "none", verified: None, claim: None }));
        }
        let rounds = s.env.pick(1, 12);
        for start in starts() { run(async {
            let w = World::new(start).await;
            let mut idx = 0usize;
            for round in 0..rounds {
                for (t, b) in &plans {
                    let case_idx = idx;
                    idx += 1;
                    if !s.env.mine(case_idx) || s.only.is_some_and(|c| c != case_idx) {
                        continue;
                    }
                    let srv = t.srv;
                    let mut r = VRng::new(s.env.seed ^ 0xC20_B1D, case_idx as u64);
                    let gate = format!("verif/bind/{}/{}", case_idx, url_safe(&mut r, 8).replace('%', "p"));
                    let plen = r.range(1, 48) as usize;
                    let payload = r.bytes(plen);
                    let path = instantiate(&t.full, "0", "0", &gate).replace("{U}", "");
                    let uri: Uri = format!("{}://localhost:{}{}", if b.tls { "https" } else { "http" }, w.port(srv, b.tls), path).parse().unwrap();
                    let mut rb = Request::builder().method("POST").uri(uri);
                    if let Some(c) = b.claim {
                        rb = rb.header(id_header(srv), c);
                    }
                    let req = rb.body(Body::from(payload.clone())).unwrap();
                    let resp = tokio::time::timeout(IO_TIMEOUT, w.clients[&(srv, b.tls, b.client)].request(req)).await;
                    let status = match resp {
                        Ok(Ok(resp)) => resp.status().as_u16(),
                        other => {
                            rec.count("io_errors");
                            rec.inconclusive(format!("binding request failed: {:?}", other.map(|r| r.map(|x| x.status()).map_err(|e| e.to_string()))));
                            continue;
                        }
                    };
                    rec.eval();
                    let mode = format!("{}{}{}", if b.tls { "tls" } else { "plain" }, if b.client == "none" { "-nocert" } else { "-cert" }, if b.claim.is_some() { "+header" } else { "" });
                    rec.seen("status_classes", format!("{}/bind-{mode}/protected/{status}", srv.name()));
                    rec.seen("start_modes", format!("{}/{}/{}", srv.name(), if b.tls { "https" } else { "http" }, start.name()));
                    rec.seen("routes", format!("{} {}", srv.name(), t.full));
                    // where did the stream end up? the verified identity first (generous wait for the bytes), then everybody
                    // else (an identity that holds nothing stays pending; short wait)
                    let mut filed = Vec::new();
                    let mut unknown = false;
                    let mut order = all_ids(srv);
                    if let Some(v) = b.verified {
                        order.sort_by_key(|x| x != v);
                    }
                    for id in order {
                        let wait = if b.verified == Some(id.as_str()) && status != 401 { Duration::from_secs(15) } else { Duration::from_millis(120) };
                        match held_by(&w, srv, b.tls, &id, &gate, payload.len(), wait).await {
                            Some(bytes) if bytes == payload => filed.push(id),
                            Some(_) => {
                                unknown = true;
                                filed.push(format!("{id}?"));
                            }
                            None => {}
                        }
                    }
                    let witness = json!({"case": case_idx, "round": round, "start": start.name(), "server": srv.name(), "template": t.full, "tls": b.tls, "client": b.client,
                        "verified_identity": b.verified, "header_claim": b.claim, "gate": gate, "status": status, "stream_filed_under": filed});
                    let sig = |k: &str| json!({"kind": k, "server": srv.name(), "method": "POST", "template": t.full, "mode": mode, "start": start.name(), "status": status});
                    match b.verified {
                        None => {
                            if status != 401 {
                                rec.violation("record-stream route did not answer 401 without a verified identity", sig("not_401"), witness);
                            } else if !filed.is_empty() {
                                rec.violation("record stream accepted from a caller without a verified identity", sig("stream_filed_unverified"), witness);
                            } else {
                                rec.count("binding_refused_ok");
                                if start == Start::SelfBound {
                                    rec.count("binding_refused_ok_on_self_bound_listener");
                                }
                                rec.distinct(&(srv, &t.full, &mode, b.claim, "refused", start));
                            }
                        }
                        Some(v) => {
                            if status == 401 {
                                if b.tls {
                                    rec.inconclusive(format!("known client certificate refused (401) on {} {}", srv.name(), t.full));
                                } else {
                                    rec.violation("TLS disabled: identity header not honoured on the record-stream route", sig("header_not_honoured"), witness);
                                }
                            } else if unknown {
                                rec.inconclusive(format!("record stream registered but its bytes did not arrive as sent ({} {mode})", srv.name()));
                            } else if filed == vec![v.to_string()] {
                                rec.count("binding_ok");
                                rec.distinct(&(srv, &t.full, &mode, b.client, b.claim, start));
                                if start == Start::SelfBound {
                                    rec.count("binding_ok_on_self_bound_listener");
                                }
                                if rec.want_sample() {
                                    rec.sample(json!({"case": case_idx, "server": srv.name(), "mode": mode, "start": start.name(), "client": b.client, "header_claim": b.claim,
                                        "status": status, "stream_filed_under": filed}));
                                }
                            } else if (200..300).contains(&status) {
                                rec.violation(
                                    "record stream filed under an identity other than the verified one",
                                    json!({"kind": "stream_misfiled", "server": srv.name(), "method": "POST", "template": t.full, "mode": mode, "start": start.name(),
                                        "claimed": b.claim.is_some(), "filed_under_claim": b.claim.is_some_and(|c| filed.iter().any(|f| f == c))}),
                                    witness,
                                );
                            } else {
                                rec.inconclusive(format!("record-stream route answered {status} to a verified caller ({} {mode})", srv.name()));
                            }
                        }
                    }
                }
            }
        }); }
        rec.finish();
    }

    // -----------------------------------------------------------------------------------------
    // inventory cross-check (single process)
    // -----------------------------------------------------------------------------------------

    #[test]
    fn verif_c20_inventory_x1() {
        let mut rec = Recorder::new("C20", "verif_c20_inventory_x1");
        let Some(s) = setup(&mut rec) else { return rec.finish() };
        let tmpls = templates(&s.inv);
        // scanner attribution vs. allow-list (informational; the oracle is the table)
        for r in &s.inv.routes {
            rec.seen("scanner_routes", format!("{} [{}] {} {} ({}{})", r.srv.name(), r.router, r.methods.join("|"), r.full, r.name, if r.auth_layer { ", auth layer" } else { "" }));
            for m in &r.methods {
                let a = allowed(r.srv, m, &r.full);
                if a && (r.router == "h2h" || r.router == "s2s") {
                    rec.note(format!("allow-listed route {} {} {} is mounted by the {} router", r.srv.name(), m, r.full, r.router));
                }
                if !a && r.router != "h2h" && r.router != "s2s" {
                    rec.note(format!("route {} {} {} is mounted outside the h2h/s2s routers but is not allow-listed: treated as protected", r.srv.name(), m, r.full));
                }
            }
        }
        for (srv, m, t) in ALLOW {
            if !s.inv.routes.iter().any(|r| r.srv == *srv && r.full == *t && r.methods.iter().any(|x| x == m)) {
                rec.note(format!("allow-list entry {} {m} {t} was not discovered by the scanner", srv.name()));
            }
        }
        for start in starts() { run(async {
            let w = World::new(start).await;
            let mut j = Judge { rec: &mut rec, io_errors: 0, start };
            let canon = |t: &Tmpl| Variant { label: "canonical".into(), path: instantiate(&t.full, "0", "0", GATES[0]), query: QUERY_OK.into(), body: 1 };
            // 1. every attributed (server, method, template) exists on that server
            for t in &tmpls {
                for m in &t.registered {
                    let Some(method) = METHODS.iter().find(|x| **x == m.as_str()) else {
                        j.rec.note(format!("method {m} of {} is outside the probed method set", t.full));
                        continue;
                    };
                    let case = Case { idx: 0, tmpl: t.clone(), method, variant: canon(t) };
                    let r = send(&w, t.srv, Via::Net(true, ref_client(t.srv)), method, &case.variant, &[]).await;
                    j.rec.eval();
                    match r.status {
                        None => j.rec.inconclusive(format!("existence probe failed: {:?}", r.err)),
                        Some(404 | 405) => j.rec.inconclusive(format!(
                            "scanner attributes {} {} to the {} server but the server answers {} to a verified caller",
                            m, t.full, t.srv.name(), r.class()
                        )),
                        Some(_) => {
                            j.rec.seen("routes", format!("{} {}", t.srv.name(), t.full));
                            j.rec.seen("routes_confirmed", format!("{} {} {}", t.srv.name(), m, t.full));
                            j.rec.distinct(&("exists", t.srv, m, &t.full));
                            let u = send(&w, t.srv, Via::Net(true, "none"), method, &case.variant, &[]).await;
                            j.check(&case, "tls-nocert", Ident::Unverified, &r, None, &u, None);
                        }
                    }
                }
            }
            // 2. every discovered raw template under every discovered prefix on *both* servers: anything that exists
            //    there without being attributed by the scanner is an undeclared mount and falls under the default rule
            for srv in [Srv::Mpc, Srv::Shard] {
                for p in &s.inv.prefixes {
                    for raw in &s.inv.raw_templates {
                        let full = if raw == "/" && !p.is_empty() { p.clone() } else { format!("{}{}", p.trim_end_matches('/'), raw) };
                        if tmpls.iter().any(|t| t.srv == srv && t.full == full) {
                            continue;
                        }
                        let t = Tmpl { srv, full: full.clone(), registered: BTreeSet::new(), names: BTreeSet::new(), routers: BTreeSet::new() };
                        let v = canon(&t);
                        let concrete = v.path.replace("{U}", "");
                        if tmpls.iter().any(|k| k.srv == srv && template_matches(&k.full, &concrete)) {
                            j.rec.count("unattributed_shadowed_by_known_template");
                            continue;
                        }
                        for method in METHODS {
                            let case = Case { idx: 0, tmpl: t.clone(), method, variant: v.clone() };
                            let r = send(&w, srv, Via::Net(true, ref_client(srv)), method, &v, &[]).await;
                            j.rec.eval();
                            j.rec.count("unattributed_combos_probed");
                            match r.status {
                                None => j.rec.inconclusive(format!("existence probe failed: {:?}", r.err)),
                                Some(404 | 405) => j.rec.distinct(&("absent", srv, method, &full)),
                                Some(_) => {
                                    j.rec.seen("undeclared_mounts", format!("{} {} {}", srv.name(), method, full));
                                    let u = send(&w, srv, Via::Net(true, "none"), method, &v, &[]).await;
                                    j.check(&case, "tls-nocert", Ident::Unverified, &r, None, &u, None);
                                }
                            }
                        }
                    }
                }
            }
        }); }
        rec.finish();
    }

    // =========================================================================================
    // Raw client: own TCP / TLS connection, explicit HTTP version and request-target form.
    //
    // `IpaHttpClient` always speaks HTTP/2 with an absolute `https://` (TLS) or `http://` (plain) URI. What a server sees
    // as "the request URI" is caller-controlled data: HTTP/1.1 origin-form targets carry no scheme at all, HTTP/1.1
    // absolute-form targets and the HTTP/2 `:scheme` pseudo header carry whatever the caller writes. The two monitors
    // below therefore drive hyper's connection-level client over a socket they opened themselves.
    // =========================================================================================

    use http_body_util::BodyExt;
    use hyper_util::rt::{TokioExecutor, TokioIo};

    #[derive(Clone, Copy, PartialEq, Eq, Hash, Debug, PartialOrd, Ord)]
    enum Wire {
        /// HTTP/1.1, origin-form request target (`POST /query/.. HTTP/1.1`): the server-side URI has no scheme
        H1Origin,
        /// HTTP/1.1, absolute-form request target with scheme `http`
        H1AbsHttp,
        /// HTTP/1.1, absolute-form request target with scheme `https`
        H1AbsHttps,
        /// HTTP/2, `:scheme: https`
        H2Https,
        /// HTTP/2, `:scheme: http`
        H2Http,
    }

    impl Wire {
        const ALL: [Wire; 5] = [Wire::H1Origin, Wire::H1AbsHttp, Wire::H1AbsHttps, Wire::H2Https, Wire::H2Http];
        fn h2(self) -> bool {
            matches!(self, Wire::H2Https | Wire::H2Http)
        }
        fn http(self) -> &'static str {
            if self.h2() { "2" } else { "1.1" }
        }
        fn scheme(self) -> &'static str {
            match self {
                Wire::H1Origin => "none",
                Wire::H1AbsHttp | Wire::H2Http => "http",
                Wire::H1AbsHttps | Wire::H2Https => "https",
            }
        }
        fn name(self) -> &'static str {
            match self {
                Wire::H1Origin => "1.1/origin-form",
                Wire::H1AbsHttp => "1.1/absolute-form-http",
                Wire::H1AbsHttps => "1.1/absolute-form-https",
                Wire::H2Https => "2/scheme-https",
                Wire::H2Http => "2/scheme-http",
            }
        }
        fn target(self, port: u16, pq: &str) -> String {
            match self.scheme() {
                "none" => pq.to_string(),
                sch => format!("{sch}://localhost:{port}{pq}"),
            }
        }
    }

    /// what the caller presents on the TLS connection (ignored on plain connections)
    #[derive(Clone, Copy, PartialEq, Eq, Hash, Debug, PartialOrd, Ord)]
    enum Who {
        Anonymous,
        /// index into the repository's test certificates
        Cert(usize),
    }

    enum Sender {
        H1(hyper::client::conn::http1::SendRequest<Body>),
        H2(hyper::client::conn::http2::SendRequest<Body>),
    }

    impl Sender {
        fn is_closed(&self) -> bool {
            match self {
                Sender::H1(s) => s.is_closed(),
                Sender::H2(s) => s.is_closed(),
            }
        }
        async fn send(&mut self, req: Request<Body>) -> Result<hyper::Response<hyper::body::Incoming>, hyper::Error> {
            match self {
                Sender::H1(s) => {
                    s.ready().await?;
                    s.send_request(req).await
                }
                Sender::H2(s) => {
                    s.ready().await?;
                    s.send_request(req).await
                }
            }
        }
    }

    fn tls_client_config(who: Who, h2: bool) -> Arc<rustls::ClientConfig> {
        let provider = Arc::new(rustls::crypto::aws_lc_rs::default_provider());
        // every server under test presents the certificate of (helper 1, shard 0)
        let mut roots = rustls::RootCertStore::empty();
        roots.add(cert_der(0)).unwrap();
        let b = rustls::ClientConfig::builder_with_provider(provider)
            .with_safe_default_protocol_versions()
            .unwrap()
            .with_root_certificates(roots);
        let mut cfg = match who {
            Who::Anonymous => b.with_no_client_auth(),
            Who::Cert(k) => match cert_identity(k) {
                ClientIdentity::Certificate((chain, key)) => b.with_client_auth_cert(chain, key).unwrap(),
                _ => unreachable!(),
            },
        };
        cfg.alpn_protocols = vec![if h2 { b"h2".to_vec() } else { b"http/1.1".to_vec() }];
        Arc::new(cfg)
    }

    async fn raw_handshake<T>(io: T, h2: bool) -> Result<Sender, String>
    where
        T: tokio::io::AsyncRead + tokio::io::AsyncWrite + Unpin + Send + 'static,
    {
        let io = TokioIo::new(io);
        if h2 {
            let (s, conn) = hyper::client::conn::http2::handshake::<_, _, Body>(TokioExecutor::new(), io).await.map_err(|e| format!("h2 handshake: {e}"))?;
            tokio::spawn(async move {
                let _ = conn.await;
            });
            Ok(Sender::H2(s))
        } else {
            let (s, conn) = hyper::client::conn::http1::handshake::<_, Body>(io).await.map_err(|e| format!("h1 handshake: {e}"))?;
            tokio::spawn(async move {
                let _ = conn.await;
            });
            Ok(Sender::H1(s))
        }
    }

    async fn raw_connect(port: u16, tls: bool, who: Who, h2: bool) -> Result<Sender, String> {
        let tcp = tokio::net::TcpStream::connect(("localhost", port)).await.map_err(|e| format!("connect: {e}"))?;
        let _ = tcp.set_nodelay(true);
        if tls {
            let c = tokio_rustls::TlsConnector::from(tls_client_config(who, h2));
            let name = rustls::pki_types::ServerName::try_from("localhost").unwrap();
            let s = c.connect(name, tcp).await.map_err(|e| format!("tls handshake: {e}"))?;
            let alpn = s.get_ref().1.alpn_protocol().map(<[u8]>::to_vec);
            if alpn.as_deref() != Some(if h2 { b"h2".as_slice() } else { b"http/1.1".as_slice() }) {
                return Err(format!("request: server did not negotiate the offered ALPN protocol ({alpn:?})"));
            }
            raw_handshake(s, h2).await
        } else {
            raw_handshake(tcp, h2).await
        }
    }

    struct RawOut {
        status: Option<u16>,
        err: Option<String>,
        version: Option<String>,
    }

    impl RawOut {
        fn err(e: impl Into<String>) -> Self {
            RawOut { status: None, err: Some(e.into().chars().take(200).collect()), version: None }
        }
    }

    /// connections are kept per (port, tls, caller, HTTP version); one request at a time
    #[derive(Default)]
    struct RawPool {
        conns: BTreeMap<(u16, bool, Who, bool), Sender>,
        connects: u64,
        reconnects: u64,
    }

    fn body_bytes(kind: u8, method: &str) -> (Vec<u8>, Option<&'static str>) {
        if method == "GET" || method == "DELETE" {
            return (Vec::new(), None);
        }
        match kind {
            0 => (Vec::new(), None),
            1 => (
                serde_json::to_vec(&json!({"roles": RoleAssignment::new(HelperIdentity::make_three())})).unwrap(),
                Some("application/json"),
            ),
            _ => (vec![0xA5u8; 64], Some("application/octet-stream")),
        }
    }

    impl RawPool {
        #[allow(clippy::too_many_arguments)]
        async fn send(&mut self, port: u16, tls: bool, who: Who, wire: Wire, method: &str, pq: &str, body: &(Vec<u8>, Option<&'static str>), headers: &[(&str, &str)]) -> RawOut {
            let key = (port, tls, if tls { who } else { Who::Anonymous }, wire.h2());
            match tokio::time::timeout(IO_TIMEOUT, self.send_inner(key, wire, method, pq, body, headers)).await {
                Ok(o) => o,
                Err(_) => {
                    self.conns.remove(&key);
                    RawOut::err("timeout")
                }
            }
        }

        async fn send_inner(&mut self, key: (u16, bool, Who, bool), wire: Wire, method: &str, pq: &str, body: &(Vec<u8>, Option<&'static str>), headers: &[(&str, &str)]) -> RawOut {
            let (port, tls, who, h2) = key;
            for attempt in 0..2 {
                let mut fresh = false;
                if self.conns.get(&key).is_none_or(Sender::is_closed) {
                    self.conns.remove(&key);
                    match raw_connect(port, tls, who, h2).await {
                        Ok(s) => {
                            self.conns.insert(key, s);
                            self.connects += 1;
                            fresh = true;
                        }
                        Err(e) => return RawOut::err(e),
                    }
                }
                let mut b = Request::builder().method(method).uri(wire.target(port, pq));
                if !h2 {
                    b = b.header("host", format!("localhost:{port}"));
                }
                if let Some(c) = body.1 {
                    b = b.header("content-type", c);
                }
                for (k, v) in headers {
                    b = b.header(*k, *v);
                }
                let payload = if body.0.is_empty() { Body::empty() } else { Body::from(body.0.clone()) };
                let req = match b.body(payload) {
                    Ok(r) => r,
                    Err(e) => return RawOut::err(format!("request: {e}")),
                };
                let sender = self.conns.get_mut(&key).unwrap();
                match sender.send(req).await {
                    Ok(resp) => {
                        let status = resp.status().as_u16();
                        let version = format!("{:?}", resp.version());
                        // drain the body so that an HTTP/1.1 connection can be used again
                        if !matches!(tokio::time::timeout(Duration::from_secs(10), resp.into_body().collect()).await, Ok(Ok(_))) {
                            self.conns.remove(&key);
                        }
                        return RawOut { status: Some(status), err: None, version: Some(version) };
                    }
                    Err(e) => {
                        self.conns.remove(&key);
                        if fresh || attempt == 1 {
                            let mut msg = format!("{e}");
                            let mut src = std::error::Error::source(&e);
                            while let Some(s) = src {
                                msg.push_str(&format!(": {s}"));
                                src = s.source();
                            }
                            return RawOut::err(msg);
                        }
                        // a connection that the server closed after the previous response: open a new one
                        self.reconnects += 1;
                    }
                }
            }
            unreachable!()
        }
    }

    // -----------------------------------------------------------------------------------------
    // probes judged by the two monitors below
    // -----------------------------------------------------------------------------------------

    /// query string that the `prepare` / `create` / `status-match` extractors accept (`FieldType` is spelled `Fp31`), so that an
    /// authenticated request gets through to the request handler
    const QUERY_WELL_FORMED: &str = "?query_type=test-multiply&field_type=Fp31&size=1&status=Running";

    #[derive(Clone, Copy, PartialEq, Eq, Hash, Debug, PartialOrd, Ord)]
    enum Hdr {
        /// the server's own identity header naming a configured peer
        Peer,
        /// the server's own identity header with a value that is not an identity
        Malformed,
        /// the identity header of the other flavour
        OtherFlavour,
    }

    impl Hdr {
        fn name(self) -> &'static str {
            match self {
                Hdr::Peer => "peer",
                Hdr::Malformed => "malformed",
                Hdr::OtherFlavour => "other-flavour",
            }
        }
    }

    /// What the property says about the caller (independent of the code under test: derived from what the caller
    /// presented and from the configuration the server was given).
    #[derive(Clone, Debug, PartialEq, Eq)]
    enum Expect {
        /// not authenticated as a configured peer: protected routes answer 401, the request handler is not invoked and no
        /// record stream is created. `tls_failure_ok`: the caller presented a certificate that the server has no reason
        /// to trust, so a failed TLS handshake is a refusal as well.
        Refuse { tls_failure_ok: bool },
        /// authenticated as the configured peer `id`
        Accept { id: String },
        /// TLS off and a malformed identity header
        Malformed,
    }

    #[derive(Clone)]
    struct RouteCase {
        tmpl: Tmpl,
        method: &'static str,
        /// record-stream route (wildcard tail, POST)
        stream: bool,
        allow: bool,
    }

    /// every (server, template, registered method) of the inventory, in scanner order
    fn route_cases(inv: &Inventory) -> Vec<RouteCase> {
        let mut out = Vec::new();
        for t in templates(inv) {
            for m in METHODS {
                if t.registered.contains(*m) {
                    out.push(RouteCase { stream: t.full.contains("/*") && *m == "POST", allow: allowed(t.srv, m, &t.full), tmpl: t.clone(), method: m });
                }
            }
        }
        out
    }

    /// Existence reference for a route (same request through `IpaHttpClient` with a certificate that the fully pinned
    /// `TestServer` knows), cached per route index. `None`: no reference / the route does not exist with that method.
    async fn route_reference(w: &World, rec: &mut Recorder, cache: &mut BTreeMap<usize, Option<Outcome>>, ri: usize, rc: &RouteCase) -> Option<Outcome> {
        if let Some(r) = cache.get(&ri) {
            return r.clone();
        }
        let case = Case {
            idx: 0,
            tmpl: rc.tmpl.clone(),
            method: rc.method,
            variant: Variant { label: "canonical".into(), path: instantiate(&rc.tmpl.full, "0", "0", GATES[0]), query: QUERY_OK.into(), body: 1 },
        };
        let r = match reference(w, rec, &case).await {
            Some(r) if r.status.is_some_and(|s| s != 404 && s != 405) => Some(r),
            Some(r) => {
                rec.inconclusive(format!("scanner attributes {} {} to the {} server but a verified caller gets {}", rc.method, rc.tmpl.full, rc.tmpl.srv.name(), r.class()));
                None
            }
            None => None,
        };
        cache.insert(ri, r.clone());
        r
    }

    struct P<'a> {
        test: &'static str,
        case: usize,
        srv: Srv,
        tls: bool,
        /// which of the world's transports (request-handler log, record streams) the server under test sits on: the one of
        /// the TLS `TestServer` (true) or of the plain one (false)
        transport_tls: bool,
        port: u16,
        start: Start,
        /// "pinned", "unpinned:<peers without a certificate>" or "tls-<what is missing>"
        config: &'a str,
        rc: &'a RouteCase,
        reference: &'a Outcome,
        who: Who,
        /// exact label ("anonymous", "cert:H3", "cert:foreign")
        client: &'a str,
        /// anonymous | cert:pinned-peer | cert:unpinned-peer | cert:foreign
        client_kind: &'static str,
        wire: Wire,
        hdr: Option<(Hdr, &'static str, &'a str)>,
        expect: Expect,
    }

    /// Under which identities does the transport hold a record stream for `gate`? All candidate identities are polled
    /// concurrently; `wait` bounds the time until the first one delivers, the others get a short grace period after that.
    async fn filed_under(w: &World, srv: Srv, tls: bool, gate: &str, payload: &[u8], wait: Duration) -> Vec<String> {
        let ids = all_ids(srv);
        let mut pending: futures::stream::FuturesUnordered<_> = ids
            .iter()
            .map(|id| async move { (id.clone(), held_by(w, srv, tls, id, gate, payload.len(), Duration::from_secs(20)).await) })
            .collect();
        let mut filed = Vec::new();
        let mut deadline = tokio::time::Instant::now() + wait;
        while let Ok(Some((id, got))) = tokio::time::timeout_at(deadline, pending.next()).await {
            if let Some(bytes) = got {
                filed.push(if bytes == payload { id } else { format!("{id}?") });
                deadline = deadline.min(tokio::time::Instant::now() + Duration::from_millis(120));
            }
        }
        filed.sort();
        filed
    }

    /// Sends one probe through the raw client and judges it. Returns the outcome (baseline for the header variants).
    async fn probe(w: &World, pool: &mut RawPool, rec: &mut Recorder, env: &Env, io_errors: &mut u64, p: &P<'_>, baseline: Option<&Outcome>) -> Outcome {
        let u = w.next_uniq();
        let tp = p.rc.tmpl.full.as_str();
        let (pq, body, gate) = if p.rc.stream {
            let mut r = VRng::new(env.seed ^ 0xC20_57E, p.case as u64);
            let plen = r.range(1, 48) as usize;
            let gate = format!("verif/{}/{}/u{u}", p.test, p.case);
            (instantiate(tp, "0", "0", &gate).replace("{U}", ""), (r.bytes(plen), Some("application/octet-stream")), Some(gate))
        } else {
            (format!("{}{QUERY_WELL_FORMED}", instantiate(tp, "0", "0", GATES[0]).replace("{U}", &format!("-u{u}"))), body_bytes(1, p.rc.method), None)
        };
        let headers: Vec<(&str, &str)> = p.hdr.iter().map(|(_, n, v)| (*n, *v)).collect();
        let log = &w.logs[&(p.srv, p.transport_tls)];
        let before = log.lock().unwrap().len();
        let out = pool.send(p.port, p.tls, p.who, p.wire, p.rc.method, &pq, &body, &headers).await;
        let reached = log.lock().unwrap()[before..].to_vec();
        let o = Outcome { status: out.status, err: out.err, reached, path: pq.chars().take(160).collect() };

        rec.eval();
        let route = format!("{} {}", p.rc.method, tp);
        let proto = if p.tls { "https" } else { "http" };
        let hdr_class = p.hdr.map(|h| h.0.name());
        let kind = if p.rc.allow { "allowed" } else { "protected" };
        rec.seen("status_classes", format!("{}/raw-{proto}-{}-{}{}/{kind}/{}", p.srv.name(), p.wire.http(), p.client_kind, if p.hdr.is_some() { "+header" } else { "" }, o.class()));

        // the client stack must have done what was asked, otherwise nothing is learnt about that variant
        if let Some(v) = &out.version {
            if (v == "HTTP/2.0") != p.wire.h2() {
                rec.inconclusive(format!("asked for HTTP/{} but the response came over {v}", p.wire.http()));
                return o;
            }
            rec.seen("http_variants", format!("{}/{proto}/{}", p.srv.name(), p.wire.name()));
            rec.seen("http_versions_answered", format!("{proto} {v}"));
            rec.seen("start_modes", format!("{}/{proto}/{}", p.srv.name(), p.start.name()));
        }

        // where did the record stream go (record-stream routes only)? Always looked at when the request was not
        // answered 401; a sample of the refused ones is looked at as well.
        let mut filed: Option<Vec<String>> = None;
        if let (Some(gate), Some(st)) = (&gate, o.status) {
            let accepted_2xx = matches!(p.expect, Expect::Accept { .. }) && (200..300).contains(&st);
            let sampled = env.thorough || vlib::fxhash(&(p.case, hdr_class, p.hdr.map(|h| h.2))) % 4 == 0;
            if st != 401 || sampled {
                let wait = if accepted_2xx { Duration::from_secs(15) } else { Duration::from_millis(150) };
                filed = Some(filed_under(w, p.srv, p.transport_tls, gate, &body.0, wait).await);
            }
        }

        let sig = |kind: &str| {
            json!({"kind": kind, "server": p.srv.name(), "route": route, "client": p.client_kind, "config": p.config, "tls": p.tls, "http": p.wire.http(),
                "scheme": p.wire.scheme(), "header": hdr_class, "start": p.start.name(), "status": o.status})
        };
        let witness = json!({"case": p.case, "start": p.start.name(), "server": p.srv.name(), "tls": p.tls, "config": p.config, "route": route, "request_target": p.wire.target(p.port, &o.path),
            "client": p.client, "client_kind": p.client_kind, "http": p.wire.name(), "header": p.hdr.map(|(_, n, v)| format!("{n}: {v}")), "expected": format!("{:?}", p.expect),
            "outcome": o.json(), "response_version": out.version, "stream_filed_under": filed, "same_request_without_header": baseline.map(Outcome::json),
            "reference_with_verified_cert": p.reference.json(),
            "scanner": {"handler_modules": p.rc.tmpl.names, "mounted_by": p.rc.tmpl.routers, "registered_methods": p.rc.tmpl.registered}});

        let Some(st) = o.status else {
            if p.expect == (Expect::Refuse { tls_failure_ok: true }) {
                rec.count("raw_refused_at_tls");
                rec.count(&format!("{}_refused_at_tls", p.test));
                rec.seen("raw_tls_refusal_errors", o.err.clone().unwrap_or_default().chars().filter(|c| !c.is_ascii_digit()).take(110).collect::<String>());
                rec.seen("refusals", format!("{}/{}/tls-handshake", p.srv.name(), p.client_kind));
                rec.seen("client_kinds", p.client_kind);
                rec.distinct(&(p.test, p.srv, p.config, p.start, &route, p.client, p.wire, p.hdr));
            } else if o.err.as_deref().is_some_and(|e| e.starts_with("request:")) {
                rec.count("variant_rejected_by_http_client");
            } else {
                *io_errors += 1;
                rec.count("io_errors");
                rec.inconclusive(format!("io error on {} {route} [{proto} {} {} {}]: {:?}", p.srv.name(), p.wire.name(), p.client, p.config, o.err));
            }
            return o;
        };

        let mut ok = true;
        if p.rc.allow {
            // report-collector routes stay reachable for everybody who gets a response at all
            if st == 401 {
                ok = false;
                rec.violation("report-collector route answered 401", sig("allowlisted_401"), witness.clone());
            }
        } else {
            match &p.expect {
                Expect::Refuse { .. } => {
                    if st != 401 {
                        ok = false;
                        rec.violation("h2h / s2s route served a caller that is not authenticated as a configured peer", sig("unauthenticated_accepted"), witness.clone());
                    }
                    if !o.reached.is_empty() {
                        ok = false;
                        rec.violation("request handler of a protected route invoked for a caller that is not authenticated as a configured peer", sig("handler_reached_unauthenticated"), witness.clone());
                    }
                    if filed.as_ref().is_some_and(|f| !f.is_empty()) {
                        ok = false;
                        rec.violation("record stream created for a caller that is not authenticated as a configured peer", sig("stream_filed_unauthenticated"), witness.clone());
                    }
                }
                Expect::Accept { id } => {
                    if st == 401 {
                        ok = false;
                        if p.tls {
                            rec.inconclusive(format!("certificate of a pinned peer refused (401) on {} {route} [{} {}]", p.srv.name(), p.config, p.wire.name()));
                        } else {
                            rec.violation("TLS disabled: identity header not honoured (401 although the route exists)", sig("header_not_honoured"), witness.clone());
                        }
                    } else if let Some(f) = &filed {
                        if f.len() == 1 && f[0] == *id {
                            rec.count(&format!("{}_stream_under_own_identity", p.test));
                        } else if f.iter().any(|x| x != id) {
                            ok = false;
                            let mut s = sig("stream_misfiled");
                            s["filed_under_header_value"] = json!(p.hdr.is_some_and(|h| f.iter().any(|x| x == h.2)));
                            rec.violation("record stream filed under an identity other than the authenticated one", s, witness.clone());
                        } else if (200..300).contains(&st) {
                            ok = false;
                            rec.inconclusive(format!("record-stream route answered {st} but no stream was found ({} {} {})", p.srv.name(), p.config, p.wire.name()));
                        }
                    }
                }
                Expect::Malformed => {
                    if !o.reached.is_empty() || (200..300).contains(&st) || filed.as_ref().is_some_and(|f| !f.is_empty()) {
                        ok = false;
                        rec.violation("TLS disabled: malformed identity header gave access to a protected route", sig("malformed_header_access"), witness.clone());
                    }
                }
            }
        }
        // under TLS a caller-supplied identity header never changes anything; neither does the other flavour's header
        if let (Some(b), Some((h, _, _))) = (baseline, p.hdr) {
            if (p.tls || h == Hdr::OtherFlavour) && b.status.is_some() && b.status != o.status {
                ok = false;
                rec.violation("identity header changed the outcome of a request", sig("header_changed_outcome"), witness.clone());
            }
        }
        if ok {
            rec.distinct(&(p.test, p.srv, p.config, p.start, &route, p.client, p.wire, p.hdr));
            rec.seen("client_kinds", p.client_kind);
            if p.start == Start::SelfBound {
                rec.count("judged_ok_on_self_bound_listener");
            }
            if p.rc.allow {
                rec.count("allowed_ok");
            } else {
                match &p.expect {
                    Expect::Refuse { .. } => {
                        rec.count("raw_refused_401");
                        rec.count(&format!("{}_refused_401", p.test));
                        rec.seen("refusals", format!("{}/{}/401", p.srv.name(), p.client_kind));
                        rec.seen(&format!("{}_routes_refused", p.test), format!("{} {route}", p.srv.name()));
                        if filed.is_some() {
                            rec.count(&format!("{}_no_stream_checked", p.test));
                        }
                        if p.tls && p.hdr.is_some() {
                            rec.count(&format!("{}_tls_header_ignored", p.test));
                        }
                    }
                    Expect::Accept { .. } => {
                        rec.count(&format!("{}_{}_accepted", p.test, if p.tls { "pinned_peer" } else { "plain_header" }));
                        rec.seen(&format!("{}_routes_accepted", p.test), format!("{} {route}", p.srv.name()));
                    }
                    Expect::Malformed => rec.count(&format!("{}_plain_malformed_refused", p.test)),
                }
            }
            if rec.want_sample() && (p.case % 41 == 3 || (p.config != "pinned" && p.case % 17 == 2)) {
                rec.sample(json!({"case": p.case, "server": p.srv.name(), "tls": p.tls, "start": p.start.name(), "config": p.config, "route": route, "client": p.client,
                    "http": p.wire.name(), "header": p.hdr.map(|(_, n, v)| format!("{n}: {v}")), "status": st, "response_version": out.version,
                    "handler_reached": o.reached, "stream_filed_under": filed}));
            }
        }
        o
    }

    fn identity_name(srv: Srv, peer: usize) -> String {
        match srv {
            Srv::Mpc => ["A", "B", "C"][peer].to_string(),
            Srv::Shard => peer.to_string(),
        }
    }

    // -----------------------------------------------------------------------------------------
    // (c) HTTP versions and request-target forms, TLS on and off, with and without identity headers
    // -----------------------------------------------------------------------------------------

    #[test]
    fn verif_c20_http_versions() {
        const TEST: &str = "httpver";
        let mut rec = Recorder::new("C20", "verif_c20_http_versions");
        let Some(s) = setup(&mut rec) else { return rec.finish() };
        let routes = route_cases(&s.inv);
        struct HC {
            idx: usize,
            start: Start,
            tls: bool,
            ri: usize,
            wire: Wire,
            /// 0 = no certificate, 1 = certificate of a configured peer, 2 = certificate the server does not know
            who: usize,
        }
        let mut cases: Vec<HC> = Vec::new();
        for start in Start::ALL {
            for tls in [true, false] {
                for ri in 0..routes.len() {
                    for wire in Wire::ALL {
                        for who in 0..(if tls { 3 } else { 1 }) {
                            cases.push(HC { idx: cases.len(), start, tls, ri, wire, who });
                        }
                    }
                }
            }
        }
        for start in starts() { run(async {
            let w = World::new(start).await;
            let mut pool = RawPool::default();
            let mut refs = BTreeMap::new();
            let mut io_errors = 0u64;
            for c in cases.iter().filter(|c| c.start == start) {
                if !s.env.mine(c.idx) || s.only.is_some_and(|o| o != c.idx) {
                    continue;
                }
                let rc = &routes[c.ri];
                let srv = rc.tmpl.srv;
                let Some(r) = route_reference(&w, &mut rec, &mut refs, c.ri, rc).await else { continue };
                rec.seen("routes", format!("{} {}", srv.name(), rc.tmpl.full));
                let hdr = id_header(srv);
                let other = (id_header(if srv == Srv::Mpc { Srv::Shard } else { Srv::Mpc }), if srv == Srv::Mpc { "0" } else { "A" });
                let certs = if srv == Srv::Mpc { MPC_CERTS } else { SHARD_CERTS };
                let (who, client, client_kind, cert_id): (Who, String, &'static str, Option<String>) = match c.who {
                    0 => (Who::Anonymous, "anonymous".into(), "anonymous", None),
                    1 => {
                        let ci = c.idx % certs.len();
                        (Who::Cert(certs[ci].1), certs[ci].0.replace("cert-", "cert:"), "cert:pinned-peer", Some(identity_name(srv, ci)))
                    }
                    _ => (Who::Cert(if srv == Srv::Mpc { FOREIGN_FOR_MPC } else { FOREIGN_FOR_SHARD }), "cert:foreign".into(), "cert:foreign", None),
                };
                // header variants: none first (the baseline), then peers / malformed / other flavour
                let peers = spoof_values(srv);
                let bad = ["H1", "", "-1", "AA"][c.idx % 4];
                let mut hv: Vec<Option<(Hdr, &'static str, &str)>> = vec![None];
                for (k, v) in peers.iter().enumerate() {
                    let rotating = k == c.idx % peers.len() || k == (c.idx / 3 + 1) % peers.len();
                    if s.env.thorough || (c.who != 2 && rotating) || (c.who == 2 && k == c.idx % peers.len()) {
                        hv.push(Some((Hdr::Peer, hdr, *v)));
                    }
                }
                if c.who != 2 || s.env.thorough {
                    hv.push(Some((Hdr::Malformed, hdr, bad)));
                    hv.push(Some((Hdr::OtherFlavour, other.0, other.1)));
                }
                let mut baseline: Option<Outcome> = None;
                for h in hv {
                    let expect = if c.tls {
                        match (&cert_id, c.who) {
                            (Some(id), _) => Expect::Accept { id: id.clone() },
                            (None, 0) => Expect::Refuse { tls_failure_ok: false },
                            _ => Expect::Refuse { tls_failure_ok: true },
                        }
                    } else {
                        match h {
                            Some((Hdr::Peer, _, v)) => Expect::Accept { id: v.to_string() },
                            Some((Hdr::Malformed, _, _)) => Expect::Malformed,
                            _ => Expect::Refuse { tls_failure_ok: false },
                        }
                    };
                    let p = P { test: TEST, case: c.idx, srv, tls: c.tls, transport_tls: c.tls, port: w.port(srv, c.tls), start, config: "pinned", rc, reference: &r, who, client: &client, client_kind,
                        wire: c.wire, hdr: h, expect };
                    let o = probe(&w, &mut pool, &mut rec, &s.env, &mut io_errors, &p, baseline.as_ref()).await;
                    if h.is_none() {
                        baseline = Some(o);
                    }
                }
                if io_errors > 20 {
                    break;
                }
            }
            rec.add("raw_connections_opened", pool.connects);
            rec.add("raw_connections_reopened", pool.reconnects);
        }); }
        rec.finish();
    }

    // -----------------------------------------------------------------------------------------
    // (d) network configurations in which peers have no pinned certificate
    // -----------------------------------------------------------------------------------------

    /// (name of the peer, identity as the transport files it, index of its test certificate)
    fn peer_table(srv: Srv) -> &'static [(&'static str, &'static str, usize)] {
        match srv {
            Srv::Mpc => &[("H1", "A", 0), ("H2", "B", 1), ("H3", "C", 2)],
            // two shards of helper 1. The repository's certificates for shard indices > 0 have expired (2025-01-05), so the
            // configuration pins the second unexpired test certificate for shard 1.
            Srv::Shard => &[("S0", "0", 0), ("S1", "1", 1)],
        }
    }

    fn config_name(srv: Srv, mask: u32) -> String {
        if mask == 0 {
            return "pinned".into();
        }
        let names: Vec<&str> = peer_table(srv).iter().enumerate().filter(|(i, _)| mask >> i & 1 == 1).map(|(_, p)| p.0).collect();
        format!("unpinned:{}", names.join("+"))
    }

    #[allow(dead_code)]
    enum Keep {
        _H(IpaHttpServer<Helper>),
        _S(IpaHttpServer<Shard>),
    }

    /// A further TLS server on the transport (request handler, record streams) of the world's TLS `TestServer`, built from
    /// the repository's own test configuration in which the peers selected by `mask` have `certificate: None`.
    /// `Err` = `start_on` panicked (message).
    async fn start_variant(w: &World, srv: Srv, mask: u32, start: Start) -> Result<(u16, Keep), String> {
        let rt = IpaRuntime::current();
        match srv {
            Srv::Mpc => {
                let mut tc = TestConfig::builder().build();
                let ring = tc.rings.remove(0);
                let mut net = ring.network.clone();
                assert_eq!(net.peers.len(), peer_table(srv).len());
                for (i, p) in net.peers.iter_mut().enumerate() {
                    assert!(p.certificate.is_some());
                    p.certificate = if mask >> i & 1 == 1 { None } else { Some(cert_der(peer_table(srv)[i].2)) };
                }
                let first = ring.servers.into_iter().next().unwrap();
                let mut cfg = first.config.clone();
                assert!(!cfg.disable_https);
                let listener = match start {
                    Start::PreBound => first.socket,
                    Start::SelfBound => {
                        cfg.port = None;
                        None
                    }
                };
                let server = IpaHttpServer::new_mpc(Arc::clone(&w.mpc_tls.transport), cfg, net);
                let r = vlib::catch_fut(server.start_on(&rt, listener, ())).await;
                r.map(|(addr, _join)| (addr.port(), Keep::_H(server)))
            }
            Srv::Shard => {
                let tc = TestConfig::builder().with_shard_count(2).build();
                let [tn, ..] = tc.shards;
                let mut net = tn.network.clone();
                assert_eq!(net.peers.len(), peer_table(srv).len());
                for (i, p) in net.peers.iter_mut().enumerate() {
                    assert!(p.certificate.is_some());
                    p.certificate = if mask >> i & 1 == 1 { None } else { Some(cert_der(peer_table(srv)[i].2)) };
                }
                let first = tn.servers.into_iter().next().unwrap();
                let mut cfg = first.config.clone();
                assert!(!cfg.disable_https);
                let listener = match start {
                    Start::PreBound => first.socket,
                    Start::SelfBound => {
                        cfg.port = None;
                        None
                    }
                };
                let server = IpaHttpServer::new_shards(Arc::clone(&w.shard_tls.transport), cfg, net);
                let r = vlib::catch_fut(server.start_on(&rt, listener, ())).await;
                r.map(|(addr, _join)| (addr.port(), Keep::_S(server)))
            }
        }
    }

    #[test]
    fn verif_c20_unpinned_peers() {
        const TEST: &str = "unpinned";
        let mut rec = Recorder::new("C20", "verif_c20_unpinned_peers");
        let Some(s) = setup(&mut rec) else { return rec.finish() };
        // protected routes, plus the echo route as a witness that report-collector routes stay reachable
        let routes: Vec<RouteCase> = route_cases(&s.inv).into_iter().filter(|r| !r.allow || r.tmpl.full == "/echo").collect();
        struct UC {
            idx: usize,
            srv: Srv,
            mask: u32,
            start: Start,
            ri: usize,
            /// 0 = no certificate, 1..=n = certificate of peer i-1, n+1 = a certificate that is in nobody's configuration
            client: usize,
            wire: Wire,
        }
        let wires: &[Wire] = if s.env.thorough { &Wire::ALL } else { &[Wire::H1Origin, Wire::H2Https] };
        let mut cases: Vec<UC> = Vec::new();
        for srv in [Srv::Mpc, Srv::Shard] {
            let n = peer_table(srv).len();
            for mask in 0..(1u32 << n) {
                for start in Start::ALL {
                    for (ri, rc) in routes.iter().enumerate() {
                        if rc.tmpl.srv != srv {
                            continue;
                        }
                        for client in 0..n + 2 {
                            for wire in wires {
                                cases.push(UC { idx: cases.len(), srv, mask, start, ri, client, wire: *wire });
                            }
                        }
                    }
                }
            }
        }
        // one world: the variant servers are started both ways on its TLS transports
        run(async {
            let w = World::new(Start::PreBound).await;
            let mut pool = RawPool::default();
            let mut refs = BTreeMap::new();
            let mut io_errors = 0u64;
            let mut servers: BTreeMap<(Srv, u32, Start), Option<(u16, Keep)>> = BTreeMap::new();
            let wanted = starts();
            for c in &cases {
                if !s.env.mine(c.idx) || s.only.is_some_and(|o| o != c.idx) || !wanted.contains(&c.start) {
                    continue;
                }
                let srv = c.srv;
                let peers = peer_table(srv);
                let config = config_name(srv, c.mask);
                let all_unpinned = c.mask == (1 << peers.len()) - 1;
                if !servers.contains_key(&(srv, c.mask, c.start)) {
                    let started = match start_variant(&w, srv, c.mask, c.start).await {
                        Ok(x) => {
                            rec.seen("unpinned_configs", format!("{}/{config}/{}", srv.name(), c.start.name()));
                            Some(x)
                        }
                        Err(msg) => {
                            // A server that refuses to start is a loud rejection of the configuration, not a hole.
                            rec.seen("unpinned_configs_refused_at_startup", format!("{}/{config}/{}: {}", srv.name(), c.start.name(), msg.chars().take(120).collect::<String>()));
                            if !all_unpinned {
                                rec.inconclusive(format!("server with configuration {config} did not start: {msg}"));
                            }
                            None
                        }
                    };
                    servers.insert((srv, c.mask, c.start), started);
                }
                let Some((port, _)) = &servers[&(srv, c.mask, c.start)] else {
                    rec.eval();
                    rec.count("unpinned_cases_on_config_refused_at_startup");
                    rec.distinct(&(TEST, srv, &config, c.start, "refused-at-startup", c.idx));
                    continue;
                };
                let rc = &routes[c.ri];
                let Some(r) = route_reference(&w, &mut rec, &mut refs, c.ri, rc).await else { continue };
                rec.seen("routes", format!("{} {}", srv.name(), rc.tmpl.full));
                let (who, client, client_kind, expect): (Who, String, &'static str, Expect) = if c.client == 0 {
                    (Who::Anonymous, "anonymous".into(), "anonymous", Expect::Refuse { tls_failure_ok: false })
                } else if c.client <= peers.len() {
                    let (name, id, cert) = peers[c.client - 1];
                    if c.mask >> (c.client - 1) & 1 == 1 {
                        // the configuration does not pin this peer: its certificate is just some certificate
                        (Who::Cert(cert), format!("cert:{name}"), "cert:unpinned-peer", Expect::Refuse { tls_failure_ok: true })
                    } else {
                        (Who::Cert(cert), format!("cert:{name}"), "cert:pinned-peer", Expect::Accept { id: id.to_string() })
                    }
                } else {
                    // helper ring: all three unexpired test certificates belong to peers, the foreign one is an expired one; shard
                    // network: the third unexpired certificate
                    (Who::Cert(if srv == Srv::Mpc { FOREIGN_FOR_MPC } else { 2 }), "cert:foreign".into(), "cert:foreign", Expect::Refuse { tls_failure_ok: true })
                };
                // header variants: none, then the identity header naming an unpinned peer (if any; rotating), thorough: malformed too
                let unpinned: Vec<&str> = peers.iter().enumerate().filter(|(i, _)| c.mask >> i & 1 == 1).map(|(_, p)| p.1).collect();
                let claim = if unpinned.is_empty() { peers[c.idx % peers.len()].1 } else { unpinned[c.idx % unpinned.len()] };
                let hdr = id_header(srv);
                let mut hv: Vec<Option<(Hdr, &'static str, &str)>> = vec![None, Some((Hdr::Peer, hdr, claim))];
                if s.env.thorough {
                    hv.push(Some((Hdr::Malformed, hdr, "H1")));
                }
                let mut baseline: Option<Outcome> = None;
                for h in hv {
                    let p = P { test: TEST, case: c.idx, srv, tls: true, transport_tls: true, port: *port, start: c.start, config: &config, rc, reference: &r, who, client: &client, client_kind,
                        wire: c.wire, hdr: h, expect: expect.clone() };
                    let o = probe(&w, &mut pool, &mut rec, &s.env, &mut io_errors, &p, baseline.as_ref()).await;
                    if o.status.is_some() {
                        rec.seen("unpinned_configs_answered", format!("{}/{config}/{}/{client_kind}", srv.name(), c.start.name()));
                    }
                    if h.is_none() {
                        baseline = Some(o);
                    }
                }
                if io_errors > 20 {
                    break;
                }
            }
            rec.add("raw_connections_opened", pool.connects);
            rec.add("raw_connections_reopened", pool.reconnects);
        });
        rec.finish();
    }

    // -----------------------------------------------------------------------------------------
    // (e) HTTPS not disabled, TLS material missing or incomplete
    // -----------------------------------------------------------------------------------------

    use crate::config::{ServerConfig, TlsConfig};

    /// Server configurations with `disable_https: false` whose TLS material is missing or incomplete. Derived from the
    /// repository's own (complete, inline) test configuration.
    const INCOMPLETE_TLS: &[&str] = &[
        "tls-none",
        "tls-inline-cert-without-key",
        "tls-inline-key-without-cert",
        "tls-inline-empty",
        "tls-file-missing",
        "tls-file-cert-without-key",
        "tls-file-key-without-cert",
    ];

    fn incomplete_tls_dir() -> std::path::PathBuf {
        std::env::temp_dir().join(format!("verif-c20-incomplete-tls-{}", std::process::id()))
    }

    fn incomplete_tls(config: &str, complete: &ServerConfig) -> Option<TlsConfig> {
        let Some(TlsConfig::Inline { certificate, private_key }) = complete.tls.clone() else {
            panic!("the repository's test server configuration carries no inline TLS material");
        };
        assert!(certificate.contains("BEGIN CERTIFICATE") && private_key.contains("PRIVATE KEY"));
        let dir = incomplete_tls_dir();
        let file = |name: &str, content: Option<&str>| {
            let path = dir.join(name);
            if let Some(c) = content {
                std::fs::create_dir_all(&dir).unwrap();
                std::fs::write(&path, c).unwrap();
            } else {
                assert!(!path.exists());
            }
            path
        };
        match config {
            "tls-none" => None,
            "tls-inline-cert-without-key" => Some(TlsConfig::Inline { certificate, private_key: String::new() }),
            "tls-inline-key-without-cert" => Some(TlsConfig::Inline { certificate: String::new(), private_key }),
            "tls-inline-empty" => Some(TlsConfig::Inline { certificate: String::new(), private_key: String::new() }),
            "tls-file-missing" => Some(TlsConfig::File { certificate_file: file("absent-cert.pem", None), private_key_file: file("absent-key.pem", None) }),
            "tls-file-cert-without-key" => Some(TlsConfig::File { certificate_file: file("cert.pem", Some(&certificate)), private_key_file: file("absent-key.pem", None) }),
            "tls-file-key-without-cert" => Some(TlsConfig::File { certificate_file: file("absent-cert.pem", None), private_key_file: file("key.pem", Some(&private_key)) }),
            other => panic!("unknown incomplete TLS configuration {other}"),
        }
    }

    /// A further server on the transport (request handler, record streams) of the world's TLS `TestServer`, built from the
    /// repository's own test configuration (fully pinned peers, HTTPS *not* disabled) in which the server's own TLS
    /// material is replaced by `config`. `Err` = `start_on` panicked (message).
    async fn start_incomplete(w: &World, srv: Srv, config: &str, start: Start) -> Result<(u16, Keep), String> {
        let rt = IpaRuntime::current();
        match srv {
            Srv::Mpc => {
                let mut tc = TestConfig::builder().build();
                let ring = tc.rings.remove(0);
                let net = ring.network.clone();
                let first = ring.servers.into_iter().next().unwrap();
                let mut cfg = first.config.clone();
                assert!(!cfg.disable_https);
                cfg.tls = incomplete_tls(config, &cfg);
                let listener = match start {
                    Start::PreBound => first.socket,
                    Start::SelfBound => {
                        cfg.port = None;
                        None
                    }
                };
                assert!(!cfg.disable_https);
                let server = IpaHttpServer::new_mpc(Arc::clone(&w.mpc_tls.transport), cfg, net);
                let r = vlib::catch_fut(server.start_on(&rt, listener, ())).await;
                r.map(|(addr, _join)| (addr.port(), Keep::_H(server)))
            }
            Srv::Shard => {
                let tc = TestConfig::builder().with_shard_count(2).build();
                let [tn, ..] = tc.shards;
                let net = tn.network.clone();
                let first = tn.servers.into_iter().next().unwrap();
                let mut cfg = first.config.clone();
                assert!(!cfg.disable_https);
                cfg.tls = incomplete_tls(config, &cfg);
                let listener = match start {
                    Start::PreBound => first.socket,
                    Start::SelfBound => {
                        cfg.port = None;
                        None
                    }
                };
                assert!(!cfg.disable_https);
                let server = IpaHttpServer::new_shards(Arc::clone(&w.shard_tls.transport), cfg, net);
                let r = vlib::catch_fut(server.start_on(&rt, listener, ())).await;
                r.map(|(addr, _join)| (addr.port(), Keep::_S(server)))
            }
        }
    }

    struct Started {
        port: u16,
        _keep: Keep,
        speaks_plain: bool,
        speaks_tls: bool,
    }

    #[test]
    fn verif_c20_incomplete_tls_config() {
        const TEST: &str = "incomplete_tls";
        let mut rec = Recorder::new("C20", "verif_c20_incomplete_tls_config");
        let Some(s) = setup(&mut rec) else { return rec.finish() };
        // protected routes, plus the echo route as a witness that report-collector routes stay reachable
        let routes: Vec<RouteCase> = route_cases(&s.inv).into_iter().filter(|r| !r.allow || r.tmpl.full == "/echo").collect();
        /// how the caller connects: 0 = plain HTTP, 1 = TLS without client certificate, 2 = TLS with a certificate that is in
        /// nobody's configuration
        const CLIENTS: usize = 3;
        struct IC {
            idx: usize,
            srv: Srv,
            config: &'static str,
            start: Start,
            ri: usize,
            client: usize,
            wire: Wire,
        }
        let mut cases: Vec<IC> = Vec::new();
        for srv in [Srv::Mpc, Srv::Shard] {
            for config in INCOMPLETE_TLS {
                for start in Start::ALL {
                    for (ri, rc) in routes.iter().enumerate() {
                        if rc.tmpl.srv != srv {
                            continue;
                        }
                        for client in 0..CLIENTS {
                            let wires: &[Wire] = match (s.env.thorough, client) {
                                (true, _) => &Wire::ALL,
                                (false, 0) => &[Wire::H1Origin, Wire::H2Http],
                                (false, _) => &[Wire::H1Origin, Wire::H2Https],
                            };
                            for wire in wires {
                                cases.push(IC { idx: cases.len(), srv, config, start, ri, client, wire: *wire });
                            }
                        }
                    }
                }
            }
        }
        run(async {
            let w = World::new(Start::PreBound).await;
            let mut pool = RawPool::default();
            let mut refs = BTreeMap::new();
            let mut io_errors = 0u64;
            let mut servers: BTreeMap<(Srv, &'static str, Start), Option<Started>> = BTreeMap::new();
            let wanted = starts();
            for c in &cases {
                if !s.env.mine(c.idx) || s.only.is_some_and(|o| o != c.idx) || !wanted.contains(&c.start) {
                    continue;
                }
                let srv = c.srv;
                let key = format!("{}/{}/{}", srv.name(), c.config, c.start.name());
                if !servers.contains_key(&(srv, c.config, c.start)) {
                    rec.seen("incomplete_tls_configs", key.clone());
                    let started = match start_incomplete(&w, srv, c.config, c.start).await {
                        Ok((port, keep)) => {
                            // which protocol does the listener speak? (any answer on the echo route counts)
                            let none = (Vec::new(), None);
                            let plain = pool.send(port, false, Who::Anonymous, Wire::H1Origin, "GET", "/echo?foo=1", &none, &[]).await;
                            let tls = pool.send(port, true, Who::Anonymous, Wire::H1Origin, "GET", "/echo?foo=1", &none, &[]).await;
                            let (sp, st) = (plain.status.is_some(), tls.status.is_some());
                            let speaks = match (sp, st) {
                                (true, true) => "http+https",
                                (true, false) => "http",
                                (false, true) => "https",
                                (false, false) => "unreachable",
                            };
                            rec.seen("incomplete_tls_configs_started", format!("{key}: {speaks}"));
                            if !sp && !st {
                                // listening, but nobody gets an answer (e.g. TLS without a usable certificate): nothing is exposed
                                rec.seen("incomplete_tls_configs_decided", key.clone());
                                rec.note(format!("server with configuration {key} started but answers neither plain HTTP ({:?}) nor TLS ({:?})", plain.err, tls.err));
                            }
                            Some(Started { port, _keep: keep, speaks_plain: sp, speaks_tls: st })
                        }
                        Err(msg) => {
                            // A server that refuses to start is a loud rejection of the configuration: nothing is exposed.
                            rec.seen("incomplete_tls_configs_refused_at_startup", format!("{key}: {}", msg.chars().take(120).collect::<String>()));
                            rec.seen("incomplete_tls_configs_decided", key.clone());
                            None
                        }
                    };
                    servers.insert((srv, c.config, c.start), started);
                }
                let Some(sv) = &servers[&(srv, c.config, c.start)] else {
                    rec.eval();
                    rec.count("incomplete_tls_refused_at_startup");
                    rec.distinct(&(TEST, srv, c.config, c.start, "refused-at-startup", c.idx));
                    continue;
                };
                let tls = c.client != 0;
                if (tls && !sv.speaks_tls) || (!tls && !sv.speaks_plain) {
                    rec.count("incomplete_tls_cases_protocol_not_spoken");
                    continue;
                }
                let rc = &routes[c.ri];
                let Some(r) = route_reference(&w, &mut rec, &mut refs, c.ri, rc).await else { continue };
                rec.seen("routes", format!("{} {}", srv.name(), rc.tmpl.full));
                let (who, client, client_kind, expect): (Who, &str, &'static str, Expect) = match c.client {
                    0 | 1 => (Who::Anonymous, "anonymous", "anonymous", Expect::Refuse { tls_failure_ok: false }),
                    _ => (Who::Cert(if srv == Srv::Mpc { FOREIGN_FOR_MPC } else { 2 }), "cert:foreign", "cert:foreign", Expect::Refuse { tls_failure_ok: true }),
                };
                // header variants: none (baseline), the identity header naming every helper / shard, then malformed and the other
                // flavour's header (quick: one of the two, rotating)
                let hdr = id_header(srv);
                let other = (id_header(if srv == Srv::Mpc { Srv::Shard } else { Srv::Mpc }), if srv == Srv::Mpc { "0" } else { "A" });
                let mut hv: Vec<Option<(Hdr, &'static str, &str)>> = vec![None];
                hv.extend(spoof_values(srv).iter().map(|v| Some((Hdr::Peer, hdr, *v))));
                if s.env.thorough || c.idx % 2 == 0 {
                    hv.push(Some((Hdr::Malformed, hdr, ["H1", "", "-1", "AA"][c.idx % 4])));
                }
                if s.env.thorough || c.idx % 2 == 1 {
                    hv.push(Some((Hdr::OtherFlavour, other.0, other.1)));
                }
                let mut baseline: Option<Outcome> = None;
                for h in hv {
                    let p = P { test: TEST, case: c.idx, srv, tls, transport_tls: true, port: sv.port, start: c.start, config: c.config, rc, reference: &r, who, client, client_kind,
                        wire: c.wire, hdr: h, expect: expect.clone() };
                    let o = probe(&w, &mut pool, &mut rec, &s.env, &mut io_errors, &p, baseline.as_ref()).await;
                    if o.status.is_some() || (o.err.is_some() && c.client == 2) {
                        rec.seen("incomplete_tls_configs_decided", key.clone());
                        rec.count("incomplete_tls_probes_judged");
                    }
                    if h.is_none() {
                        baseline = Some(o);
                    }
                }
                if io_errors > 20 {
                    break;
                }
            }
            rec.add("raw_connections_opened", pool.connects);
            rec.add("raw_connections_reopened", pool.reconnects);
        });
        let _ = std::fs::remove_dir_all(incomplete_tls_dir());
        rec.finish();
    }
}
