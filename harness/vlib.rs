// Shared harness library: environment, evidence recorder, panic capture, executors.
//
// Contract with the python driver (`/verif/check`):
//  * env VERIF_OUT     : path of a JSONL file this process appends summaries to
//  * env VERIF_WITNESS : directory for witness (replay) files
//  * env VERIF_SEED    : integer seed for every random choice
//  * env VERIF_TIER    : quick | thorough
//  * env VERIF_SHARD   : "i/N" – this process owns cases with index % N == i
//  * env VERIF_REPLAY  : optional path of a witness file to replay
// A harness test never reports a violation by panicking: it calls `Recorder::violation`.
// A panic of the harness itself makes the process exit non-zero => inconclusive.

use std::{
    cell::Cell,
    collections::{BTreeMap, HashSet},
    future::Future,
    hash::{Hash, Hasher},
    io::Write,
    panic::{AssertUnwindSafe, UnwindSafe},
    pin::Pin,
    sync::{Arc, Mutex, Once},
    task::{Context as TaskContext, Poll, Wake, Waker},
    time::{Duration, Instant},
};

use serde_json::{Value, json};

// ---------------------------------------------------------------------------------------------
// environment
// ---------------------------------------------------------------------------------------------

#[derive(Clone, Debug)]
pub struct Env {
    pub seed: u64,
    pub thorough: bool,
    pub shard: usize,
    pub shards: usize,
    pub replay: Option<String>,
}

pub fn env() -> Env {
    let seed = std::env::var("VERIF_SEED")
        .ok()
        .and_then(|s| s.trim().parse::<i128>().ok())
        .map(|v| v as u64)
        .unwrap_or(1);
    let thorough = std::env::var("VERIF_TIER").map(|t| t == "thorough").unwrap_or(false);
    let (shard, shards) = std::env::var("VERIF_SHARD")
        .ok()
        .and_then(|s| {
            let (a, b) = s.split_once('/')?;
            Some((a.parse().ok()?, b.parse().ok()?))
        })
        .unwrap_or((0, 1));
    let replay = std::env::var("VERIF_REPLAY").ok().filter(|s| !s.is_empty());
    Env { seed, thorough, shard, shards, replay }
}

impl Env {
    /// Does this process own case `idx`?
    pub fn mine(&self, idx: usize) -> bool {
        idx % self.shards == self.shard
    }
    pub fn pick<T>(&self, quick: T, thorough: T) -> T {
        if self.thorough { thorough } else { quick }
    }
}

pub fn fxhash<T: Hash>(v: &T) -> u64 {
    let mut h = std::collections::hash_map::DefaultHasher::new();
    v.hash(&mut h);
    h.finish()
}

/// Deterministic splitmix64-based RNG for harness decisions (independent of crate::rand, which is
/// swapped out under shuttle).
#[derive(Clone, Debug)]
pub struct VRng(pub u64);
impl VRng {
    pub fn new(seed: u64, stream: u64) -> Self {
        let mut r = VRng(seed ^ stream.wrapping_mul(0x9E37_79B9_7F4A_7C15) ^ 0xD1B5_4A32_D192_ED03);
        r.next();
        r
    }
    pub fn next(&mut self) -> u64 {
        self.0 = self.0.wrapping_add(0x9E37_79B9_7F4A_7C15);
        let mut z = self.0;
        z = (z ^ (z >> 30)).wrapping_mul(0xBF58_476D_1CE4_E5B9);
        z = (z ^ (z >> 27)).wrapping_mul(0x94D0_49BB_1331_11EB);
        z ^ (z >> 31)
    }
    pub fn below(&mut self, n: u64) -> u64 {
        if n == 0 { 0 } else { self.next() % n }
    }
    pub fn range(&mut self, lo: u64, hi_incl: u64) -> u64 {
        lo + self.below(hi_incl - lo + 1)
    }
    pub fn bool(&mut self) -> bool {
        self.next() & 1 == 1
    }
    pub fn u128(&mut self) -> u128 {
        (u128::from(self.next()) << 64) | u128::from(self.next())
    }
    pub fn bytes(&mut self, n: usize) -> Vec<u8> {
        (0..n).map(|_| self.next() as u8).collect()
    }
    pub fn shuffle<T>(&mut self, v: &mut [T]) {
        for i in (1..v.len()).rev() {
            let j = self.below(i as u64 + 1) as usize;
            v.swap(i, j);
        }
    }
    pub fn choose<'a, T>(&mut self, v: &'a [T]) -> &'a T {
        &v[self.below(v.len() as u64) as usize]
    }
}

impl rand::RngCore for VRng {
    fn next_u32(&mut self) -> u32 {
        self.next() as u32
    }
    fn next_u64(&mut self) -> u64 {
        self.next()
    }
    fn fill_bytes(&mut self, dest: &mut [u8]) {
        for chunk in dest.chunks_mut(8) {
            let v = self.next().to_le_bytes();
            chunk.copy_from_slice(&v[..chunk.len()]);
        }
    }
    fn try_fill_bytes(&mut self, dest: &mut [u8]) -> Result<(), rand::Error> {
        self.fill_bytes(dest);
        Ok(())
    }
}
// test-only: lets the harness RNG be passed where the crate wants a CryptoRng (encryption, sharing)
impl rand::CryptoRng for VRng {}

pub fn hex(b: &[u8]) -> String {
    hex::encode(b)
}

// ---------------------------------------------------------------------------------------------
// evidence recorder
// ---------------------------------------------------------------------------------------------

const DISTINCT_CAP: usize = 200_000;
const SAMPLE_CAP: usize = 6;

/// Per-test, in-process aggregation of what a monitor observed. `finish()` appends one JSON line
/// to $VERIF_OUT; the driver merges lines from all processes into evidence/<id>.json.
pub struct Recorder {
    prop: &'static str,
    test: &'static str,
    start: Instant,
    evaluations: u64,
    distinct: HashSet<u64>,
    distinct_overflow: u64,
    samples: Vec<Value>,
    counters: BTreeMap<String, u64>,
    sets: BTreeMap<String, std::collections::BTreeSet<String>>,
    violations: Vec<Value>,
    inconclusive: Vec<String>,
    notes: Vec<String>,
    finished: bool,
}

impl Recorder {
    pub fn new(prop: &'static str, test: &'static str) -> Self {
        quiet_panics();
        Recorder {
            prop,
            test,
            start: Instant::now(),
            evaluations: 0,
            distinct: HashSet::new(),
            distinct_overflow: 0,
            samples: Vec::new(),
            counters: BTreeMap::new(),
            sets: BTreeMap::new(),
            violations: Vec::new(),
            inconclusive: Vec::new(),
            notes: Vec::new(),
            finished: false,
        }
    }

    /// One execution / evaluation of the oracle.
    pub fn eval(&mut self) {
        self.evaluations += 1;
    }
    pub fn evals(&mut self, n: u64) {
        self.evaluations += n;
    }
    /// Register a case as distinct & non-trivial under `key`.
    pub fn distinct<K: Hash>(&mut self, key: &K) {
        let h = fxhash(&(self.test, fxhash(key)));
        if self.distinct.len() < DISTINCT_CAP {
            self.distinct.insert(h);
        } else if !self.distinct.contains(&h) {
            self.distinct_overflow += 1;
        }
    }
    pub fn sample(&mut self, v: Value) {
        if self.samples.len() < SAMPLE_CAP {
            self.samples.push(v);
        }
    }
    pub fn want_sample(&self) -> bool {
        self.samples.len() < SAMPLE_CAP
    }
    pub fn count(&mut self, key: &str) {
        self.add(key, 1);
    }
    pub fn add(&mut self, key: &str, n: u64) {
        *self.counters.entry(key.to_string()).or_insert(0) += n;
    }
    /// Named set of observed things (steps seen, channels, verdict classes …); merged by union.
    pub fn seen(&mut self, set: &str, item: impl Into<String>) {
        let s = self.sets.entry(set.to_string()).or_default();
        if s.len() < 4000 {
            s.insert(item.into());
        }
    }
    pub fn note(&mut self, s: impl Into<String>) {
        self.notes.push(s.into());
    }
    pub fn n_violations(&self) -> usize {
        self.violations.len()
    }

    /// A violation. `sig` = exact observable facts used for known-finding matching;
    /// `witness` = everything needed to replay.
    pub fn violation(&mut self, what: &str, sig: Value, witness: Value) {
        let w = json!({
            "property": self.prop,
            "test": self.test,
            "what": what,
            "sig": sig,
            "witness": witness,
            "seed": env().seed,
            "tier": if env().thorough { "thorough" } else { "quick" },
            "build": std::env::var("VERIF_BUILD").unwrap_or_else(|_| "b1".into()),
        });
        if self.violations.len() < 50 {
            let dir = std::env::var("VERIF_WITNESS").unwrap_or_else(|_| "/tmp".into());
            let name = format!(
                "{}/{}-{}-{:016x}.json",
                dir,
                self.prop,
                self.test,
                fxhash(&w.to_string())
            );
            let _ = std::fs::create_dir_all(&dir);
            let _ = std::fs::write(&name, serde_json::to_string_pretty(&w).unwrap());
            let mut w2 = w;
            w2["path"] = json!(name);
            // keep the summary line small
            w2["witness"] = Value::Null;
            self.violations.push(w2);
        } else {
            self.add("violations_not_listed", 1);
        }
    }
    pub fn inconclusive(&mut self, why: impl Into<String>) {
        if self.inconclusive.len() < 20 {
            self.inconclusive.push(why.into());
        }
    }

    pub fn finish(mut self) {
        self.finished = true;
        let mut keys: Vec<u64> = self.distinct.iter().copied().collect();
        keys.sort_unstable();
        let line = json!({
            "prop": self.prop,
            "test": self.test,
            "shard": env().shard,
            "evaluations": self.evaluations,
            "distinct": keys.iter().map(|k| format!("{k:x}")).collect::<Vec<_>>(),
            "distinct_overflow": self.distinct_overflow,
            "samples": self.samples,
            "counters": self.counters,
            "sets": self.sets,
            "violations": self.violations,
            "inconclusive": self.inconclusive,
            "notes": self.notes,
            "wall_s": self.start.elapsed().as_secs_f64(),
        });
        emit_line(&line);
    }
}

impl Drop for Recorder {
    fn drop(&mut self) {
        if !self.finished && !std::thread::panicking() {
            eprintln!("verif: Recorder for {} / {} dropped without finish()", self.prop, self.test);
        }
    }
}

pub fn emit_line(v: &Value) {
    static LOCK: Mutex<()> = Mutex::new(());
    let _g = LOCK.lock().unwrap_or_else(|e| e.into_inner());
    match std::env::var("VERIF_OUT") {
        Ok(p) if !p.is_empty() => {
            let mut f = std::fs::OpenOptions::new()
                .create(true)
                .append(true)
                .open(&p)
                .expect("open VERIF_OUT");
            writeln!(f, "{v}").expect("write VERIF_OUT");
        }
        _ => println!("VERIF-OUT {v}"),
    }
}

// ---------------------------------------------------------------------------------------------
// panic capture
// ---------------------------------------------------------------------------------------------

thread_local! {
    static QUIET: Cell<u32> = const { Cell::new(0) };
}

/// Installs (once) a panic hook that stays silent while the current thread is inside `catch`
/// or when VERIF_QUIET_PANICS is set for the process (worker threads of spawned tasks).
pub fn quiet_panics() {
    static ONCE: Once = Once::new();
    ONCE.call_once(|| {
        let default = std::panic::take_hook();
        let global_quiet = std::env::var("VERIF_LOUD").is_err();
        std::panic::set_hook(Box::new(move |info| {
            let quiet = QUIET.with(Cell::get) > 0;
            let harness = std::thread::current()
                .name()
                .map(|n| n.contains("verif_"))
                .unwrap_or(false);
            if quiet {
                return;
            }
            if global_quiet && !harness {
                // a panic on a runtime worker / spawned task: keep one line, no backtrace
                let loc = info.location().map(|l| format!("{}:{}", l.file(), l.line()));
                eprintln!("verif: (task panic at {loc:?})");
                return;
            }
            default(info);
        }));
    });
}

pub fn panic_message(p: &(dyn std::any::Any + Send)) -> String {
    if let Some(s) = p.downcast_ref::<&'static str>() {
        (*s).to_string()
    } else if let Some(s) = p.downcast_ref::<String>() {
        s.clone()
    } else {
        "<non-string panic payload>".to_string()
    }
}

/// Run `f`, turning a panic into `Err(message)`; silent.
pub fn catch<T>(f: impl FnOnce() -> T) -> Result<T, String> {
    quiet_panics();
    QUIET.with(|q| q.set(q.get() + 1));
    let r = std::panic::catch_unwind(AssertUnwindSafe(f));
    QUIET.with(|q| q.set(q.get() - 1));
    r.map_err(|p| panic_message(&*p))
}

/// Future adaptor: a panic while polling the inner future resolves to `Err(message)`.
pub struct CatchPanic<F>(pub Pin<Box<F>>);
impl<F: Future> Future for CatchPanic<F> {
    type Output = Result<F::Output, String>;
    fn poll(mut self: Pin<&mut Self>, cx: &mut TaskContext<'_>) -> Poll<Self::Output> {
        let inner = self.0.as_mut();
        match catch(|| inner.poll(cx)) {
            Ok(Poll::Pending) => Poll::Pending,
            Ok(Poll::Ready(v)) => Poll::Ready(Ok(v)),
            Err(m) => Poll::Ready(Err(m)),
        }
    }
}
pub fn catch_fut<F: Future>(f: F) -> CatchPanic<F> {
    CatchPanic(Box::pin(f))
}

// ---------------------------------------------------------------------------------------------
// executors
// ---------------------------------------------------------------------------------------------

/// Outcome of running a future on the paused-clock runtime.
pub enum Paused<T> {
    Done(T),
    /// every task idle (tokio advanced virtual time past the watchdog) without completion
    Quiescent,
}

/// E-paused: current-thread tokio runtime with a paused clock. Time only advances when no task is
/// runnable, hence the virtual watchdog fires iff the system is quiescent-but-not-finished.
#[cfg(not(feature = "shuttle"))]
pub fn run_paused<F: Future>(virtual_watchdog: Duration, f: F) -> Paused<F::Output> {
    let rt = tokio::runtime::Builder::new_current_thread()
        .enable_time()
        .start_paused(true)
        .build()
        .unwrap();
    let mut fut = Box::pin(f);
    let r = rt.block_on(async {
        match tokio::time::timeout(virtual_watchdog, fut.as_mut()).await {
            Ok(v) => Paused::Done(v),
            Err(_) => Paused::Quiescent,
        }
    });
    // Dropping an unfinished protocol future may trip drop guards of the code under test (e.g. the DZKP
    // validator panics when dropped with unverified multiplications): that is not a harness failure.
    {
        let _g = rt.enter();
        let _ = catch(move || drop(fut));
    }
    // tasks still parked (e.g. after quiescence) are dropped here, without waiting
    rt.shutdown_background();
    r
}

/// E-mt: multi-thread runtime with `workers` threads. No verdict is derived from wall time here;
/// the optional deadline only classifies the run as "did not finish in time" (inconclusive).
#[cfg(not(feature = "shuttle"))]
pub fn run_mt<F: Future>(workers: usize, wall_deadline: Duration, f: F) -> Option<F::Output> {
    let rt = tokio::runtime::Builder::new_multi_thread()
        .worker_threads(workers)
        .thread_name("verif_mt_worker")
        .enable_time()
        .build()
        .unwrap();
    let mut fut = Box::pin(f);
    let r = rt.block_on(async { tokio::time::timeout(wall_deadline, fut.as_mut()).await.ok() });
    {
        let _g = rt.enter();
        let _ = catch(move || drop(fut));
    }
    rt.shutdown_background();
    r
}

/// Run-until-idle primitive for use inside `run_paused`.
#[cfg(not(feature = "shuttle"))]
pub async fn settle() {
    tokio::time::sleep(Duration::from_nanos(1)).await;
}

// ---- E-manual: a deterministic poll scheduler -------------------------------------------------

struct FlagWaker {
    id: usize,
    ready: Arc<Mutex<Vec<usize>>>,
    /// generation of the poll this waker was handed to
    generation: u64,
    /// generation of the latest poll of the task
    current: Arc<std::sync::atomic::AtomicU64>,
    stale: Arc<std::sync::atomic::AtomicU64>,
}
impl Wake for FlagWaker {
    fn wake(self: Arc<Self>) {
        self.wake_by_ref();
    }
    fn wake_by_ref(self: &Arc<Self>) {
        use std::sync::atomic::Ordering::SeqCst;
        // `Future::poll`: only the waker of the most recent poll has to be woken. Every poll hands out a new
        // waker; a wake through one from an earlier poll is counted and otherwise ignored, which is the
        // least a legal executor (or a future that moved to another task) may do.
        if self.current.load(SeqCst) != self.generation {
            self.stale.fetch_add(1, SeqCst);
            return;
        }
        let mut q = self.ready.lock().unwrap();
        if !q.contains(&self.id) {
            q.push(self.id);
        }
    }
}

/// A set of futures polled one at a time; the order in which *ready* (woken) tasks are polled is
/// chosen by the caller through `pick` (index into the current ready list).
pub struct Manual<'a, T> {
    tasks: Vec<Option<Pin<Box<dyn Future<Output = T> + 'a>>>>,
    results: Vec<Option<T>>,
    ready: Arc<Mutex<Vec<usize>>>,
    generations: Vec<Arc<std::sync::atomic::AtomicU64>>,
    stale: Arc<std::sync::atomic::AtomicU64>,
    pub polls: u64,
    pub trace: Vec<usize>,
}

impl<'a, T> Manual<'a, T> {
    pub fn new() -> Self {
        Manual {
            tasks: Vec::new(),
            results: Vec::new(),
            ready: Arc::new(Mutex::new(Vec::new())),
            generations: Vec::new(),
            stale: Arc::new(std::sync::atomic::AtomicU64::new(0)),
            polls: 0,
            trace: Vec::new(),
        }
    }
    /// Wakes that arrived through the waker of an earlier poll of a task that had been polled again since.
    pub fn stale_wakes(&self) -> u64 {
        self.stale.load(std::sync::atomic::Ordering::SeqCst)
    }
    pub fn spawn(&mut self, f: impl Future<Output = T> + 'a) -> usize {
        let id = self.tasks.len();
        self.tasks.push(Some(Box::pin(f)));
        self.results.push(None);
        self.generations.push(Arc::new(std::sync::atomic::AtomicU64::new(0)));
        self.ready.lock().unwrap().push(id);
        id
    }
    pub fn is_done(&self, id: usize) -> bool {
        self.results[id].is_some()
    }
    pub fn all_done(&self) -> bool {
        self.tasks.iter().all(Option::is_none)
    }
    pub fn result(&self, id: usize) -> Option<&T> {
        self.results[id].as_ref()
    }
    pub fn take_results(self) -> Vec<Option<T>> {
        self.results
    }
    pub fn ready_ids(&self) -> Vec<usize> {
        self.ready.lock().unwrap().clone()
    }
    /// Poll task `id` once (whether or not it was woken). Returns true if it completed.
    pub fn poll_task(&mut self, id: usize) -> bool {
        self.ready.lock().unwrap().retain(|x| *x != id);
        let Some(task) = self.tasks[id].as_mut() else { return true };
        let generation = self.generations[id].fetch_add(1, std::sync::atomic::Ordering::SeqCst) + 1;
        let waker = Waker::from(Arc::new(FlagWaker {
            id,
            ready: Arc::clone(&self.ready),
            generation,
            current: Arc::clone(&self.generations[id]),
            stale: Arc::clone(&self.stale),
        }));
        let mut cx = TaskContext::from_waker(&waker);
        self.polls += 1;
        self.trace.push(id);
        match task.as_mut().poll(&mut cx) {
            Poll::Ready(v) => {
                self.results[id] = Some(v);
                self.tasks[id] = None;
                true
            }
            Poll::Pending => false,
        }
    }
    /// One scheduling step: pick a ready task by `pick(ready_list) -> position`. Returns false
    /// when nothing is ready (quiescent).
    pub fn step(&mut self, pick: &mut dyn FnMut(&[usize]) -> usize) -> bool {
        let ready = self.ready_ids();
        let ready: Vec<usize> = ready.into_iter().filter(|i| self.tasks[*i].is_some()).collect();
        if ready.is_empty() {
            self.ready.lock().unwrap().clear();
            return false;
        }
        let pos = pick(&ready).min(ready.len() - 1);
        let id = ready[pos];
        self.poll_task(id);
        true
    }
    /// Run until all tasks are done or nothing is ready. Returns true when all done.
    pub fn run(&mut self, pick: &mut dyn FnMut(&[usize]) -> usize, max_polls: u64) -> bool {
        let start = self.polls;
        while !self.all_done() {
            if self.polls - start >= max_polls {
                return false;
            }
            if !self.step(pick) {
                return false;
            }
        }
        true
    }
}

/// Poll a single future to completion with a no-op waker, failing if it returns Pending more than
/// `max_pending` times in a row (for futures that must be immediately ready).
pub fn poll_now<F: Future>(f: F) -> Option<F::Output> {
    let mut f = std::pin::pin!(f);
    let waker = futures::task::noop_waker();
    let mut cx = TaskContext::from_waker(&waker);
    for _ in 0..10_000 {
        if let Poll::Ready(v) = f.as_mut().poll(&mut cx) {
            return Some(v);
        }
    }
    None
}
