// Included by hook H4 inside `crate::protocol::dp` (access to the private noise sampler).
