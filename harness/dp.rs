// Included by hook H4 inside `crate::protocol::dp` (access to the private noise sampler).
#[cfg(descriptive_gate)]
pub(crate) mod c12 {
    include!(concat!(env!("IPA_VERIF_DIR"), "/harness/c12.rs"));
}
