// C15 Sequential join: input order, bounded window, progress, first error.
//
// Tasks are harness futures (`GateTask`) that complete when the test opens their gate and/or when
// another task has completed (dependency chains). The source of tasks is a harness stream
// (`GateSource`, items optionally behind their own gates => the source returns Pending between
// items) or a harness iterator (`GateIter`, for the IntoIterator based entry points). Everything
// is logged under one lock with one logical clock (`State`); the monitor is evaluated by the
// consumer after every `poll_next` of the stream returned by `seq_join`:
//   (1) order / exactly once      : the k-th item yielded is the result of input task k
//   (2) window                    : at every pull from the source  pulled - yielded <= w; at every
//                                   Pending return  pulled - yielded >= min(w, available - yielded)
//                                   and every task in the window has been polled at least once
//   (3) keeps polling             : a task that was woken before a poll_next that returned Pending
//                                   was polled again during that call
//   (4) progress                  : run to quiescence with vlib::Manual after every scheduled
//                                   action; quiescent with completable-but-unyielded tasks (or not
//                                   finished when everything is completable) is the violation.
//                                   Dependencies have distance <= w-1 only.
//   (5) seq_try_join_all/try_join : result == Err(first error in input order) as soon as all tasks
//                                   up to it can complete (later tasks need not), else Ok(all)
//   (6) parallel_join             : Ok(all in input order) or a first error
//   (7) validated_seq_join        : same order / window / polling monitors through the real DZKP
//                                   validators (E-paused); must end or yield the error once every
//                                   task has completed (mod `validated`)
// The same suite runs against the multi-threaded implementation on real multi-thread runtimes
// (mod `mt`, build b4); there only logical events decide and an expired wall deadline is inconclusive.
// "In flight" is read as "pulled from the source and result not yet yielded" (the window); tasks that
// completed out of order stay in the window until everything before them has been yielded. The
// number of Pending returns where fewer than min(w, remaining) tasks were *unfinished* for that
// reason is only counted (`window_slots_held_by_completed`).

use std::{
    future::Future,
    num::NonZeroUsize,
    pin::Pin,
    sync::{Arc, Mutex, MutexGuard},
    task::{Context, Poll, Waker},
};

use futures::{Stream, future::poll_fn};
use serde_json::{Value, json};

use super::vlib::{self, Manual, Recorder, VRng};
use crate::seq_join::{SeqJoin, seq_join, seq_try_join_all};

// ---------------------------------------------------------------------------------------------
// case description
// ---------------------------------------------------------------------------------------------

#[derive(Clone, Copy, Debug, PartialEq, Eq, Hash)]
enum Api {
    Stream,
    TryAll,
    TryTrait,
    Par,
}

impl Api {
    fn name(self) -> &'static str {
        match self {
            Api::Stream => "seq_join",
            Api::TryAll => "seq_try_join_all",
            Api::TryTrait => "SeqJoin::try_join",
            Api::Par => "SeqJoin::parallel_join",
        }
    }
}

#[derive(Clone, Copy, Debug, PartialEq, Eq, Hash)]
struct Spec {
    /// needs its gate opened by the test
    gate: bool,
    /// completes only after this task has completed
    dep: Option<usize>,
    /// resolves to Err(id) instead of Ok(id)
    err: bool,
}

#[derive(Clone, Copy, Debug, PartialEq, Eq, Hash)]
enum Act {
    /// open the gate of task k
    Open(usize),
    /// make source item k available
    Src(usize),
    /// poll the consumer although nobody woke it
    Spurious,
    /// run to quiescence and evaluate the progress oracle
    Settle,
}

#[derive(Clone, Debug)]
struct Case {
    idx: usize,
    api: Api,
    variant: &'static str,
    n: usize,
    w: usize,
    specs: Vec<Spec>,
    src_gated: bool,
    acts: Vec<Act>,
}

impl Case {
    fn acts_string(&self) -> String {
        let mut s = String::new();
        for a in &self.acts {
            match a {
                Act::Open(k) => s.push_str(&format!("o{k} ")),
                Act::Src(k) => s.push_str(&format!("s{k} ")),
                Act::Spurious => s.push_str("p "),
                Act::Settle => s.push_str("| "),
            }
        }
        s
    }
    fn specs_string(&self) -> String {
        self.specs
            .iter()
            .enumerate()
            .map(|(i, sp)| {
                format!(
                    "{i}:{}{}{}",
                    if sp.gate { "g" } else { "" },
                    sp.dep.map(|d| format!("<-{d}")).unwrap_or_default(),
                    if sp.err { "E" } else { "" }
                )
            })
            .collect::<Vec<_>>()
            .join(" ")
    }
    fn witness(&self, detail: &Value) -> Value {
        json!({
            "case": self.idx, "api": self.api.name(), "variant": self.variant, "n": self.n, "window": self.w,
            "tasks (id:g=gated,<-dep,E=err)": self.specs_string(), "source_gated": self.src_gated,
            "schedule (oK=open gate,sK=source item,p=spurious poll,|=run to quiescence)": self.acts_string(),
            "detail": detail,
        })
    }
    fn first_err(&self) -> Option<usize> {
        self.specs.iter().position(|s| s.err)
    }
}

// ---------------------------------------------------------------------------------------------
// shared log / monitor state (one lock, one logical clock)
// ---------------------------------------------------------------------------------------------

#[derive(Default, Clone, Debug)]
struct Stats {
    poll_next_calls: u64,
    pending_returns: u64,
    items_yielded: u64,
    task_polls: u64,
    lower_bound_checks: u64,
    lower_bound_checks_need_ge2: u64,
    repoll_checks: u64,
    out_of_order_completions: u64,
    window_slots_held_by_completed: u64,
    source_pending_returns: u64,
    quiescence_checks: u64,
    early_exits_at_scope_drop: u64,
    tasks_cancelled: u64,
    max_window: usize,
}

struct State {
    api: Api,
    n: usize,
    w: usize,
    /// real threads: checks that would race with the workers are off
    mt: bool,
    src_gated: bool,
    specs: Vec<Spec>,
    clock: u64,
    gate_open: Vec<bool>,
    src_open: Vec<bool>,
    polls: Vec<u32>,
    /// logical time of completion, 0 = not completed
    done_at: Vec<u64>,
    woken: Vec<bool>,
    wakers: Vec<Option<Waker>>,
    src_waker: Option<Waker>,
    taken: usize,
    src_ended: bool,
    out: Vec<usize>,
    ended: bool,
    viol: Vec<(&'static str, Value)>,
    stats: Stats,
}

type Sh = Arc<Mutex<State>>;

fn lock(sh: &Sh) -> MutexGuard<'_, State> {
    sh.lock().unwrap_or_else(std::sync::PoisonError::into_inner)
}

impl State {
    fn new(case: &Case, mt: bool) -> Sh {
        let n = case.n;
        Arc::new(Mutex::new(State {
            api: case.api,
            n,
            w: case.w,
            mt,
            src_gated: case.src_gated,
            specs: case.specs.clone(),
            clock: 0,
            gate_open: vec![false; n],
            src_open: vec![!case.src_gated; n],
            polls: vec![0; n],
            done_at: vec![0; n],
            woken: vec![false; n],
            wakers: (0..n).map(|_| None).collect(),
            src_waker: None,
            taken: 0,
            src_ended: false,
            out: Vec::new(),
            ended: false,
            viol: Vec::new(),
            stats: Stats::default(),
        }))
    }

    fn flag(&mut self, kind: &'static str, detail: Value) {
        if self.viol.len() < 4 && !self.viol.iter().any(|(k, _)| *k == kind) {
            self.viol.push((kind, detail));
        }
    }

    /// number of source items that the source can deliver right now (prefix of open source gates)
    fn avail(&self) -> usize {
        self.src_open.iter().take_while(|o| **o).count()
    }

    /// largest p such that tasks 0..p have all completed
    fn done_prefix(&self) -> usize {
        self.done_at.iter().take_while(|t| **t != 0).count()
    }

    fn completable(&self, i: usize, depth: usize) -> bool {
        if self.done_at[i] != 0 {
            return true;
        }
        if depth > self.n || i >= self.avail() {
            return false;
        }
        let sp = self.specs[i];
        (!sp.gate || self.gate_open[i]) && sp.dep.is_none_or(|j| self.completable(j, depth + 1))
    }

    /// Reference model of progress: largest p such that every task < p can complete given the gates
    /// opened so far (own gate open, source item available, dependency completable).
    fn completable_prefix(&self) -> usize {
        (0..self.n).take_while(|i| self.completable(*i, 0)).count()
    }

    /// called with the lock held whenever the code under test pulls the next task from the source
    fn on_pull(&mut self) -> usize {
        let id = self.taken;
        self.taken += 1;
        self.clock += 1;
        // Stream: the consumer counts the yielded items itself. Other entry points hide the yields;
        // yielded <= done_prefix, so pulled - done_prefix is a lower bound of the window.
        let y = if self.api == Api::Stream { self.out.len() } else { self.done_prefix() };
        let win = self.taken.saturating_sub(y);
        if self.api != Api::Par {
            self.stats.max_window = self.stats.max_window.max(win);
            if win > self.w {
                self.flag(
                    "window_exceeded",
                    json!({"pulled": self.taken, "yielded_or_done_prefix": y, "window": win, "w": self.w}),
                );
            }
        }
        id
    }
}

// ---------------------------------------------------------------------------------------------
// harness futures / sources
// ---------------------------------------------------------------------------------------------

struct GateTask {
    id: usize,
    sh: Sh,
    finished: bool,
}

impl Future for GateTask {
    type Output = Result<usize, usize>;

    fn poll(mut self: Pin<&mut Self>, cx: &mut Context<'_>) -> Poll<Self::Output> {
        let id = self.id;
        let mut wake: Vec<Waker> = Vec::new();
        let r = {
            let mut st = lock(&self.sh);
            st.clock += 1;
            if self.finished {
                st.flag("task_polled_after_ready", json!({"task": id}));
                return Poll::Pending;
            }
            st.polls[id] += 1;
            st.stats.task_polls += 1;
            st.woken[id] = false;
            let sp = st.specs[id];
            let ok = (!sp.gate || st.gate_open[id]) && sp.dep.is_none_or(|j| st.done_at[j] != 0);
            if ok {
                st.done_at[id] = st.clock;
                if st.api == Api::Stream && id != st.out.len() {
                    st.stats.out_of_order_completions += 1;
                }
                st.wakers[id] = None;
                for k in 0..st.n {
                    if st.specs[k].dep == Some(id) {
                        if let Some(wk) = st.wakers[k].take() {
                            st.woken[k] = true;
                            wake.push(wk);
                        }
                    }
                }
                Poll::Ready(if sp.err { Err(id) } else { Ok(id) })
            } else {
                st.wakers[id] = Some(cx.waker().clone());
                Poll::Pending
            }
        };
        if r.is_ready() {
            self.finished = true;
        }
        for wk in wake {
            wk.wake();
        }
        r
    }
}

impl Drop for GateTask {
    fn drop(&mut self) {
        if !self.finished {
            lock(&self.sh).stats.tasks_cancelled += 1;
        }
    }
}

/// Source stream: item k is delivered once source gate k is open, Pending (waker kept) before.
struct GateSource {
    sh: Sh,
}

impl Stream for GateSource {
    type Item = GateTask;

    fn poll_next(self: Pin<&mut Self>, cx: &mut Context<'_>) -> Poll<Option<GateTask>> {
        let mut st = lock(&self.sh);
        if st.src_ended {
            st.flag("source_polled_after_end", json!({}));
            return Poll::Ready(None);
        }
        if st.taken == st.n {
            st.src_ended = true;
            st.clock += 1;
            return Poll::Ready(None);
        }
        if st.src_open[st.taken] {
            let id = st.on_pull();
            Poll::Ready(Some(GateTask { id, sh: Arc::clone(&self.sh), finished: false }))
        } else {
            st.stats.source_pending_returns += 1;
            st.src_waker = Some(cx.waker().clone());
            Poll::Pending
        }
    }

    fn size_hint(&self) -> (usize, Option<usize>) {
        let st = lock(&self.sh);
        (st.n - st.taken, Some(st.n - st.taken))
    }
}

/// Source iterator for the IntoIterator based entry points (always ready).
struct GateIter {
    sh: Sh,
}

impl Iterator for GateIter {
    type Item = GateTask;
    fn next(&mut self) -> Option<GateTask> {
        let mut st = lock(&self.sh);
        if st.taken == st.n {
            st.src_ended = true;
            return None;
        }
        let id = st.on_pull();
        Some(GateTask { id, sh: Arc::clone(&self.sh), finished: false })
    }
}

struct Win(NonZeroUsize);
impl SeqJoin for Win {
    fn active_work(&self) -> NonZeroUsize {
        self.0
    }
}

fn open_gate(sh: &Sh, k: usize) {
    let wk = {
        let mut st = lock(sh);
        st.clock += 1;
        st.gate_open[k] = true;
        let wk = st.wakers[k].take();
        if wk.is_some() {
            st.woken[k] = true;
        }
        wk
    };
    if let Some(wk) = wk {
        wk.wake();
    }
}

fn open_src(sh: &Sh, k: usize) {
    let wk = {
        let mut st = lock(sh);
        st.clock += 1;
        st.src_open[k] = true;
        if st.taken < st.n && st.src_open[st.taken] { st.src_waker.take() } else { None }
    };
    if let Some(wk) = wk {
        wk.wake();
    }
}

// ---------------------------------------------------------------------------------------------
// consumer + per-poll monitor
// ---------------------------------------------------------------------------------------------

enum Outcome {
    Stream,
    Res(Result<Vec<usize>, usize>),
}

struct Pre {
    woken: Vec<usize>,
    polls: Vec<u32>,
}

fn before_poll(sh: &Sh) -> Pre {
    let mut st = lock(sh);
    st.stats.poll_next_calls += 1;
    if st.mt {
        return Pre { woken: Vec::new(), polls: Vec::new() };
    }
    let woken = (0..st.n).filter(|i| st.woken[*i] && st.done_at[*i] == 0).collect();
    Pre { woken, polls: st.polls.clone() }
}

fn after_poll(sh: &Sh, pre: &Pre, r: &Poll<Option<Result<usize, usize>>>) {
    let mut guard = lock(sh);
    let st: &mut State = &mut guard;
    st.clock += 1;
    match r {
        Poll::Ready(Some(v)) => {
            let id = match v {
                Ok(i) | Err(i) => *i,
            };
            let expected = st.out.len();
            if id >= st.n || v.is_err() != st.specs[id].err {
                st.flag("result_altered", json!({"position": expected, "got": format!("{v:?}")}));
            }
            if st.out.contains(&id) {
                st.flag("duplicate_result", json!({"position": expected, "got_task": id, "yielded_so_far": st.out.clone()}));
            } else if id != expected {
                st.flag("out_of_order", json!({"position": expected, "got_task": id, "yielded_so_far": st.out.clone()}));
            }
            st.out.push(id);
            st.stats.items_yielded += 1;
        }
        Poll::Ready(None) => {
            st.ended = true;
            if st.out.len() != st.n {
                let missing: Vec<usize> = (0..st.n).filter(|i| !st.out.contains(i)).collect();
                st.flag("missing_result", json!({"yielded": st.out.clone(), "missing": missing}));
            }
        }
        Poll::Pending => {
            st.stats.pending_returns += 1;
            let y = st.out.len();
            // the fixed-size source is available in full unless it is gated
            let a = st.avail();
            let win = st.taken.saturating_sub(y);
            let need = st.w.min(a.saturating_sub(y));
            // with real threads the availability of a gated source changes concurrently
            if !(st.mt && st.src_gated) {
                st.stats.lower_bound_checks += 1;
                if need >= 2 {
                    st.stats.lower_bound_checks_need_ge2 += 1;
                }
                if win < need {
                    st.flag(
                        "window_not_full",
                        json!({"pulled": st.taken, "yielded": y, "window": win, "w": st.w, "source_available": a}),
                    );
                }
            }
            if !st.mt {
                let unstarted: Vec<usize> = (y..st.taken).filter(|i| st.polls[*i] == 0).collect();
                if !unstarted.is_empty() {
                    st.flag("window_task_not_polled", json!({"yielded": y, "pulled": st.taken, "never_polled": unstarted}));
                }
                for id in &pre.woken {
                    st.stats.repoll_checks += 1;
                    if st.done_at[*id] == 0 && st.polls[*id] == pre.polls[*id] {
                        st.flag("woken_task_not_repolled", json!({"task": id, "yielded": y, "pulled": st.taken}));
                    }
                }
                let unfinished = (y..st.taken).filter(|i| st.done_at[*i] == 0).count();
                if unfinished < need && win >= need {
                    st.stats.window_slots_held_by_completed += 1;
                }
            }
        }
    }
}

fn drive<S>(stream: S, sh: Sh) -> impl Future<Output = Outcome> + Send
where
    S: Stream<Item = Result<usize, usize>> + Send,
{
    let mut stream = Box::pin(stream);
    poll_fn(move |cx| {
        loop {
            let pre = before_poll(&sh);
            let r = stream.as_mut().poll_next(cx);
            after_poll(&sh, &pre, &r);
            match r {
                Poll::Ready(Some(_)) => {}
                Poll::Ready(None) => return Poll::Ready(Outcome::Stream),
                Poll::Pending => return Poll::Pending,
            }
        }
    })
}

/// Builds the future that consumes the join under test. With the multi-threading feature this
/// must be called inside a tokio runtime (parallel_join spawns eagerly).
fn consumer(api: Api, w: usize, sh: &Sh) -> Pin<Box<dyn Future<Output = Outcome> + Send>> {
    let nz = NonZeroUsize::new(w).unwrap();
    match api {
        Api::Stream => Box::pin(drive(seq_join(nz, GateSource { sh: Arc::clone(sh) }), Arc::clone(sh))),
        Api::TryAll => {
            let f = seq_try_join_all(nz, GateIter { sh: Arc::clone(sh) });
            Box::pin(async move { Outcome::Res(f.await) })
        }
        Api::TryTrait => {
            let f = Win(nz).try_join(GateIter { sh: Arc::clone(sh) });
            Box::pin(async move { Outcome::Res(f.await) })
        }
        Api::Par => {
            let f = Win(nz).parallel_join(GateIter { sh: Arc::clone(sh) });
            Box::pin(async move { Outcome::Res(f.await) })
        }
    }
}

// ---------------------------------------------------------------------------------------------
// final oracles
// ---------------------------------------------------------------------------------------------

/// Is the join obliged to have finished, given what the test has opened so far?
fn should_be_done(st: &State, case: &Case) -> bool {
    let p = st.completable_prefix();
    match case.api {
        Api::Stream => p == case.n,
        // "first error": once every task up to and including the first failing one can complete, the join has an error
        // to report (parallel_join's single-threaded form returns at the first error it sees, its spawning form when it
        // reaches the failed task in spawn order) - it must not wait for later tasks, which may never finish
        Api::Par | Api::TryAll | Api::TryTrait => match case.first_err() {
            Some(e) => p > e,
            None => p == case.n,
        },
    }
}

fn check_result(st: &mut State, case: &Case, outcome: &Outcome) {
    let n = case.n;
    match (case.api, outcome) {
        (Api::Stream, Outcome::Stream) => {
            if !st.ended {
                st.flag("no_end_of_stream", json!({"yielded": st.out.clone()}));
            }
        }
        (Api::TryAll | Api::TryTrait, Outcome::Res(got)) => {
            let expected: Result<Vec<usize>, usize> = match case.first_err() {
                Some(e) => Err(e),
                None => Ok((0..n).collect()),
            };
            if *got != expected {
                let class = match (got, &expected) {
                    (Ok(_), Err(_)) => "ok_despite_error",
                    (Ok(_), Ok(_)) => "ok_wrong_items",
                    (Err(_), Ok(_)) => "err_without_error",
                    (Err(g), Err(e)) if g > e => "later_error_returned",
                    _ => "other_error_returned",
                };
                st.flag("try_result", json!({"class": class, "got": format!("{got:?}"), "expected": format!("{expected:?}")}));
            }
        }
        (Api::Par, Outcome::Res(got)) => {
            let errs_done: Vec<usize> = (0..n).filter(|i| st.specs[*i].err && st.done_at[*i] != 0).collect();
            match got {
                Ok(v) => {
                    if case.first_err().is_some() {
                        st.flag("parallel_result", json!({"class": "ok_despite_error", "got": format!("{got:?}")}));
                    } else if *v != (0..n).collect::<Vec<_>>() {
                        st.flag("parallel_result", json!({"class": "ok_wrong_order_or_items", "got": format!("{got:?}")}));
                    }
                }
                Err(e) => {
                    // "first error": accepted readings are first in input order among the errors that
                    // had happened when the join returned, or first in (logical) time
                    let first_in_order = errs_done.iter().copied().min();
                    let first_in_time = errs_done.iter().copied().min_by_key(|i| st.done_at[*i]);
                    if Some(*e) != first_in_order && Some(*e) != first_in_time {
                        st.flag(
                            "parallel_result",
                            json!({"class": "not_a_first_error", "got": e, "first_in_input_order": first_in_order,
                                   "first_in_time": first_in_time}),
                        );
                    }
                }
            }
        }
        _ => st.flag("harness_outcome_mismatch", json!({})),
    }
}

// ---------------------------------------------------------------------------------------------
// E-manual runner
// ---------------------------------------------------------------------------------------------

struct RunOut {
    viol: Vec<(&'static str, Value)>,
    stats: Stats,
    finished: bool,
    budget_exceeded: bool,
    panic: Option<String>,
}

fn run_manual_inner(case: &Case) -> RunOut {
    let sh = State::new(case, false);
    let mut m: Manual<'static, Outcome> = Manual::new();
    let cid = m.spawn(consumer(case.api, case.w, &sh));
    let mut budget_exceeded = false;
    let mut pick = |_: &[usize]| 0usize;
    let mut acts = case.acts.clone();
    acts.push(Act::Settle);
    for a in &acts {
        match a {
            Act::Open(k) => open_gate(&sh, *k),
            Act::Src(k) => open_src(&sh, *k),
            Act::Spurious => {
                if !m.is_done(cid) {
                    m.poll_task(cid);
                }
            }
            Act::Settle => {
                m.run(&mut pick, 50_000);
                if !m.all_done() && !m.ready_ids().is_empty() {
                    budget_exceeded = true;
                    break;
                }
                // quiescent (or finished): progress oracle
                let mut st = lock(&sh);
                if !m.is_done(cid) {
                    if case.api == Api::Stream {
                        let p = st.completable_prefix();
                        if st.out.len() < p {
                            let y = st.out.clone();
                            let (t, w) = (st.taken, st.w);
                            st.flag(
                                "no_progress",
                                json!({"quiescent": true, "yielded": y, "completable_prefix": p, "pulled": t, "w": w,
                                       "dependency": case.variant}),
                            );
                        }
                    }
                    if should_be_done(&st, case) {
                        let y = st.out.clone();
                        st.flag(
                            "not_finished",
                            json!({"quiescent": true, "yielded": y, "all_required_tasks_completable": true,
                                   "dependency": case.variant}),
                        );
                    }
                }
            }
        }
    }
    let finished = m.is_done(cid);
    if let Some(outcome) = m.result(cid) {
        let mut st = lock(&sh);
        check_result(&mut st, case, outcome);
    }
    // dropping the scheduler drops an unfinished join (and its tasks) before the stats are read
    drop(m);
    let st = lock(&sh);
    RunOut { viol: st.viol.clone(), stats: st.stats.clone(), finished, budget_exceeded, panic: None }
}

fn run_manual(case: &Case) -> RunOut {
    match vlib::catch(|| run_manual_inner(case)) {
        Ok(r) => r,
        Err(p) => RunOut { viol: Vec::new(), stats: Stats::default(), finished: false, budget_exceeded: false, panic: Some(p) },
    }
}

fn what(kind: &str) -> &'static str {
    match kind {
        "out_of_order" => "seq_join yielded a result out of input order",
        "duplicate_result" => "seq_join yielded a task's result twice",
        "missing_result" => "seq_join ended without yielding every task's result",
        "result_altered" => "seq_join yielded a value that is not the task's result",
        "window_exceeded" => "more than w tasks pulled from the source and not yet yielded",
        "window_not_full" => "stream returned Pending with fewer than min(w, available) tasks in flight",
        "window_task_not_polled" => "stream returned Pending while a task in the window had never been polled",
        "woken_task_not_repolled" => "a woken in-flight task was not polled again by a poll_next that returned Pending",
        "task_polled_after_ready" => "a task was polled again after it had returned Ready",
        "source_polled_after_end" => "the source stream was polled after it had ended",
        "no_progress" => "quiescent although tasks that depend only on tasks < w positions away can complete",
        "not_finished" => "join did not finish although every required task can complete (quiescent)",
        "no_end_of_stream" => "stream consumer finished without an end of stream",
        "try_result" => "fallible sequential join returned the wrong result / not the first error in input order",
        "parallel_result" => "parallel_join returned neither all results in input order nor a first error",
        "panic" => "panic inside the join under test",
        "validated_join_hangs" => "validated_seq_join neither yields an item/error nor ends although every task has completed (quiescent)",
        "validated_join_result" => "validated_seq_join ended or failed in a way that does not match the items' results",
        _ => "c15 monitor",
    }
}

fn panic_class(msg: &str) -> String {
    let mut s: String = msg.chars().map(|c| if c.is_ascii_digit() { '#' } else { c }).collect();
    while s.contains("##") {
        s = s.replace("##", "#");
    }
    s.truncate(80);
    s
}

/// Fold one executed case into the recorder. Returns false when the case was inconclusive.
fn report(rec: &mut Recorder, case: &Case, out: &RunOut, executor: &str) {
    rec.eval();
    if case.n >= 1 {
        rec.distinct(&(case.api, case.variant, case.n, case.w, case.src_gated, &case.specs, &case.acts, executor));
    }
    rec.seen("variants", format!("{}/{}", case.api.name(), case.variant));
    rec.seen("windows", format!("{}", case.w));
    rec.seen("lengths", format!("{}", case.n));
    rec.seen("executors", executor);
    let s = &out.stats;
    rec.add("poll_next_calls", s.poll_next_calls);
    rec.add("pending_returns", s.pending_returns);
    rec.add("items_yielded", s.items_yielded);
    rec.add("task_polls", s.task_polls);
    rec.add("lower_bound_checks", s.lower_bound_checks);
    rec.add("lower_bound_checks_need_ge2", s.lower_bound_checks_need_ge2);
    rec.add("repoll_checks", s.repoll_checks);
    rec.add("out_of_order_completions", s.out_of_order_completions);
    rec.add("window_slots_held_by_completed", s.window_slots_held_by_completed);
    rec.add("source_pending_returns", s.source_pending_returns);
    rec.add("mt_quiescence_checks", s.quiescence_checks);
    rec.add("mt_early_exits_at_scope_drop", s.early_exits_at_scope_drop);
    rec.add("tasks_cancelled_by_early_exit", s.tasks_cancelled);
    if case.api != Api::Par && case.n > 0 {
        rec.seen("max_window_vs_w", format!("{}of{}", s.max_window, case.w));
    }
    if out.finished {
        rec.count(&format!("finished_{}", case.api.name()));
    }
    if case.first_err().is_some() {
        rec.count("cases_with_error");
    }
    if let Some(p) = &out.panic {
        rec.violation(
            what("panic"),
            json!({"kind": "panic", "api": case.api.name(), "variant": case.variant, "executor": executor, "panic": panic_class(p)}),
            case.witness(&json!({"panic": p, "executor": executor})),
        );
    }
    if out.budget_exceeded {
        rec.inconclusive(format!("case {}: poll budget exceeded (consumer keeps being woken)", case.idx));
    }
    for (kind, detail) in &out.viol {
        let mut sig = json!({"kind": kind, "api": case.api.name(), "variant": case.variant, "executor": executor});
        if let Some(c) = detail.get("class") {
            sig["class"] = c.clone();
        }
        // every process writes at most 3 witnesses per signature; the rest is counted
        static LISTED: Mutex<Vec<(String, u32)>> = Mutex::new(Vec::new());
        let key = sig.to_string();
        let nth = {
            let mut l = LISTED.lock().unwrap_or_else(std::sync::PoisonError::into_inner);
            match l.iter_mut().find(|(k, _)| *k == key) {
                Some((_, c)) => {
                    *c += 1;
                    *c
                }
                None => {
                    l.push((key, 1));
                    1
                }
            }
        };
        rec.count(&format!("cases_flagged_{kind}"));
        if nth <= 3 {
            rec.violation(what(kind), sig, case.witness(detail));
        }
    }
    if rec.want_sample() && case.n >= 3 && case.idx % 97 == 5 {
        rec.sample(json!({"case": case.idx, "api": case.api.name(), "variant": case.variant, "n": case.n, "w": case.w,
                          "tasks": case.specs_string(), "schedule": case.acts_string(),
                          "pending_returns": s.pending_returns, "max_window": s.max_window}));
    }
}

// ---------------------------------------------------------------------------------------------
// case generators
// ---------------------------------------------------------------------------------------------

fn perms(n: usize) -> Vec<Vec<usize>> {
    fn rec(k: usize, cur: &mut Vec<usize>, out: &mut Vec<Vec<usize>>) {
        if k == cur.len() {
            out.push(cur.clone());
            return;
        }
        for i in k..cur.len() {
            cur.swap(k, i);
            rec(k + 1, cur, out);
            cur.swap(k, i);
        }
    }
    let mut out = Vec::new();
    let mut cur: Vec<usize> = (0..n).collect();
    rec(0, &mut cur, &mut out);
    out
}

fn plain_specs(n: usize) -> Vec<Spec> {
    vec![Spec { gate: true, dep: None, err: false }; n]
}

/// Dependency chains of distance d. Backward: task i >= d completes only after task i-d.
/// Forward: the first task of every block of d+1 tasks completes only after the last task of the
/// block (no transitive chains, so the total distance stays d). `and_gate`: dependants are gated too.
fn dep_specs(n: usize, d: usize, fwd: bool, and_gate: bool) -> Vec<Spec> {
    (0..n)
        .map(|i| {
            let dep = if fwd {
                if i % (d + 1) == 0 && i + d < n { Some(i + d) } else { None }
            } else if i >= d {
                Some(i - d)
            } else {
                None
            };
            Spec { gate: dep.is_none() || and_gate, dep, err: false }
        })
        .collect()
}

/// every gate action followed by a run to quiescence; source items (if gated) merged in order at
/// seeded positions
fn settled_acts(order: &[usize], n: usize, src_gated: bool, r: &mut VRng) -> Vec<Act> {
    let mut acts = vec![Act::Settle];
    let mut gi = 0;
    let mut si = 0;
    let ns = if src_gated { n } else { 0 };
    while gi < order.len() || si < ns {
        let take_src = if gi == order.len() {
            true
        } else if si == ns {
            false
        } else {
            r.bool()
        };
        if take_src {
            acts.push(Act::Src(si));
            si += 1;
        } else {
            acts.push(Act::Open(order[gi]));
            gi += 1;
        }
        acts.push(Act::Settle);
    }
    acts
}

fn replay_case() -> Option<usize> {
    let p = vlib::env().replay?;
    let w: Value = serde_json::from_str(&std::fs::read_to_string(p).ok()?).ok()?;
    w["witness"]["case"].as_u64().map(|v| v as usize)
}

/// Seeded case for larger inputs (n up to `max_n`): any entry point, any variant, batched gate
/// openings (several actions before the next run to quiescence) and spurious polls.
fn seeded_case(seed: u64, idx: usize, min_n: usize, max_n: usize) -> Case {
    let mut r = VRng::new(seed ^ 0xC15_5EED, idx as u64);
    let n = r.range(min_n as u64, max_n as u64) as usize;
    let w = r.range(1, 8) as usize;
    let kind = idx % 10;
    let mut src_gated = false;
    let (api, variant, mut specs): (Api, &'static str, Vec<Spec>) = match kind {
        8 | 9 => {
            // the fallible joins with a dependency inside the window (their sources are plain iterators without a
            // size hint): they must keep w tasks in flight just like the stream
            let w2 = w.max(2);
            let d = r.range(1, (w2 - 1).min(n.max(2) - 1).max(1) as u64) as usize;
            let fwd = r.bool();
            let and_gate = r.bool();
            let v = match (fwd, and_gate) {
                (false, false) => "try_dep_back",
                (false, true) => "try_dep_back_gate",
                (true, false) => "try_dep_fwd",
                (true, true) => "try_dep_fwd_gate",
            };
            let specs = dep_specs(n, d, fwd, and_gate);
            return finish_seeded(idx, if kind == 8 { Api::TryAll } else { Api::TryTrait }, v, n, w2, specs, false, &mut r);
        }
        0 => (Api::Stream, "plain", plain_specs(n)),
        1 => {
            src_gated = true;
            (Api::Stream, "src_gated", plain_specs(n))
        }
        2 | 3 => {
            // dependency distance 1..w-1 (w >= 2 needed)
            let w2 = w.max(2);
            let d = r.range(1, (w2 - 1).min(n.max(2) - 1).max(1) as u64) as usize;
            let fwd = kind == 3;
            let and_gate = r.bool();
            src_gated = r.below(3) == 0;
            let v = match (fwd, and_gate) {
                (false, false) => "dep_back",
                (false, true) => "dep_back_gate",
                (true, false) => "dep_fwd",
                (true, true) => "dep_fwd_gate",
            };
            let specs = dep_specs(n, d, fwd, and_gate);
            return finish_seeded(idx, Api::Stream, v, n, w2, specs, src_gated, &mut r);
        }
        4 => (Api::TryAll, "try", plain_specs(n)),
        5 => (Api::TryTrait, "try", plain_specs(n)),
        6 => (Api::Stream, "results_with_err", plain_specs(n)),
        _ => (Api::Par, "par", plain_specs(n)),
    };
    if matches!(kind, 4..=7) && n > 0 {
        // 0..3 error positions
        for _ in 0..r.below(4) {
            let e = r.below(n as u64) as usize;
            specs[e].err = true;
        }
    }
    finish_seeded(idx, api, variant, n, w, specs, src_gated, &mut r)
}

#[allow(clippy::too_many_arguments)]
fn finish_seeded(
    idx: usize,
    api: Api,
    variant: &'static str,
    n: usize,
    w: usize,
    specs: Vec<Spec>,
    src_gated: bool,
    r: &mut VRng,
) -> Case {
    let mut order: Vec<usize> = (0..n).filter(|i| specs[*i].gate).collect();
    r.shuffle(&mut order);
    let mut acts = Vec::new();
    if r.below(4) != 0 {
        acts.push(Act::Settle);
    }
    let mut gi = 0;
    let mut si = 0;
    let ns = if src_gated { n } else { 0 };
    let settle_every = r.range(1, 4);
    while gi < order.len() || si < ns {
        let take_src = if gi == order.len() {
            true
        } else if si == ns {
            false
        } else {
            r.below(3) != 0
        };
        if take_src {
            acts.push(Act::Src(si));
            si += 1;
        } else {
            acts.push(Act::Open(order[gi]));
            gi += 1;
        }
        if r.below(10) == 0 {
            acts.push(Act::Spurious);
        }
        if r.below(settle_every) == 0 {
            acts.push(Act::Settle);
        }
    }
    Case { idx, api, variant, n, w, specs, src_gated, acts }
}

// ---------------------------------------------------------------------------------------------
// tests: single-threaded implementation under the deterministic scheduler
// ---------------------------------------------------------------------------------------------

fn max_exhaustive_n(env: &vlib::Env) -> usize {
    env.pick(6, 7)
}

/// (1)-(4) on seq_join: all gate-opening permutations x windows 1..8 x {ready source, gated source}
#[test]
fn verif_c15_perm_stream() {
    let env = vlib::env();
    let mut rec = Recorder::new("C15", "verif_c15_perm_stream");
    let only = replay_case();
    let mut idx = 0usize;
    for n in 0..=max_exhaustive_n(&env) {
        for perm in perms(n) {
            for w in 1..=8usize {
                for src_gated in [false, true] {
                    idx += 1;
                    if !env.mine(idx) || only.is_some_and(|c| c != idx) {
                        continue;
                    }
                    let mut r = VRng::new(env.seed ^ 0x57, idx as u64);
                    let case = Case {
                        idx,
                        api: Api::Stream,
                        variant: if src_gated { "src_gated" } else { "plain" },
                        n,
                        w,
                        specs: plain_specs(n),
                        src_gated,
                        acts: settled_acts(&perm, n, src_gated, &mut r),
                    };
                    let out = run_manual(&case);
                    report(&mut rec, &case, &out, "manual");
                }
            }
        }
    }
    rec.finish();
}

/// (4) dependency chains of distance 1..w-1, backward and forward, all permutations of the gated tasks
#[test]
fn verif_c15_perm_deps() {
    let env = vlib::env();
    let mut rec = Recorder::new("C15", "verif_c15_perm_deps");
    let only = replay_case();
    let mut idx = 0usize;
    for n in 2..=max_exhaustive_n(&env) {
        for w in 2..=8usize {
            for d in 1..=(w - 1).min(n - 1) {
                for (fwd, and_gate) in [(false, false), (false, true), (true, false), (true, true)] {
                    let specs = dep_specs(n, d, fwd, and_gate);
                    let gated: Vec<usize> = (0..n).filter(|i| specs[*i].gate).collect();
                    for perm in perms(gated.len()) {
                        idx += 1;
                        if !env.mine(idx) || only.is_some_and(|c| c != idx) {
                            continue;
                        }
                        let order: Vec<usize> = perm.iter().map(|p| gated[*p]).collect();
                        let src_gated = idx % 3 == 0;
                        let mut r = VRng::new(env.seed ^ 0xde9, idx as u64);
                        let case = Case {
                            idx,
                            api: Api::Stream,
                            variant: match (fwd, and_gate) {
                                (false, false) => "dep_back",
                                (false, true) => "dep_back_gate",
                                (true, false) => "dep_fwd",
                                (true, true) => "dep_fwd_gate",
                            },
                            n,
                            w,
                            specs: specs.clone(),
                            src_gated,
                            acts: settled_acts(&order, n, src_gated, &mut r),
                        };
                        let out = run_manual(&case);
                        rec.seen("dependency_distances", format!("{}{d}", if fwd { "+" } else { "-" }));
                        report(&mut rec, &case, &out, "manual");
                    }
                }
            }
        }
    }
    rec.finish();
}

/// error sets used with the exhaustive permutations: none, every single position, and pairs
fn error_sets(n: usize, r: &mut VRng) -> Vec<Vec<usize>> {
    let mut v = vec![Vec::new()];
    for e in 0..n {
        v.push(vec![e]);
    }
    if n >= 2 {
        // two pairs: one seeded, one where the later error is the last task
        let a = r.below(n as u64 - 1) as usize;
        let b = a + 1 + r.below((n - a - 1) as u64) as usize;
        v.push(vec![a, b]);
        v.push(vec![0, n - 1]);
    }
    v
}

/// (5) seq_try_join_all / SeqJoin::try_join: all permutations x windows x error positions
#[test]
fn verif_c15_perm_try() {
    let env = vlib::env();
    let mut rec = Recorder::new("C15", "verif_c15_perm_try");
    let only = replay_case();
    let mut idx = 0usize;
    for n in 0..=max_exhaustive_n(&env) {
        let mut er = VRng::new(env.seed ^ 0xe44, n as u64);
        let esets = error_sets(n, &mut er);
        for perm in perms(n) {
            for w in 1..=8usize {
                for es in &esets {
                    idx += 1;
                    if !env.mine(idx) || only.is_some_and(|c| c != idx) {
                        continue;
                    }
                    let mut specs = plain_specs(n);
                    for e in es {
                        specs[*e].err = true;
                    }
                    let mut r = VRng::new(env.seed ^ 0x7e1, idx as u64);
                    let case = Case {
                        idx,
                        api: if idx % 2 == 0 { Api::TryAll } else { Api::TryTrait },
                        variant: "try",
                        n,
                        w,
                        specs,
                        src_gated: false,
                        acts: settled_acts(&perm, n, false, &mut r),
                    };
                    let out = run_manual(&case);
                    rec.seen("error_positions", format!("{es:?}of{n}"));
                    report(&mut rec, &case, &out, "manual");
                }
            }
        }
    }
    rec.finish();
}

/// (6) parallel_join and (1) seq_join over fallible items (the plain stream must not stop at an Err)
#[test]
fn verif_c15_perm_parallel() {
    let env = vlib::env();
    let mut rec = Recorder::new("C15", "verif_c15_perm_parallel");
    let only = replay_case();
    let mut idx = 0usize;
    for n in 0..=max_exhaustive_n(&env) {
        let mut er = VRng::new(env.seed ^ 0xe45, n as u64);
        let esets = error_sets(n, &mut er);
        for perm in perms(n) {
            for es in &esets {
                for mode in 0..3usize {
                    idx += 1;
                    if !env.mine(idx) || only.is_some_and(|c| c != idx) {
                        continue;
                    }
                    let mut specs = plain_specs(n);
                    for e in es {
                        specs[*e].err = true;
                    }
                    let mut r = VRng::new(env.seed ^ 0x9a1, idx as u64);
                    let mut acts = settled_acts(&perm, n, false, &mut r);
                    if mode == 1 {
                        // all gates opened before the join is polled again
                        acts.retain(|a| *a != Act::Settle);
                        acts.insert(0, Act::Settle);
                    }
                    let (api, variant, w) = if mode == 2 {
                        (Api::Stream, "results_with_err", 1 + idx % 8)
                    } else {
                        (Api::Par, "par", 1)
                    };
                    let case = Case { idx, api, variant, n, w, specs, src_gated: false, acts };
                    let out = run_manual(&case);
                    report(&mut rec, &case, &out, "manual");
                }
            }
        }
    }
    rec.finish();
}

/// seeded cases for 7 <= n <= 40: every entry point and variant, batched openings, spurious polls
#[test]
fn verif_c15_seeded() {
    let env = vlib::env();
    let mut rec = Recorder::new("C15", "verif_c15_seeded");
    let only = replay_case();
    let cases = env.pick(40_000, 400_000);
    for idx in 0..cases {
        if !env.mine(idx) || only.is_some_and(|c| c != idx) {
            continue;
        }
        let case = seeded_case(env.seed, idx, 7, 40);
        let out = run_manual(&case);
        report(&mut rec, &case, &out, "manual");
    }
    rec.finish();
}

// ---------------------------------------------------------------------------------------------
// reduced suite (tens of cases) for Miri; the same list runs natively
// ---------------------------------------------------------------------------------------------

fn reduced_cases(seed: u64) -> Vec<Case> {
    let mut v = Vec::new();
    let mut idx = 0usize;
    let mut r = VRng::new(seed ^ 0x3141, 0);
    // every permutation of 3 tasks, window 1..3, stream and try
    for perm in perms(3) {
        for w in 1..=3usize {
            idx += 1;
            v.push(Case {
                idx,
                api: Api::Stream,
                variant: if idx % 2 == 0 { "src_gated" } else { "plain" },
                n: 3,
                w,
                specs: plain_specs(3),
                src_gated: idx % 2 == 0,
                acts: settled_acts(&perm, 3, idx % 2 == 0, &mut r),
            });
        }
        idx += 1;
        let mut specs = plain_specs(3);
        specs[idx % 3].err = true;
        v.push(Case {
            idx,
            api: if idx % 2 == 0 { Api::TryAll } else { Api::TryTrait },
            variant: "try",
            n: 3,
            w: 2,
            specs: specs.clone(),
            src_gated: false,
            acts: settled_acts(&perm, 3, false, &mut r),
        });
        idx += 1;
        v.push(Case { idx, api: Api::Par, variant: "par", n: 3, w: 1, specs, src_gated: false, acts: settled_acts(&perm, 3, false, &mut r) });
    }
    // dependency chains, n = 5
    for (fwd, d, w) in [(false, 1, 2), (false, 2, 3), (true, 1, 2), (true, 2, 3), (true, 3, 4)] {
        idx += 1;
        let specs = dep_specs(5, d, fwd, false);
        let mut order: Vec<usize> = (0..5).filter(|i| specs[*i].gate).collect();
        r.shuffle(&mut order);
        v.push(Case {
            idx,
            api: Api::Stream,
            variant: if fwd { "dep_fwd" } else { "dep_back" },
            n: 5,
            w,
            specs,
            src_gated: false,
            acts: settled_acts(&order, 5, false, &mut r),
        });
    }
    // empty input through every entry point, and a few seeded larger ones
    for api in [Api::Stream, Api::TryAll, Api::TryTrait, Api::Par] {
        idx += 1;
        v.push(Case { idx, api, variant: "empty", n: 0, w: 3, specs: Vec::new(), src_gated: false, acts: vec![Act::Settle] });
    }
    for k in 0..8usize {
        idx += 1;
        let mut c = seeded_case(seed, k, 6, 12);
        c.idx = idx;
        v.push(c);
    }
    v
}

fn run_reduced(rec: &mut Recorder) {
    let env = vlib::env();
    let only = replay_case();
    for case in reduced_cases(env.seed) {
        if !env.mine(case.idx) || only.is_some_and(|c| c != case.idx) {
            continue;
        }
        #[cfg(not(all(feature = "multi-threading", not(feature = "shuttle"))))]
        {
            let out = run_manual(&case);
            report(rec, &case, &out, "manual");
        }
        #[cfg(all(feature = "multi-threading", not(feature = "shuttle")))]
        {
            let mut timeouts = 0;
            mt::run_and_report(rec, &case, 2, &mut timeouts);
        }
    }
}

/// Reduced group for Miri (local implementation by default, the multi-threaded one when the
/// build has the multi-threading feature).
#[test]
fn verif_c15_miri_reduced() {
    let mut rec = Recorder::new("C15", "verif_c15_miri_reduced");
    run_reduced(&mut rec);
    rec.finish();
}

/// The Miri group's case list, natively in build b1.
#[cfg(not(feature = "multi-threading"))]
#[test]
fn verif_c15_reduced_native() {
    let mut rec = Recorder::new("C15", "verif_c15_reduced_native");
    run_reduced(&mut rec);
    rec.finish();
}

// ---------------------------------------------------------------------------------------------
// validated_seq_join: the join with record validation chained to every item (E-paused)
// ---------------------------------------------------------------------------------------------

/// `validated_seq_join` of a real DZKP validator (semi-honest: validation is a no-op; malicious:
/// `validate_record(i)` resolves once every record of i's batch asked for validation, so an item
/// depends on items up to batch-1 = w-1 positions *later*). The items are harness tasks that record
/// no multiplications, hence batches are empty and validate without communication: one helper's
/// context is enough. Quiescence is decided on the paused-clock runtime (`settle()` returns only
/// when nothing is runnable).
#[cfg(not(any(feature = "shuttle", feature = "multi-threading")))]
mod validated {
    use std::time::Duration;

    use futures::{FutureExt, StreamExt, future::Either};

    use super::*;
    use crate::{
        error::Error,
        protocol::context::{
            Context, TEST_DZKP_STEPS, UpgradableContext,
            dzkp_validator::{DZKPValidator, validated_seq_join},
        },
        test_fixture::{TestWorld, TestWorldConfig},
    };

    #[derive(Debug)]
    enum VEnd {
        EndOfStream,
        FirstErr { position: usize, error: String },
    }

    type Slot = Arc<Mutex<Option<Option<VEnd>>>>;

    /// Writes `Some(Some(end))` (consumer finished) or `Some(None)` (everything opened, nothing
    /// runnable, consumer still pending) into `slot` *before* the stream and with it the validator
    /// are dropped: dropping a malicious validator whose batcher still holds a batch panics
    /// (`ContextUnsafe`), which is the validator's own teardown check, not the join's behaviour.
    async fn run_join<'a, V: DZKPValidator + 'a>(v: V, case: &Case, sh: &Sh, slot: &Slot) {
        {
            let w = v.context().active_work().get();
            lock(sh).w = w;
        }
        let src = GateSource { sh: Arc::clone(sh) }.map(|t| t.map(|r| r.map_err(|_| Error::Internal)));
        let mut stream = Box::pin(validated_seq_join(v, src));
        let outcome = {
            let cons = poll_fn(|cx| {
                loop {
                    let pre = before_poll(sh);
                    match stream.as_mut().poll_next(cx) {
                        Poll::Ready(Some(Ok(i))) => after_poll(sh, &pre, &Poll::Ready(Some(Ok(i)))),
                        Poll::Ready(Some(Err(e))) => {
                            let position = lock(sh).out.len();
                            return Poll::Ready(VEnd::FirstErr { position, error: format!("{e:?}") });
                        }
                        Poll::Ready(None) => {
                            // a stream that ends early is judged by the caller (missing_result needs all n)
                            let complete = {
                                let st = lock(sh);
                                st.out.len() == st.n
                            };
                            if complete {
                                after_poll(sh, &pre, &Poll::Ready(None));
                            }
                            return Poll::Ready(VEnd::EndOfStream);
                        }
                        Poll::Pending => {
                            after_poll(sh, &pre, &Poll::Pending);
                            return Poll::Pending;
                        }
                    }
                }
            });
            let acts = case.acts.clone();
            let ctl = async {
                for a in acts {
                    match a {
                        Act::Open(k) => open_gate(sh, k),
                        Act::Src(k) => open_src(sh, k),
                        Act::Spurious => {}
                        Act::Settle => vlib::settle().await,
                    }
                }
                vlib::settle().await;
            };
            // `cons` is polled first: if both are ready the join counts as finished
            match futures::future::select(Box::pin(cons), Box::pin(ctl)).await {
                Either::Left((end, _)) => Some(end),
                Either::Right(((), _)) => None,
            }
        };
        *slot.lock().unwrap() = Some(outcome);
        drop(stream);
    }

    struct VOut {
        run: RunOut,
        w: usize,
        /// panic while dropping the stream + validator after the outcome was decided
        teardown_panic: Option<String>,
    }

    fn run_case(case: &Case, malicious: bool, batch: usize, active: usize) -> Option<VOut> {
        let sh = State::new(case, false);
        let sh2 = Arc::clone(&sh);
        let slot: Slot = Arc::new(Mutex::new(None));
        let slot2 = Arc::clone(&slot);
        let c = case.clone();
        let fut = async move {
            let mut cfg = TestWorldConfig::default();
            cfg.seed = 0xC15 ^ c.idx as u64;
            cfg.gateway_config.active = active.try_into().unwrap();
            let world = TestWorld::new_with(&cfg);
            if malicious {
                let [ctx, _, _] = world.malicious_contexts();
                let v = ctx.set_total_records(c.n).dzkp_validator(TEST_DZKP_STEPS, batch);
                run_join(v, &c, &sh2, &slot2).await
            } else {
                let [ctx, _, _] = world.contexts();
                let v = ctx.set_total_records(c.n).dzkp_validator(TEST_DZKP_STEPS, batch);
                run_join(v, &c, &sh2, &slot2).await
            }
        };
        let ran = match vlib::run_paused(Duration::from_secs(60), vlib::catch_fut(fut)) {
            vlib::Paused::Done(r) => r,
            vlib::Paused::Quiescent => return None,
        };
        let mut st = lock(&sh);
        let mut panic = None;
        let mut finished = false;
        let mut teardown_panic = None;
        let res: Result<Option<VEnd>, String> = match (slot.lock().unwrap().take(), ran) {
            (Some(outcome), Ok(())) => Ok(outcome),
            (Some(outcome), Err(p)) => {
                teardown_panic = Some(p);
                Ok(outcome)
            }
            (None, Err(p)) => Err(p),
            (None, Ok(())) => Err("harness: join body returned without an outcome".to_string()),
        };
        let first_err = case.first_err();
        let batch_start = |e: usize| if malicious { e - e % batch } else { e };
        match res {
            Err(p) => panic = Some(p),
            Ok(None) => {
                let y = st.out.clone();
                let class = match first_err {
                    None => "no_item_error",
                    Some(e) if batch_start(e) == e => "item_error_first_of_its_batch",
                    Some(_) => "item_error_after_ok_items_of_its_batch",
                };
                st.flag(
                    "validated_join_hangs",
                    json!({"class": class, "quiescent": true, "all_gates_open": true, "yielded": y, "first_item_error": first_err,
                           "records_per_batch": batch, "malicious": malicious}),
                );
            }
            Ok(Some(VEnd::EndOfStream)) => {
                finished = true;
                if first_err.is_some() || st.out.len() != case.n {
                    let y = st.out.clone();
                    st.flag("validated_join_result", json!({"class": "ended_without_error_or_items", "yielded": y, "first_item_error": first_err}));
                }
            }
            Ok(Some(VEnd::FirstErr { position, error })) => {
                finished = true;
                // the error of item e may surface at any item of e's validation batch, not later, not earlier
                let ok = first_err.is_some_and(|e| batch_start(e) <= position && position <= e);
                if !ok {
                    st.flag(
                        "validated_join_result",
                        json!({"class": if first_err.is_none() { "error_without_item_error" } else { "error_at_wrong_position" },
                               "position": position, "error": error, "first_item_error": first_err, "records_per_batch": batch}),
                    );
                }
            }
        }
        let w = st.w;
        Some(VOut {
            run: RunOut { viol: st.viol.clone(), stats: st.stats.clone(), finished, budget_exceeded: false, panic },
            w,
            teardown_panic,
        })
    }

    #[test]
    fn verif_c15_validated() {
        let env = vlib::env();
        let mut rec = Recorder::new("C15", "verif_c15_validated");
        let only = replay_case();
        let mut idx = 0usize;
        let nmax = env.pick(4, 5);
        for n in 1..=nmax {
            let mut er = VRng::new(env.seed ^ 0xe46, n as u64);
            let esets = error_sets(n, &mut er);
            for perm in perms(n) {
                for (malicious, batch, active) in
                    [(false, 1usize, 2usize), (false, 4, 16), (true, 1, 2), (true, 1, 16), (true, 2, 16), (true, 4, 16), (true, 8, 4)]
                {
                    for es in &esets {
                        idx += 1;
                        if !env.mine(idx) || only.is_some_and(|c| c != idx) {
                            continue;
                        }
                        let mut specs = plain_specs(n);
                        for e in es {
                            specs[*e].err = true;
                        }
                        let src_gated = idx % 3 == 0;
                        let mut r = VRng::new(env.seed ^ 0x7a1, idx as u64);
                        let variant = match (malicious, es.is_empty()) {
                            (false, true) => "validated_semi_honest",
                            (false, false) => "validated_semi_honest_err",
                            (true, true) => "validated_malicious",
                            (true, false) => "validated_malicious_err",
                        };
                        let case = Case {
                            idx,
                            api: Api::Stream,
                            variant,
                            n,
                            w: 0, // reported from the validator's context below
                            specs,
                            src_gated,
                            acts: settled_acts(&perm, n, src_gated, &mut r),
                        };
                        match run_case(&case, malicious, batch, active) {
                            Some(out) => {
                                let mut case = case;
                                case.w = out.w;
                                rec.seen("validated_batch_and_window", format!("mal={malicious}/batch={batch}/w={}", out.w));
                                if let Some(p) = &out.teardown_panic {
                                    // not judged here: the validator's own drop check (C16 territory)
                                    rec.count("validated_validator_drop_panics_after_outcome");
                                    rec.seen("validated_drop_panic_classes", panic_class(p));
                                }
                                report(&mut rec, &case, &out.run, "tokio-paused");
                            }
                            None => rec.inconclusive(format!("case {idx}: virtual watchdog fired inside the harness controller")),
                        }
                    }
                }
            }
        }
        rec.finish();
    }
}

// ---------------------------------------------------------------------------------------------
// multi-threaded implementation on a real multi-thread runtime (build b4)
// ---------------------------------------------------------------------------------------------

#[cfg(all(feature = "multi-threading", not(feature = "shuttle")))]
mod mt {
    use std::time::Duration;

    use super::*;

    /// Tasks still pending when a fallible join returns early are cancelled by the scope, and the
    /// implementation turns a cancellation into a panic inside the spawned task (caught by tokio).
    /// These expected panics are counted instead of printed (with backtraces) for every case.
    static CANCEL_PANICS: std::sync::atomic::AtomicU64 = std::sync::atomic::AtomicU64::new(0);

    pub(super) fn count_cancel_panics() {
        static ONCE: std::sync::Once = std::sync::Once::new();
        ONCE.call_once(|| {
            vlib::quiet_panics();
            let prev = std::panic::take_hook();
            std::panic::set_hook(Box::new(move |info| {
                let msg = vlib::panic_message(info.payload());
                if msg.ends_with("cancelled") && (msg.starts_with("SequentialFutures: spawned task") || msg.starts_with("parallel_join: task")) {
                    CANCEL_PANICS.fetch_add(1, std::sync::atomic::Ordering::Relaxed);
                    return;
                }
                prev(info);
            }));
        });
    }

    pub(super) fn cancel_panics_seen() -> u64 {
        CANCEL_PANICS.swap(0, std::sync::atomic::Ordering::Relaxed)
    }

    pub(super) enum MtOut {
        /// the wall-clock deadline of run_mt expired: nothing can be concluded
        Deadline,
        Done(RunOut),
    }

    /// Gates are opened by a second task in the schedule's order with seeded yields in between;
    /// the consumer runs as a spawned task, as the protocols do.
    pub(super) fn run_case(case: &Case, workers: usize, seed: u64) -> MtOut {
        let sh = State::new(case, true);
        let sh2 = Arc::clone(&sh);
        let api = case.api;
        let w = case.w;
        let acts = case.acts.clone();
        let idx = case.idx;
        let r = vlib::run_mt(workers, Duration::from_secs(30), async move {
            let opener_sh = Arc::clone(&sh2);
            let opener = tokio::spawn(async move {
                let mut r = VRng::new(seed ^ 0x0be4, idx as u64);
                for a in acts {
                    match a {
                        Act::Open(k) => open_gate(&opener_sh, k),
                        Act::Src(k) => open_src(&opener_sh, k),
                        Act::Spurious | Act::Settle => tokio::task::yield_now().await,
                    }
                    for _ in 0..r.below(3) {
                        tokio::task::yield_now().await;
                    }
                }
            });
            let cons_sh = Arc::clone(&sh2);
            let cons = tokio::spawn(async move { consumer(api, w, &cons_sh).await });
            let res = cons.await;
            let _ = opener.await;
            res
        });
        match r {
            None => MtOut::Deadline,
            Some(Err(e)) => {
                let msg = if e.is_panic() {
                    vlib::panic_message(&*e.into_panic())
                } else {
                    "consumer task cancelled".to_string()
                };
                let st = lock(&sh);
                MtOut::Done(RunOut {
                    viol: st.viol.clone(),
                    stats: st.stats.clone(),
                    finished: false,
                    budget_exceeded: false,
                    panic: Some(msg),
                })
            }
            Some(Ok(outcome)) => {
                let mut st = lock(&sh);
                check_result(&mut st, case, &outcome);
                if !should_be_done(&st, case) && case.api == Api::Stream {
                    st.flag("harness_outcome_mismatch", json!({"finished_before_all_gates": true}));
                }
                MtOut::Done(RunOut {
                    viol: st.viol.clone(),
                    stats: st.stats.clone(),
                    finished: true,
                    budget_exceeded: false,
                    panic: None,
                })
            }
        }
    }

    pub(super) fn run_and_report(rec: &mut Recorder, case: &Case, workers: usize, timeouts: &mut usize) {
        let env = vlib::env();
        count_cancel_panics();
        match run_case(case, workers, env.seed) {
            MtOut::Done(out) => {
                report(rec, case, &out, "tokio-multi-thread");
                rec.add("mt_tasks_cancelled_with_panic", cancel_panics_seen());
            }
            MtOut::Deadline => {
                *timeouts += 1;
                rec.count("mt_deadline_expired");
                rec.inconclusive(format!(
                    "case {} ({} {} n={} w={}): run_mt wall deadline expired; no verdict (re-run the schedule on E-manual)",
                    case.idx,
                    case.api.name(),
                    case.variant,
                    case.n,
                    case.w
                ));
            }
        }
    }

    fn workers_for(idx: usize) -> usize {
        [2, 3, 4, 8][idx % 4]
    }

    /// order / exactly once / window bounds / progress with dependency chains: all permutations for
    /// small n plus seeded larger cases
    #[test]
    fn verif_c15_mt_stream() {
        let env = vlib::env();
        let mut rec = Recorder::new("C15", "verif_c15_mt_stream");
        let only = replay_case();
        let mut idx = 0usize;
        let mut timeouts = 0usize;
        let nmax = env.pick(4, 6);
        'outer: for n in 0..=nmax {
            for perm in perms(n) {
                for w in [1usize, 2, 3, 5, 8] {
                    for src_gated in [false, true] {
                        idx += 1;
                        if !env.mine(idx) || only.is_some_and(|c| c != idx) {
                            continue;
                        }
                        let mut r = VRng::new(env.seed ^ 0x57, idx as u64);
                        let case = Case {
                            idx,
                            api: Api::Stream,
                            variant: if src_gated { "src_gated" } else { "plain" },
                            n,
                            w,
                            specs: plain_specs(n),
                            src_gated,
                            acts: settled_acts(&perm, n, src_gated, &mut r),
                        };
                        run_and_report(&mut rec, &case, workers_for(idx), &mut timeouts);
                        if timeouts >= 3 {
                            break 'outer;
                        }
                    }
                }
            }
        }
        // seeded: kinds 0..3 and 6 of the seeded generator are stream cases (plain, gated source,
        // backward / forward dependencies, fallible items)
        let cases = env.pick(600, 60_000);
        for k in 0..cases {
            let sidx = 1_000_000 + k;
            if !env.mine(sidx) || only.is_some_and(|c| c != sidx) || timeouts >= 3 {
                continue;
            }
            let mut case = seeded_case(env.seed, k, 2, 40);
            if case.api != Api::Stream {
                continue;
            }
            case.idx = sidx;
            if case.variant.starts_with("dep_") {
                rec.count("mt_dependency_cases");
            }
            run_and_report(&mut rec, &case, workers_for(k), &mut timeouts);
        }
        rec.finish();
    }

    /// The multi-threaded implementation on a current-thread tokio runtime with a paused clock: spawned tasks run on
    /// the same thread, virtual time only advances when nothing is runnable, so "settle" (a 1 ns sleep) returns exactly
    /// at quiescence and the progress oracle of the single-threaded runner applies: whatever can complete with the
    /// gates opened so far must have been yielded, also while the source is still pending.
    pub(super) fn run_case_paused(case: &Case) -> RunOut {
        let sh = State::new(case, true);
        let sh2 = Arc::clone(&sh);
        let case2 = case.clone();
        let r = vlib::run_paused(Duration::from_secs(3600), async move {
            let case = case2;
            let sh = sh2;
            let cons = tokio::spawn(consumer(case.api, case.w, &sh));
            let mut acts = case.acts.clone();
            acts.push(Act::Settle);
            for a in &acts {
                match a {
                    Act::Open(k) => open_gate(&sh, *k),
                    Act::Src(k) => open_src(&sh, *k),
                    Act::Spurious => tokio::task::yield_now().await,
                    Act::Settle => {
                        vlib::settle().await;
                        let mut st = lock(&sh);
                        st.stats.quiescence_checks += 1;
                        if !cons.is_finished() {
                            if case.api == Api::Stream {
                                let p = st.completable_prefix();
                                if st.out.len() < p {
                                    let y = st.out.clone();
                                    let (t, w, a) = (st.taken, st.w, st.avail());
                                    st.flag(
                                        "no_progress",
                                        json!({"quiescent": true, "yielded": y, "completable_prefix": p, "pulled": t, "w": w,
                                               "source_available": a, "dependency": case.variant}),
                                    );
                                }
                            }
                            if should_be_done(&st, &case) {
                                let y = st.out.clone();
                                st.flag(
                                    "not_finished",
                                    json!({"quiescent": true, "yielded": y, "all_required_tasks_completable": true,
                                           "dependency": case.variant}),
                                );
                            }
                        }
                    }
                }
            }
            if cons.is_finished() {
                match cons.await {
                    Ok(outcome) => {
                        let mut st = lock(&sh);
                        check_result(&mut st, &case, &outcome);
                        (true, None)
                    }
                    Err(e) => {
                        let msg = if e.is_panic() { vlib::panic_message(&*e.into_panic()) } else { "consumer task cancelled".to_string() };
                        // A fallible join that returns early drops its scope while tasks are still pending; async_scoped then
                        // blocks in place, which tokio only allows on its multi-thread runtime. On this (current-thread, paused)
                        // executor that panic therefore IS the early return: the join had its result and left. The value it was
                        // about to return is checked by the runs on the real multi-thread runtime.
                        if msg.contains("can call blocking only when running on the multi-threaded runtime") {
                            lock(&sh).stats.early_exits_at_scope_drop += 1;
                            (true, None)
                        } else {
                            (false, Some(msg))
                        }
                    }
                }
            } else {
                cons.abort();
                let _ = cons.await;
                (false, None)
            }
        });
        let st = lock(&sh);
        match r {
            vlib::Paused::Done((finished, panic)) => RunOut { viol: st.viol.clone(), stats: st.stats.clone(), finished, budget_exceeded: false, panic },
            vlib::Paused::Quiescent => RunOut { viol: st.viol.clone(), stats: st.stats.clone(), finished: false, budget_exceeded: true, panic: None },
        }
    }

    /// progress at quiescence for the spawning implementation: the stream cases of `verif_c15_mt_stream`
    /// (all permutations for small n, gated and ungated source, dependency chains) with their settle points
    #[test]
    fn verif_c15_mt_quiescence() {
        let env = vlib::env();
        let mut rec = Recorder::new("C15", "verif_c15_mt_quiescence");
        let only = replay_case();
        count_cancel_panics();
        let mut idx = 0usize;
        let nmax = env.pick(4, 6);
        for n in 0..=nmax {
            for perm in perms(n) {
                for w in [1usize, 2, 3, 5, 8] {
                    for src_gated in [false, true] {
                        idx += 1;
                        if !env.mine(idx) || only.is_some_and(|c| c != idx) {
                            continue;
                        }
                        let mut r = VRng::new(env.seed ^ 0x58, idx as u64);
                        let case = Case {
                            idx,
                            api: Api::Stream,
                            variant: if src_gated { "src_gated" } else { "plain" },
                            n,
                            w,
                            specs: plain_specs(n),
                            src_gated,
                            acts: settled_acts(&perm, n, src_gated, &mut r),
                        };
                        let out = run_case_paused(&case);
                        report(&mut rec, &case, &out, "tokio-current-thread-paused");
                        rec.add("mt_tasks_cancelled_with_panic", cancel_panics_seen());
                    }
                }
            }
        }
        let cases = env.pick(1500, 60_000);
        for k in 0..cases {
            let sidx = 1_000_000 + k;
            if !env.mine(sidx) || only.is_some_and(|c| c != sidx) {
                continue;
            }
            let mut case = seeded_case(env.seed ^ 0x9, k, 2, 40);
            case.idx = sidx;
            rec.seen("mtq_apis", case.api.name());
            if case.src_gated {
                rec.count("mtq_gated_source_cases");
            }
            let out = run_case_paused(&case);
            report(&mut rec, &case, &out, "tokio-current-thread-paused");
            rec.add("mt_tasks_cancelled_with_panic", cancel_panics_seen());
        }
        rec.finish();
    }

    /// first error in input order (try variants), parallel_join
    #[test]
    fn verif_c15_mt_try_parallel() {
        let env = vlib::env();
        let mut rec = Recorder::new("C15", "verif_c15_mt_try_parallel");
        let only = replay_case();
        let mut idx = 0usize;
        let mut timeouts = 0usize;
        let nmax = env.pick(4, 6);
        'outer: for n in 0..=nmax {
            let mut er = VRng::new(env.seed ^ 0xe44, n as u64);
            let esets = error_sets(n, &mut er);
            for perm in perms(n) {
                for es in &esets {
                    for api in [Api::TryAll, Api::TryTrait, Api::Par] {
                        idx += 1;
                        if !env.mine(idx) || only.is_some_and(|c| c != idx) {
                            continue;
                        }
                        let mut specs = plain_specs(n);
                        for e in es {
                            specs[*e].err = true;
                        }
                        let mut r = VRng::new(env.seed ^ 0x7e1, idx as u64);
                        let case = Case {
                            idx,
                            api,
                            variant: if api == Api::Par { "par" } else { "try" },
                            n,
                            w: [1usize, 2, 3, 8][idx % 4],
                            specs,
                            src_gated: false,
                            acts: settled_acts(&perm, n, false, &mut r),
                        };
                        rec.seen("error_positions", format!("{es:?}of{n}"));
                        run_and_report(&mut rec, &case, workers_for(idx), &mut timeouts);
                        if timeouts >= 3 {
                            break 'outer;
                        }
                    }
                }
            }
        }
        let cases = env.pick(600, 60_000);
        for k in 0..cases {
            let sidx = 1_000_000 + k;
            if !env.mine(sidx) || only.is_some_and(|c| c != sidx) || timeouts >= 3 {
                continue;
            }
            let mut case = seeded_case(env.seed, k, 2, 40);
            if case.api == Api::Stream {
                continue;
            }
            case.idx = sidx;
            run_and_report(&mut rec, &case, workers_for(k), &mut timeouts);
        }
        rec.finish();
    }

    /// the reduced (Miri) case list against the multi-threaded implementation, natively
    #[test]
    fn verif_c15_mt_reduced() {
        let mut rec = Recorder::new("C15", "verif_c15_mt_reduced");
        run_reduced(&mut rec);
        rec.finish();
    }
}
