// C07 Secure arithmetic and Boolean circuits compute the stated plaintext functions.
//
// Every monitor runs the real protocol on three in-memory helpers (TestWorld, PRSS seeded from VERIF_SEED) on the
// paused-clock runtime, with the harness' own sharing of the operands and its own reconstruction:
//   (1) the three outputs must form a consistent replicated sharing (H_i.right == H_{i+1}.left, checked here),
//   (2) the opened value must equal an independent plaintext reference (u128/256-bit integer arithmetic, field
//       multiplication of the opened operands, (1/(k+x))G, saturating sums),
//   (3) every helper must return Ok: an Err / panic / quiescence of an honest run is a violation
//       (DZKP and MAC validation run on every malicious-mode execution).
// Vectorisation is the multiplier: a record carries N (up to 256) independent operand tuples.

use std::{
    future::Future,
    sync::{Arc, Mutex},
    time::Duration,
};

use futures::{
    StreamExt, TryStreamExt,
    future::{join_all, try_join_all},
    stream,
};
use serde_json::{Value, json};

use super::vlib::{self, Paused, Recorder, VRng, catch_fut};
use crate::{
    error::Error,
    ff::{
        ArrayAccess, Field, Fp31, Fp32BitPrime, Fp61BitPrime, Gf2, Gf3Bit, Gf8Bit, Gf9Bit, Gf20Bit, Gf32Bit, Gf40Bit,
        PrimeField, Serializable, U128Conversions,
        boolean::Boolean,
        boolean_array::{BA3, BA5, BA8, BA16, BA20, BA32, BA64, BA256, BooleanArray},
        curve_points::RP25519,
        ec_prime_field::Fp25519,
    },
    helpers::Role,
    protocol::{
        RecordId,
        basics::{
            BooleanArrayMul, BooleanProtocols, Reshare, SecureMul, ShareKnownValue, select,
            share_validation::validate_replicated_shares,
        },
        boolean::{
            and::bool_and_8_bit,
            or::{bool_or, or},
            step::DefaultBitStep,
        },
        context::{
            Context, TEST_DZKP_STEPS, UpgradableContext, UpgradedContext, UpgradedMaliciousContext, Validator,
            dzkp_field::DZKPCompatibleField, dzkp_validator::DZKPValidator, upgrade::Upgradable,
        },
        ipa_prf::{
            aggregation::aggregate_values,
            boolean_ops::{
                addition_sequential::{integer_add, integer_sat_add},
                comparison_and_subtraction_sequential::{compare_geq, compare_gt, integer_sat_sub, integer_sub},
                convert_to_fp25519,
            },
            prf_eval::eval_dy_prf,
        },
        prss::FromPrss,
    },
    secret_sharing::{
        BitDecomposed, FieldSimd, SharedValue, SharedValueArray, Vectorizable,
        replicated::{
            ReplicatedSecretSharing,
            malicious::{ExtendableField, ExtendableFieldSimd, ThisCodeIsAuthorizedToDowngradeFromMalicious},
            semi_honest::AdditiveShare,
        },
    },
    seq_join::{SeqJoin, seq_join},
    test_fixture::{TestWorld, TestWorldConfig},
};

// ---------------------------------------------------------------------------------------------
// 256-bit plaintext integers (reference arithmetic is done on these, never on bit vectors)
// ---------------------------------------------------------------------------------------------

#[derive(Clone, Copy, PartialEq, Eq, Hash, Debug, PartialOrd, Ord, Default)]
struct W {
    hi: u128,
    lo: u128,
}

impl W {
    const ZERO: W = W { hi: 0, lo: 0 };
    const ONE: W = W { hi: 0, lo: 1 };
    fn of(v: u128) -> W {
        W { hi: 0, lo: v }
    }
    fn bit(&self, i: usize) -> bool {
        if i < 128 {
            (self.lo >> i) & 1 == 1
        } else if i < 256 {
            (self.hi >> (i - 128)) & 1 == 1
        } else {
            false
        }
    }
    fn set_bit(&mut self, i: usize, b: bool) {
        if !b {
            return;
        }
        if i < 128 {
            self.lo |= 1 << i;
        } else if i < 256 {
            self.hi |= 1 << (i - 128);
        }
    }
    fn pow2(k: usize) -> W {
        let mut w = W::ZERO;
        w.set_bit(k, true);
        w
    }
    /// 2^bits - 1
    fn mask(bits: usize) -> W {
        match bits {
            0 => W::ZERO,
            b if b < 128 => W { hi: 0, lo: (1u128 << b) - 1 },
            128 => W { hi: 0, lo: u128::MAX },
            b if b < 256 => W { hi: (1u128 << (b - 128)) - 1, lo: u128::MAX },
            _ => W { hi: u128::MAX, lo: u128::MAX },
        }
    }
    fn and(self, o: W) -> W {
        W { hi: self.hi & o.hi, lo: self.lo & o.lo }
    }
    fn or(self, o: W) -> W {
        W { hi: self.hi | o.hi, lo: self.lo | o.lo }
    }
    fn trunc(self, bits: usize) -> W {
        self.and(W::mask(bits))
    }
    /// (self + o) mod 2^256 and the carry out of bit 255
    fn add(self, o: W) -> (W, bool) {
        let (lo, c0) = self.lo.overflowing_add(o.lo);
        let (h1, c1) = self.hi.overflowing_add(o.hi);
        let (hi, c2) = h1.overflowing_add(u128::from(c0));
        (W { hi, lo }, c1 || c2)
    }
    /// (self - o) mod 2^256 and the borrow
    fn sub(self, o: W) -> (W, bool) {
        let (lo, b0) = self.lo.overflowing_sub(o.lo);
        let (h1, b1) = self.hi.overflowing_sub(o.hi);
        let (hi, b2) = h1.overflowing_sub(u128::from(b0));
        (W { hi, lo }, b1 || b2)
    }
    fn hex(&self) -> String {
        if self.hi == 0 { format!("{:x}", self.lo) } else { format!("{:x}{:032x}", self.hi, self.lo) }
    }
    fn rand(r: &mut VRng, bits: usize) -> W {
        W { hi: r.u128(), lo: r.u128() }.trunc(bits)
    }
}

/// Boundary operands of a given width: 0, 1, 2, 3, max, max-1, max-2, 2^k, 2^k-1, 2^k+1 around the middle, the
/// top and the 64/128-bit limb borders, alternating patterns, and `nrand` seeded values.
fn boundary_vals(bits: usize, r: &mut VRng, nrand: usize) -> Vec<W> {
    let m = W::mask(bits);
    let mut v = vec![W::ZERO, W::ONE, W::of(2), W::of(3), m, m.sub(W::ONE).0, m.sub(W::of(2)).0];
    let mut ks = vec![1usize, bits / 2, bits.saturating_sub(2), bits.saturating_sub(1)];
    for k in [63usize, 64, 65, 127, 128, 129] {
        if k < bits {
            ks.push(k);
        }
    }
    for k in ks {
        if k < bits {
            let p = W::pow2(k);
            v.push(p);
            v.push(p.sub(W::ONE).0);
            v.push(p.add(W::ONE).0);
        }
    }
    let a5 = W { hi: 0x5555_5555_5555_5555_5555_5555_5555_5555, lo: 0x5555_5555_5555_5555_5555_5555_5555_5555 };
    v.push(a5.trunc(bits));
    v.push(a5.add(a5).0.trunc(bits));
    for _ in 0..nrand {
        v.push(W::rand(r, bits));
    }
    for x in &mut v {
        *x = x.trunc(bits);
    }
    v.sort();
    v.dedup();
    v
}

/// Operand pairs for an (xl, yl)-bit binary circuit: boundary x boundary, equal operands, pairs summing to exactly
/// 2^xl - 1 (no carry, all ones), to exactly 2^xl (carry ripples through every bit), neighbours, and seeded pairs.
fn boundary_pairs(xl: usize, yl: usize, r: &mut VRng, nrand_vals: usize, nrand_pairs: usize) -> Vec<(W, W)> {
    let bx = boundary_vals(xl, r, nrand_vals);
    let by = boundary_vals(yl, r, nrand_vals);
    let mx = W::mask(xl);
    let mut p = Vec::new();
    for x in &bx {
        for y in &by {
            p.push((*x, *y));
        }
        let comp = mx.sub(*x).0; // x + comp = 2^xl - 1
        p.push((*x, x.trunc(yl)));
        p.push((*x, comp.trunc(yl)));
        p.push((*x, comp.add(W::ONE).0.trunc(yl)));
        p.push((*x, x.add(W::ONE).0.trunc(yl)));
        p.push((*x, x.sub(W::ONE).0.trunc(xl).trunc(yl)));
    }
    for _ in 0..nrand_pairs {
        let x = W::rand(r, xl);
        let y = W::rand(r, yl);
        p.push((x, y));
        // a random pair and its carry-critical companions
        let comp = mx.sub(x).0;
        p.push((x, comp.trunc(yl)));
        p.push((x, comp.add(W::ONE).0.trunc(yl)));
    }
    p.sort();
    p.dedup();
    p
}

fn all_pairs(xl: usize, yl: usize) -> Vec<(W, W)> {
    let mut p = Vec::with_capacity(1 << (xl + yl));
    for x in 0..(1u128 << xl) {
        for y in 0..(1u128 << yl) {
            p.push((W::of(x), W::of(y)));
        }
    }
    p
}

// ---------------------------------------------------------------------------------------------
// own sharing / opening of vectorised bit-decomposed values
// ---------------------------------------------------------------------------------------------

type BS<const N: usize> = BitDecomposed<AdditiveShare<Boolean, N>>;
type BArr<const N: usize> = <Boolean as Vectorizable<N>>::Array;

/// Shares `bits` bits of up to N lane values: x = s0 ^ s1 ^ s2, helper i holds (s_i, s_{i+1}). Unused lanes are 0.
fn share_lanes<const N: usize>(vals: &[W], bits: usize, r: &mut VRng) -> [BS<N>; 3]
where
    Boolean: FieldSimd<N>,
{
    assert!(vals.len() <= N);
    let mut out: [BS<N>; 3] = std::array::from_fn(|_| BitDecomposed::with_capacity(bits));
    let mut s = [vec![false; N], vec![false; N], vec![false; N]];
    for i in 0..bits {
        let mut word = 0u64;
        for lane in 0..N {
            if lane % 32 == 0 {
                word = r.next();
            }
            let v = vals.get(lane).is_some_and(|w| w.bit(i));
            let a = word & 1 == 1;
            let b = word & 2 == 2;
            word >>= 2;
            s[0][lane] = a;
            s[1][lane] = b;
            s[2][lane] = v ^ a ^ b;
        }
        let arr: [BArr<N>; 3] = std::array::from_fn(|k| <BArr<N>>::from_fn(|l| Boolean::from(s[k][l])));
        for k in 0..3 {
            out[k].push(AdditiveShare::new_arr(arr[k].clone(), arr[(k + 1) % 3].clone()));
        }
    }
    out
}

/// Opens three helpers' bit-decomposed outputs; Err(description) when the sharing is not consistent.
fn open_lanes<const N: usize>(h: [&BS<N>; 3], lanes: usize) -> Result<(usize, Vec<W>), String>
where
    Boolean: FieldSimd<N>,
{
    let bits = h[0].len();
    if h[1].len() != bits || h[2].len() != bits {
        return Err(format!("output bit lengths differ: {} {} {}", h[0].len(), h[1].len(), h[2].len()));
    }
    let mut out = vec![W::ZERO; lanes.min(N)];
    for i in 0..bits {
        for k in 0..3 {
            if h[k][i].right_arr() != h[(k + 1) % 3][i].left_arr() {
                return Err(format!("bit {i}: H{}.right != H{}.left", k + 1, (k + 1) % 3 + 1));
            }
        }
        let sum = h[0][i].left_arr().clone() + h[1][i].left_arr() + h[2][i].left_arr();
        for (lane, b) in sum.into_iter().enumerate().take(out.len()) {
            out[lane].set_bit(i, bool::from(b));
        }
    }
    Ok((bits, out))
}

// ---------------------------------------------------------------------------------------------
// three-helper runner
// ---------------------------------------------------------------------------------------------

#[derive(Clone, Copy, Debug, PartialEq, Eq, Hash)]
enum Mode {
    /// plain semi-honest context
    Sh,
    /// DZKP-upgraded semi-honest context
    DzkpSh,
    /// DZKP-upgraded malicious context; the proof is generated and verified in every run
    DzkpMal,
    /// MAC-upgraded semi-honest context
    MacSh,
    /// MAC-upgraded malicious context; MACs are validated for every record
    MacMal,
}
impl Mode {
    fn name(self) -> &'static str {
        match self {
            Mode::Sh => "semi_honest",
            Mode::DzkpSh => "dzkp_semi_honest",
            Mode::DzkpMal => "dzkp_malicious",
            Mode::MacSh => "mac_semi_honest",
            Mode::MacMal => "mac_malicious",
        }
    }
}

type Slots<O> = Arc<Mutex<[Option<Result<O, String>>; 3]>>;
fn new_slots<O>() -> Slots<O> {
    Arc::new(Mutex::new([None, None, None]))
}

fn mk_world(seed: u64) -> TestWorld {
    let mut cfg = TestWorldConfig::default();
    cfg.seed = seed;
    cfg.timeout = None;
    TestWorld::new_with(&cfg)
}

/// Runs `f(ctx_i, input_i)` for the three helpers concurrently; a panic or an error of one helper is caught and
/// stored in its slot (the other two may then never finish: the caller sees that as quiescence).
async fn run3<C, I, O, F, Fut>(ctxs: [C; 3], inputs: [I; 3], slots: &Slots<O>, f: F)
where
    F: Fn(C, I) -> Fut,
    Fut: Future<Output = Result<O, Error>>,
{
    let f = &f;
    join_all(ctxs.into_iter().zip(inputs).enumerate().map(|(i, (c, inp))| async move {
        let r = catch_fut(async move { f(c, inp).await }).await;
        let v = match r {
            Ok(Ok(o)) => Ok(o),
            Ok(Err(e)) => Err(format!("error: {e:?}")),
            Err(p) => Err(format!("panic: {p}")),
        };
        slots.lock().unwrap()[i] = Some(v);
    }))
    .await;
}

/// `world_run!(Mode, seed, slots, inputs, total_records, |ctx, inp| body)` -> bool (true = quiescent without finishing).
/// `body` is an expression of type Result<O, Error> that may use `ctx` (already upgraded for the mode, with total_records
/// set unless `total_records == 0`) and `inp`. Modes:
///   Sh                  plain semi-honest context
///   DzkpSh / DzkpMal    DZKP-upgraded context, one proof over everything at the end (`validate()`)
///   DzkpShRec / DzkpMalRec (extra arg: records per proof batch) for protocols that call `validate_record` themselves
///   MacSh<F> / MacMal<F>   MAC-upgraded context (`validator::<F>()`); the body validates records itself
macro_rules! world_run {
    (@go $ctxs:ident, $seed:expr, $slots:expr, $inputs:expr, |$c:ident, $inp:ident| $inner:expr) => {{
        let slots = $slots.clone();
        let inputs = $inputs;
        let seed: u64 = $seed;
        matches!(
            vlib::run_paused(Duration::from_secs(60), async move {
                let world = mk_world(seed);
                run3(world.$ctxs(), inputs, &slots, |$c, $inp| async move { $inner }).await;
            }),
            Paused::Quiescent
        )
    }};
    (@dzkp $ctxs:ident, $validate:expr, $seed:expr, $slots:expr, $inputs:expr, $total:expr, $batch:expr, |$ctx:ident, $inp:ident| $body:expr) => {{
        let total: usize = $total;
        let batch: usize = $batch;
        world_run!(@go $ctxs, $seed, $slots, $inputs, |c, $inp| {
            let c = if total > 0 { c.set_total_records(total) } else { c };
            // the batch size of the malicious validator becomes its active-work window: must be a power of two
            let v = c.dzkp_validator(TEST_DZKP_STEPS, batch.max(1).next_power_of_two());
            let $ctx = v.context();
            let out = $body;
            if out.is_err() {
                let _ = vlib::catch(move || drop(v));
                return out;
            }
            if $validate {
                v.validate().await?;
            } else {
                drop(v); // panics if multiplications were left unverified (caught by run3)
            }
            out
        })
    }};
    (Sh, $seed:expr, $slots:expr, $inputs:expr, $total:expr, |$ctx:ident, $inp:ident| $body:expr) => {{
        let total: usize = $total;
        world_run!(@go contexts, $seed, $slots, $inputs, |c, $inp| {
            let $ctx = if total > 0 { c.set_total_records(total) } else { c };
            $body
        })
    }};
    (DzkpSh, $seed:expr, $slots:expr, $inputs:expr, $total:expr, |$ctx:ident, $inp:ident| $body:expr) => {
        world_run!(@dzkp contexts, true, $seed, $slots, $inputs, $total, $total, |$ctx, $inp| $body)
    };
    (DzkpMal, $seed:expr, $slots:expr, $inputs:expr, $total:expr, |$ctx:ident, $inp:ident| $body:expr) => {
        world_run!(@dzkp malicious_contexts, true, $seed, $slots, $inputs, $total, $total, |$ctx, $inp| $body)
    };
    (DzkpShRec, $seed:expr, $slots:expr, $inputs:expr, $total:expr, $batch:expr, |$ctx:ident, $inp:ident| $body:expr) => {
        world_run!(@dzkp contexts, false, $seed, $slots, $inputs, $total, $batch, |$ctx, $inp| $body)
    };
    (DzkpMalRec, $seed:expr, $slots:expr, $inputs:expr, $total:expr, $batch:expr, |$ctx:ident, $inp:ident| $body:expr) => {
        world_run!(@dzkp malicious_contexts, false, $seed, $slots, $inputs, $total, $batch, |$ctx, $inp| $body)
    };
    (MacSh<$f:ty>, $seed:expr, $slots:expr, $inputs:expr, $total:expr, |$ctx:ident, $inp:ident| $body:expr) => {{
        let total: usize = $total;
        world_run!(@go contexts, $seed, $slots, $inputs, |c, $inp| {
            let v = c.set_total_records(total).validator::<$f>();
            let $ctx = v.context();
            let out = $body;
            let _ = vlib::catch(move || drop(v));
            out
        })
    }};
    (MacMal<$f:ty>, $seed:expr, $slots:expr, $inputs:expr, $total:expr, |$ctx:ident, $inp:ident| $body:expr) => {{
        let total: usize = $total;
        world_run!(@go malicious_contexts, $seed, $slots, $inputs, |c, $inp| {
            let v = c.set_total_records(total).validator::<$f>();
            let $ctx = v.context();
            let out = $body;
            let _ = vlib::catch(move || drop(v));
            out
        })
    }};
}

/// Outcome of one world run after opening: per record (output bit length, lane values), or a classified failure.
enum Exec {
    /// per record: (main output bits, lane values, extra output bits, lane values)
    Ok(Vec<(usize, Vec<W>, usize, Vec<W>)>),
    Fail { kind: &'static str, detail: String, helpers: Vec<String> },
}

fn slot_brief<O>(s: &Option<Result<O, String>>) -> String {
    match s {
        None => "no_output".into(),
        Some(Ok(_)) => "ok".into(),
        Some(Err(e)) => e.chars().take(160).collect(),
    }
}

/// Classifies helper outcomes that are not three Ok's. Precedence: panic, error, no completion.
fn classify_fail<O>(slots: &[Option<Result<O, String>>; 3], quiescent: bool) -> Option<Exec> {
    let briefs: Vec<String> = slots.iter().map(slot_brief).collect();
    let any = |p: &str| briefs.iter().any(|b| b.starts_with(p));
    let kind = if any("panic:") {
        "panic"
    } else if any("error:") {
        "error"
    } else if quiescent || any("no_output") {
        "no_completion"
    } else {
        return None;
    };
    let detail = briefs.iter().find(|b| b.starts_with("panic:") || b.starts_with("error:")).cloned().unwrap_or_default();
    Some(Exec::Fail { kind, detail, helpers: briefs })
}

/// stable class of an error / panic text for signatures (digits collapsed)
fn msg_class(msg: &str) -> String {
    let mut s: String = msg.chars().map(|c| if c.is_ascii_digit() { '#' } else { c }).collect();
    while s.contains("##") {
        s = s.replace("##", "#");
    }
    s.truncate(100);
    s
}

// ---------------------------------------------------------------------------------------------
// vectorised Boolean circuits: integer_add, integer_sat_add, compare_gt, integer_mul, bool_or, bool_and_8_bit
// ---------------------------------------------------------------------------------------------

#[derive(Clone, Copy, Debug, PartialEq, Eq, Hash)]
enum Op {
    Add,
    SatAdd,
    Gt,
    Or,
    And,
    Mul,
    // N = 1 only
    Sub,
    Geq,
    SatSub,
    Select,
}
impl Op {
    fn name(self) -> &'static str {
        match self {
            Op::Add => "integer_add",
            Op::SatAdd => "integer_sat_add",
            Op::Gt => "compare_gt",
            Op::Or => "bool_or",
            Op::And => "bool_and_8_bit",
            Op::Mul => "integer_mul",
            Op::Sub => "integer_sub",
            Op::Geq => "compare_geq",
            Op::SatSub => "integer_sat_sub",
            Op::Select => "select",
        }
    }
    /// Independent plaintext reference: (expected output bit length, expected value) for x of xl bits, y of yl bits
    /// (and a condition bit c for select).
    fn reference(self, xl: usize, yl: usize, x: W, y: W, c: W) -> (usize, W, usize, W) {
        let (b, v, eb, ev) = self.reference4(xl, yl, x, y, c);
        (b, v, eb, ev)
    }
    fn reference4(self, xl: usize, yl: usize, x: W, y: W, c: W) -> (usize, W, usize, W) {
        let yt = y.trunc(xl); // bits of y beyond the width of x are ignored by add / sub
        let _ = yl;
        let plain = |b: usize, v: W| (b, v, 0usize, W::ZERO);
        match self {
            Op::Add => {
                let (s, c256) = x.add(yt);
                let carry = if xl == 256 { c256 } else { s.bit(xl) };
                (xl, s.trunc(xl), 1, W::of(u128::from(carry))) // sum, and the carry as the extra output
            }
            Op::SatAdd => {
                let (s, c256) = x.add(yt);
                let carry = if xl == 256 { c256 } else { s.bit(xl) };
                plain(xl, if carry { W::mask(xl) } else { s.trunc(xl) })
            }
            Op::Gt => plain(1, W::of(u128::from(x > y))),
            Op::Geq => plain(1, W::of(u128::from(x >= y))),
            Op::Sub => plain(xl, x.sub(yt).0.trunc(xl)),
            Op::SatSub => plain(xl, if x >= y { x.sub(y).0 } else { W::ZERO }),
            Op::Or => plain(xl, x.or(y)),
            Op::And => plain(xl, x.and(y)),
            Op::Mul => {
                // x is unsigned (xl bits), y is read in two's complement (yl bits); the product has xl + yl bits
                let (xv, yv) = (x.lo, y.lo);
                let bits = xl + yl;
                let y_signed: i128 = if y.bit(yl - 1) { yv as i128 - (1i128 << yl) } else { yv as i128 };
                let prod = (xv as i128).wrapping_mul(y_signed) as u128;
                plain(bits, W::of(prod).trunc(bits))
            }
            Op::Select => plain(xl, if c.bit(0) { x } else { y }),
        }
    }
}

#[derive(Clone, Debug)]
struct Rec {
    xl: usize,
    yl: usize,
    /// (x, y, c) per lane; c is only used by select
    lanes: Vec<(W, W, W)>,
}

#[derive(Clone, Debug)]
struct Case {
    op: Op,
    mode: Mode,
    n: usize,
    recs: Vec<Rec>,
    class: &'static str,
}

/// Packs operand pairs into records of `n` lanes and cases of at most `recs_per_case` records.
fn pack_cases(
    out: &mut Vec<Case>,
    op: Op,
    mode: Mode,
    n: usize,
    xl: usize,
    yl: usize,
    pairs: &[(W, W)],
    recs_per_case: usize,
    class: &'static str,
) {
    let recs: Vec<Rec> = pairs
        .chunks(n)
        .map(|ch| Rec { xl, yl, lanes: ch.iter().map(|(x, y)| (*x, *y, W::ZERO)).collect() })
        .collect();
    for ch in recs.chunks(recs_per_case) {
        out.push(Case { op, mode, n, recs: ch.to_vec(), class });
    }
}

/// output of one record: main output and an optional extra output (the carry of integer_add)
type RO<const N: usize> = (BS<N>, BS<N>);
type Shares3<const N: usize> = [(Vec<BS<N>>, Vec<BS<N>>, Vec<BS<N>>); 3];

fn share_recs<const N: usize>(recs: &[Rec], r: &mut VRng) -> Shares3<N>
where
    Boolean: FieldSimd<N>,
{
    let mut out: Shares3<N> = std::array::from_fn(|_| (Vec::new(), Vec::new(), Vec::new()));
    for rec in recs {
        let xs: Vec<W> = rec.lanes.iter().map(|l| l.0).collect();
        let ys: Vec<W> = rec.lanes.iter().map(|l| l.1).collect();
        let cs: Vec<W> = rec.lanes.iter().map(|l| l.2).collect();
        let x3 = share_lanes::<N>(&xs, rec.xl, r);
        let y3 = share_lanes::<N>(&ys, rec.yl, r);
        let c3 = share_lanes::<N>(&cs, 1, r);
        for (k, ((x, y), c)) in x3.into_iter().zip(y3).zip(c3).enumerate() {
            out[k].0.push(x);
            out[k].1.push(y);
            out[k].2.push(c);
        }
    }
    out
}

fn open_recs<const N: usize>(slots: Slots<Vec<RO<N>>>, quiescent: bool, recs: &[Rec]) -> Exec
where
    Boolean: FieldSimd<N>,
{
    let g = slots.lock().unwrap();
    if let Some(f) = classify_fail(&g, quiescent) {
        return f;
    }
    let h: Vec<&Vec<RO<N>>> = g.iter().map(|s| s.as_ref().unwrap().as_ref().unwrap()).collect();
    if h.iter().any(|v| v.len() != recs.len()) {
        return Exec::Fail {
            kind: "wrong_output_count",
            detail: format!("{} records in, outputs {:?}", recs.len(), h.iter().map(|v| v.len()).collect::<Vec<_>>()),
            helpers: vec![],
        };
    }
    let mut out = Vec::with_capacity(recs.len());
    for (i, rec) in recs.iter().enumerate() {
        let main = open_lanes::<N>([&h[0][i].0, &h[1][i].0, &h[2][i].0], rec.lanes.len());
        let extra = open_lanes::<N>([&h[0][i].1, &h[1][i].1, &h[2][i].1], rec.lanes.len());
        match (main, extra) {
            (Ok((b, v)), Ok((eb, ev))) => out.push((b, v, eb, ev)),
            (Err(e), _) | (_, Err(e)) => {
                return Exec::Fail { kind: "inconsistent_shares", detail: format!("record {i}: {e}"), helpers: vec![] };
            }
        }
    }
    Exec::Ok(out)
}

async fn vop_record<C, const N: usize>(op: Op, ctx: C, rid: RecordId, x: &BS<N>, y: &BS<N>) -> Result<RO<N>, Error>
where
    C: Context,
    Boolean: FieldSimd<N>,
    AdditiveShare<Boolean, N>: BooleanProtocols<C, N>,
{
    let none = || BitDecomposed::new(std::iter::empty());
    match op {
        Op::Add => {
            let (s, c) = integer_add::<_, DefaultBitStep, N>(ctx, rid, x, y).await?;
            Ok((s, BitDecomposed::new([c])))
        }
        Op::SatAdd => Ok((integer_sat_add::<_, DefaultBitStep, N>(ctx, rid, x, y).await?, none())),
        Op::Gt => Ok((BitDecomposed::new([compare_gt::<_, DefaultBitStep, N>(ctx, rid, x, y).await?]), none())),
        Op::Mul => Ok((crate::protocol::ipa_prf::boolean_ops::verif_integer_mul::<_, DefaultBitStep, N>(ctx, rid, x, y).await?, none())),
        _ => bop_record::<C, N>(op, ctx, rid, x, y).await,
    }
}

async fn bop_record<C, const N: usize>(op: Op, ctx: C, rid: RecordId, x: &BS<N>, y: &BS<N>) -> Result<RO<N>, Error>
where
    C: Context,
    Boolean: FieldSimd<N>,
    AdditiveShare<Boolean, N>: SecureMul<C>,
{
    let none = BitDecomposed::new(std::iter::empty());
    match op {
        Op::Or => Ok((bool_or::<_, DefaultBitStep, _, N>(ctx, rid, x, y.iter()).await?, none)),
        Op::And => Ok((bool_and_8_bit(ctx, rid, x, y.iter()).await?, none)),
        o => panic!("harness: {o:?} is not a vector op"),
    }
}

async fn vop_all<C, const N: usize>(op: Op, ctx: C, xs: Vec<BS<N>>, ys: Vec<BS<N>>) -> Result<Vec<RO<N>>, Error>
where
    C: Context,
    Boolean: FieldSimd<N>,
    AdditiveShare<Boolean, N>: BooleanProtocols<C, N>,
{
    let futs = xs.into_iter().zip(ys).enumerate().map(|(i, (x, y))| {
        let ctx = ctx.clone();
        async move { vop_record::<C, N>(op, ctx, RecordId::from(i), &x, &y).await }
    });
    seq_join(ctx.active_work(), stream::iter(futs)).try_collect().await
}

async fn bop_all<C, const N: usize>(op: Op, ctx: C, xs: Vec<BS<N>>, ys: Vec<BS<N>>) -> Result<Vec<RO<N>>, Error>
where
    C: Context,
    Boolean: FieldSimd<N>,
    AdditiveShare<Boolean, N>: SecureMul<C>,
{
    let futs = xs.into_iter().zip(ys).enumerate().map(|(i, (x, y))| {
        let ctx = ctx.clone();
        async move { bop_record::<C, N>(op, ctx, RecordId::from(i), &x, &y).await }
    });
    seq_join(ctx.active_work(), stream::iter(futs)).try_collect().await
}

/// exec_v_impl!(fn_name, N, [DZKP modes with BooleanProtocols<_, N>]) – the (N, mode) pairs the type system admits.
macro_rules! exec_v_impl {
    ($name:ident, $n:expr, [$($mode:ident),*]) => {
        fn $name(case: &Case, seed: u64) -> Exec {
            const N: usize = $n;
            let mut r = VRng::new(seed ^ 0xc07, 1);
            let shares = share_recs::<N>(&case.recs, &mut r);
            let slots: Slots<Vec<RO<N>>> = new_slots();
            let op = case.op;
            let total = case.recs.len();
            let bop = matches!(op, Op::Or | Op::And);
            let quiescent = match (case.mode, bop) {
                (Mode::Sh, true) => world_run!(Sh, seed, slots, shares, total, |ctx, inp| bop_all::<_, N>(op, ctx, inp.0, inp.1).await),
                (Mode::DzkpSh, true) => world_run!(DzkpSh, seed, slots, shares, total, |ctx, inp| bop_all::<_, N>(op, ctx, inp.0, inp.1).await),
                (Mode::DzkpMal, true) => world_run!(DzkpMal, seed, slots, shares, total, |ctx, inp| bop_all::<_, N>(op, ctx, inp.0, inp.1).await),
                $( (Mode::$mode, false) => world_run!($mode, seed, slots, shares, total, |ctx, inp| vop_all::<_, N>(op, ctx, inp.0, inp.1).await), )*
                (m, _) => panic!("harness: {:?} in mode {m:?} is not available for N={}", op, N),
            };
            open_recs::<N>(slots, quiescent, &case.recs)
        }
    };
}

exec_v_impl!(exec_v1, 1, [DzkpSh, DzkpMal]);
exec_v_impl!(exec_v3, 3, [DzkpSh]);
exec_v_impl!(exec_v8, 8, [DzkpSh]);
exec_v_impl!(exec_v16, 16, [DzkpSh, DzkpMal]);
exec_v_impl!(exec_v32, 32, [DzkpSh, DzkpMal]);
exec_v_impl!(exec_v256, 256, [DzkpSh, DzkpMal]);

fn exec_case(case: &Case, seed: u64) -> Exec {
    if matches!(case.op, Op::Sub | Op::Geq | Op::SatSub | Op::Select) {
        assert_eq!(case.n, 1, "harness: {:?} is not vectorised", case.op);
        return exec_s(case, seed);
    }
    match case.n {
        1 => exec_v1(case, seed),
        3 => exec_v3(case, seed),
        8 => exec_v8(case, seed),
        16 => exec_v16(case, seed),
        32 => exec_v32(case, seed),
        256 => exec_v256(case, seed),
        n => panic!("harness: no executor for N={n}"),
    }
}

/// does BooleanProtocols<DZKP malicious, N> exist?
fn mal_has(n: usize) -> bool {
    matches!(n, 1 | 16 | 32 | 256)
}

fn tier_name() -> &'static str {
    if vlib::env().thorough { "thorough" } else { "quick" }
}

/// `./check C07 --replay <witness> --tier <witness.tier> --seed <witness.seed>` re-runs exactly the recorded case.
fn replay_case() -> Option<usize> {
    let p = vlib::env().replay?;
    let w: Value = serde_json::from_str(&std::fs::read_to_string(p).ok()?).ok()?;
    w["witness"]["case"].as_u64().map(|v| v as usize)
}

/// Runs one case and compares every lane with the reference.
fn run_and_check(rec: &mut Recorder, idx: usize, case: &Case, seed: u64) {
    let world_seed = seed.wrapping_mul(0x9E37_79B9).wrapping_add(idx as u64);
    let exec = exec_case(case, world_seed);
    let op = case.op;
    rec.seen("ops", op.name());
    rec.seen("modes", case.mode.name());
    rec.seen("lane_widths", format!("{}", case.n));
    rec.seen("op_mode_n", format!("{}/{}/{}", op.name(), case.mode.name(), case.n));
    rec.count(&format!("runs_{}", case.mode.name()));
    let desc = |r: usize, l: usize| -> Value {
        let rc = &case.recs[r];
        let (x, y, c) = rc.lanes[l];
        json!({"record": r, "lane": l, "xl": rc.xl, "yl": rc.yl, "x": x.hex(), "y": y.hex(), "c": c.hex()})
    };
    match exec {
        Exec::Fail { kind, detail, helpers } => {
            rec.eval();
            let first = desc(0, 0);
            rec.violation(
                &format!("{} on an honest run of {} ({}, N={})", kind, op.name(), case.mode.name(), case.n),
                json!({"kind": kind, "op": op.name(), "mode": case.mode.name(), "n": case.n, "class": msg_class(&detail)}),
                json!({"tier": tier_name(), "case": idx, "class": case.class, "world_seed": world_seed, "detail": detail, "helpers": helpers,
                       "records": case.recs.len(), "first_operands": first,
                       "widths": case.recs.iter().map(|r| (r.xl, r.yl)).collect::<Vec<_>>()}),
            );
        }
        Exec::Ok(outs) => {
            let mut bad = 0u64;
            let mut first_bad: Option<Value> = None;
            for (ri, (rc, (bits, vals, xbits, xvals))) in case.recs.iter().zip(&outs).enumerate() {
                rec.seen("widths", format!("{}/{}", rc.xl, rc.yl));
                for (li, (x, y, c)) in rc.lanes.iter().enumerate() {
                    let (ebits, ev, exbits, exv) = op.reference(rc.xl, rc.yl, *x, *y, *c);
                    rec.eval();
                    let extra_ok = *xbits == exbits && (exbits == 0 || xvals[li] == exv);
                    if *bits == ebits && vals[li] == ev && extra_ok {
                        rec.distinct(&(op, case.mode, case.n, rc.xl, rc.yl, *x, *y, *c));
                    } else {
                        bad += 1;
                        if first_bad.is_none() {
                            let mut d = desc(ri, li);
                            d["got"] = json!(vals[li].hex());
                            d["expected"] = json!(ev.hex());
                            d["got_bits"] = json!(bits);
                            d["expected_bits"] = json!(ebits);
                            if exbits > 0 || *xbits > 0 {
                                d["got_extra"] = json!(xvals.get(li).map(W::hex));
                                d["expected_extra"] = json!(exv.hex());
                                d["got_extra_bits"] = json!(xbits);
                            }
                            first_bad = Some(d);
                        }
                    }
                }
            }
            rec.add(&format!("tuples_{}", op.name()), case.recs.iter().map(|r| r.lanes.len() as u64).sum());
            if let Some(fb) = first_bad {
                rec.violation(
                    &format!("{} opened to a value different from the plaintext reference ({}, N={})", op.name(), case.mode.name(), case.n),
                    json!({"kind": "wrong_value", "op": op.name(), "mode": case.mode.name(), "n": case.n}),
                    json!({"tier": tier_name(), "case": idx, "class": case.class, "world_seed": world_seed, "mismatching_lanes": bad, "first": fb}),
                );
            } else if rec.want_sample() && idx % 5 == 0 {
                let mut d = desc(0, 0);
                d["out"] = json!(outs[0].1[0].hex());
                d["case"] = json!(idx);
                d["op"] = json!(op.name());
                d["mode"] = json!(case.mode.name());
                d["n"] = json!(case.n);
                d["class"] = json!(case.class);
                rec.sample(d);
            }
        }
    }
}

fn run_cases(test: &'static str, cases: Vec<Case>) {
    let env = vlib::env();
    let mut rec = Recorder::new("C07", test);
    let only = replay_case();
    for (idx, case) in cases.iter().enumerate() {
        if !env.mine(idx) || only.is_some_and(|c| c != idx) {
            continue;
        }
        run_and_check(&mut rec, idx, case, env.seed);
    }
    rec.finish();
}

const DZKP: [Mode; 2] = [Mode::DzkpSh, Mode::DzkpMal];

/// Cases shared by the adder-like vector circuits (integer_add, integer_sat_add, compare_gt).
fn adder_like_cases(op: Op, exhaustive8: bool) -> Vec<Case> {
    let env = vlib::env();
    let mut r = VRng::new(env.seed ^ 0xadd0, op as u64);
    let mut cases = Vec::new();
    let unequal_ok = matches!(op, Op::Add | Op::Gt | Op::SatAdd);
    // (a) every operand pair for every width pair <= 4 bits, both DZKP modes, N = 256 (and N = 1/16/32 spot lanes below)
    for mode in DZKP {
        for xl in 1..=4usize {
            for yl in 1..=4usize {
                if !allowed_widths(op, xl, yl, unequal_ok) {
                    continue;
                }
                let mut pairs = all_pairs(xl, yl);
                if op == Op::Gt && yl > xl {
                    pairs.retain(|(_, y)| y.trunc(xl) == *y); // excess bits of y must be zero (documented precondition)
                }
                pack_cases(&mut cases, op, mode, 256, xl, yl, &pairs, 16, "exhaustive<=4");
            }
        }
    }
    // (b) all 2^16 pairs of 8-bit operands
    if exhaustive8 {
        for mode in DZKP {
            let pairs = all_pairs(8, 8);
            pack_cases(&mut cases, op, mode, 256, 8, 8, &pairs, env.pick(32, 16), "exhaustive8");
        }
    }
    // (b') thorough: every pair for unequal widths up to 8 bits (y narrower and, where documented, wider than x)
    if env.thorough && unequal_ok {
        for (xl, yl) in [(8usize, 4usize), (8, 5), (8, 7), (8, 1), (7, 8), (4, 8), (5, 8), (1, 8), (6, 6), (7, 7), (5, 5)] {
            if !allowed_widths(op, xl, yl, unequal_ok) {
                continue;
            }
            for mode in DZKP {
                let mut pairs = all_pairs(xl, yl);
                if op == Op::Gt && yl > xl {
                    pairs.retain(|(_, y)| y.trunc(xl) == *y);
                }
                pack_cases(&mut cases, op, mode, 256, xl, yl, &pairs, 16, "exhaustive_unequal<=8");
            }
        }
    }
    // (c) boundary + seeded operands for wide operands, equal and unequal lengths
    let mut wide: Vec<(usize, usize)> = vec![(16, 16), (32, 32)];
    if op != Op::SatAdd {
        // integer_sat_add's step enum is documented to support at most 32 bits
        wide.extend([(64, 64), (128, 128), (256, 256)]);
    }
    if unequal_ok {
        wide.extend([(16, 8), (32, 5), (32, 31)]);
        if op != Op::SatAdd {
            wide.extend([(8, 16), (64, 32), (32, 64), (256, 64), (128, 256), (5, 3), (3, 5)]);
        }
    }
    for (xl, yl) in wide {
        for mode in DZKP {
            let (nv, np) = if xl >= 128 { (2, env.pick(20, 400)) } else { (env.pick(2, 8), env.pick(60, 2500)) };
            let mut pairs = boundary_pairs(xl, yl, &mut r, nv, np);
            if op == Op::Gt && yl > xl {
                for p in &mut pairs {
                    p.1 = p.1.trunc(xl);
                }
                pairs.sort();
                pairs.dedup();
            }
            pack_cases(&mut cases, op, mode, 256, xl, yl, &pairs, 8, "boundary");
        }
    }
    // (d) the other vector widths the type system admits: boundary pairs of 8 and 16 bits, few lanes per record
    for n in [1usize, 3, 8, 16, 32] {
        for mode in DZKP {
            if mode == Mode::DzkpMal && !mal_has(n) {
                continue;
            }
            for (xl, yl) in [(8usize, 8usize), (16, 16), (3, 3)] {
                let mut pairs = boundary_pairs(xl, yl, &mut r, 1, 8);
                let keep = env.pick(40, 400).max(n * 4);
                r.shuffle(&mut pairs);
                pairs.truncate(keep);
                pack_cases(&mut cases, op, mode, n, xl, yl, &pairs, 64, "other_widths");
            }
        }
    }
    cases
}

fn allowed_widths(op: Op, xl: usize, yl: usize, unequal_ok: bool) -> bool {
    if xl == yl {
        return true;
    }
    if !unequal_ok {
        return false;
    }
    // integer_sat_add: y may be narrower than x (this is how aggregate_values calls it); wider is undocumented
    !(op == Op::SatAdd && yl > xl)
}

#[cfg(not(feature = "shuttle"))]
#[test]
fn verif_c07_integer_add() {
    run_cases("verif_c07_integer_add", adder_like_cases(Op::Add, true));
}

#[cfg(not(feature = "shuttle"))]
#[test]
fn verif_c07_integer_sat_add() {
    let ex8 = vlib::env().thorough;
    run_cases("verif_c07_integer_sat_add", adder_like_cases(Op::SatAdd, ex8));
}

fn mul_cases() -> Vec<Case> {
    let env = vlib::env();
    let mut r = VRng::new(env.seed ^ 0x3a1, 7);
    let mut cases = Vec::new();
    // every operand pair for all width pairs up to 4 x 4 bits, plus 8 x 3, 3 x 8, 8 x 8 (thorough: all pairs; quick: boundary + seeded)
    for mode in DZKP {
        for xl in 1..=4usize {
            for yl in 1..=4usize {
                let pairs = all_pairs(xl, yl);
                pack_cases(&mut cases, Op::Mul, mode, 256, xl, yl, &pairs, 16, "exhaustive<=4");
            }
        }
        for (xl, yl) in [(8usize, 3usize), (3, 8), (8, 8), (6, 2), (2, 6), (16, 4), (5, 12)] {
            let pairs = if env.thorough && xl + yl <= 16 { all_pairs(xl, yl) } else { boundary_pairs(xl, yl, &mut r, 3, env.pick(150, 1500)) };
            pack_cases(&mut cases, Op::Mul, mode, 256, xl, yl, &pairs, 8, "unequal_and_wide");
        }
    }
    cases
}

#[cfg(not(feature = "shuttle"))]
#[test]
fn verif_c07_integer_mul() {
    run_cases("verif_c07_integer_mul", mul_cases());
}

#[cfg(not(feature = "shuttle"))]
#[test]
fn verif_c07_compare_gt() {
    run_cases("verif_c07_compare_gt", adder_like_cases(Op::Gt, true));
}

// ---------------------------------------------------------------------------------------------
// non-vectorised circuits (one operand tuple per record): integer_sub, compare_geq, integer_sat_sub, select
// ---------------------------------------------------------------------------------------------

async fn ba_op<C, S>(op: Op, ctx: C, rid: RecordId, x: &BS<1>, y: &BS<1>, c: &BS<1>) -> Result<BS<1>, Error>
where
    C: Context,
    S: BooleanArray,
    AdditiveShare<S>: BooleanArrayMul<C> + Clone,
    AdditiveShare<Boolean>: BooleanProtocols<C>,
{
    let xs: AdditiveShare<S> = x.iter().cloned().collect();
    let ys: AdditiveShare<S> = y.iter().cloned().collect();
    let out = match op {
        Op::SatSub => integer_sat_sub::<_, S, DefaultBitStep>(ctx, rid, &xs, &ys).await?,
        Op::Select => select(ctx, rid, &c[0], &xs, &ys).await?,
        o => panic!("harness: {o:?} is not a BA op"),
    };
    Ok(out.to_bits())
}

async fn sop_record<C>(op: Op, ctx: C, rid: RecordId, x: &BS<1>, y: &BS<1>, c: &BS<1>) -> Result<RO<1>, Error>
where
    C: Context,
    AdditiveShare<Boolean>: BooleanProtocols<C>,
    AdditiveShare<BA3>: BooleanArrayMul<C>,
    AdditiveShare<BA5>: BooleanArrayMul<C>,
    AdditiveShare<BA8>: BooleanArrayMul<C>,
    AdditiveShare<BA16>: BooleanArrayMul<C>,
    AdditiveShare<BA20>: BooleanArrayMul<C>,
    AdditiveShare<BA32>: BooleanArrayMul<C>,
    AdditiveShare<BA64>: BooleanArrayMul<C>,
    AdditiveShare<BA256>: BooleanArrayMul<C>,
{
    let main = match op {
        Op::Sub => integer_sub::<_, DefaultBitStep>(ctx, rid, x, y).await?,
        Op::Geq => BitDecomposed::new([compare_geq::<_, DefaultBitStep>(ctx, rid, x, y).await?]),
        Op::SatSub | Op::Select => match x.len() {
            3 => ba_op::<C, BA3>(op, ctx, rid, x, y, c).await?,
            5 => ba_op::<C, BA5>(op, ctx, rid, x, y, c).await?,
            8 => ba_op::<C, BA8>(op, ctx, rid, x, y, c).await?,
            16 => ba_op::<C, BA16>(op, ctx, rid, x, y, c).await?,
            20 => ba_op::<C, BA20>(op, ctx, rid, x, y, c).await?,
            32 => ba_op::<C, BA32>(op, ctx, rid, x, y, c).await?,
            64 => ba_op::<C, BA64>(op, ctx, rid, x, y, c).await?,
            256 => ba_op::<C, BA256>(op, ctx, rid, x, y, c).await?,
            w => panic!("harness: no Boolean array type of {w} bits"),
        },
        o => panic!("harness: {o:?} is not a scalar op"),
    };
    Ok((main, BitDecomposed::new(std::iter::empty())))
}

async fn sop_all<C>(op: Op, ctx: C, inp: (Vec<BS<1>>, Vec<BS<1>>, Vec<BS<1>>)) -> Result<Vec<RO<1>>, Error>
where
    C: Context,
    AdditiveShare<Boolean>: BooleanProtocols<C>,
    AdditiveShare<BA3>: BooleanArrayMul<C>,
    AdditiveShare<BA5>: BooleanArrayMul<C>,
    AdditiveShare<BA8>: BooleanArrayMul<C>,
    AdditiveShare<BA16>: BooleanArrayMul<C>,
    AdditiveShare<BA20>: BooleanArrayMul<C>,
    AdditiveShare<BA32>: BooleanArrayMul<C>,
    AdditiveShare<BA64>: BooleanArrayMul<C>,
    AdditiveShare<BA256>: BooleanArrayMul<C>,
{
    let (xs, ys, cs) = inp;
    let futs = xs.into_iter().zip(ys).zip(cs).enumerate().map(|(i, ((x, y), c))| {
        let ctx = ctx.clone();
        async move { sop_record::<C>(op, ctx, RecordId::from(i), &x, &y, &c).await }
    });
    seq_join(ctx.active_work(), stream::iter(futs)).try_collect().await
}

fn exec_s(case: &Case, seed: u64) -> Exec {
    let mut r = VRng::new(seed ^ 0xc07, 2);
    let shares = share_recs::<1>(&case.recs, &mut r);
    let slots: Slots<Vec<RO<1>>> = new_slots();
    let op = case.op;
    let total = case.recs.len();
    let quiescent = match case.mode {
        Mode::DzkpSh => world_run!(DzkpSh, seed, slots, shares, total, |ctx, inp| sop_all(op, ctx, inp).await),
        Mode::DzkpMal => world_run!(DzkpMal, seed, slots, shares, total, |ctx, inp| sop_all(op, ctx, inp).await),
        m => panic!("harness: {op:?} is not available in mode {m:?}"),
    };
    open_recs::<1>(slots, quiescent, &case.recs)
}

fn pack_triples(
    out: &mut Vec<Case>,
    op: Op,
    mode: Mode,
    xl: usize,
    yl: usize,
    triples: &[(W, W, W)],
    recs_per_case: usize,
    class: &'static str,
) {
    let recs: Vec<Rec> = triples.iter().map(|t| Rec { xl, yl, lanes: vec![*t] }).collect();
    for ch in recs.chunks(recs_per_case) {
        out.push(Case { op, mode, n: 1, recs: ch.to_vec(), class });
    }
}

/// `frac`: in the quick tier only every `frac`-th block of the exhaustive 8-bit space is run (rotating with the seed).
fn scalar_cases(op: Op, frac8: usize) -> Vec<Case> {
    let env = vlib::env();
    let mut r = VRng::new(env.seed ^ 0x5ca1, op as u64);
    let mut cases = Vec::new();
    let z = |p: Vec<(W, W)>| -> Vec<(W, W, W)> { p.into_iter().map(|(x, y)| (x, y, W::ZERO)).collect() };
    let per_case = 1024;
    match op {
        Op::Sub | Op::Geq => {
            for mode in DZKP {
                for xl in 1..=4usize {
                    for yl in 1..=4usize {
                        let mut pairs = all_pairs(xl, yl);
                        if op == Op::Geq && yl > xl {
                            pairs.retain(|(_, y)| y.trunc(xl) == *y); // documented precondition of the comparisons
                        }
                        pack_triples(&mut cases, op, mode, xl, yl, &z(pairs), per_case, "exhaustive<=4");
                    }
                }
            }
            // all 2^16 pairs of 8-bit operands: 64 blocks of 1024 records
            for mode in DZKP {
                let pairs = z(all_pairs(8, 8));
                for (b, ch) in pairs.chunks(per_case).enumerate() {
                    let sel = (b + env.seed as usize + (mode == Mode::DzkpMal) as usize) % frac8 == 0;
                    if env.thorough || sel {
                        pack_triples(&mut cases, op, mode, 8, 8, ch, per_case, "exhaustive8");
                    }
                }
            }
            if env.thorough {
                // every pair for some unequal widths up to 8 bits
                for (xl, yl) in [(8usize, 4usize), (4, 8), (8, 5), (5, 8), (6, 6), (5, 5)] {
                    for mode in DZKP {
                        let mut pairs = all_pairs(xl, yl);
                        if op == Op::Geq && yl > xl {
                            pairs.retain(|(_, y)| y.trunc(xl) == *y);
                        }
                        pack_triples(&mut cases, op, mode, xl, yl, &z(pairs), per_case, "exhaustive_unequal<=8");
                    }
                }
            }
            let mut wide = vec![(16usize, 16usize), (32, 32), (64, 64), (256, 256), (16, 8), (64, 32), (256, 64), (8, 16), (32, 64), (5, 3), (3, 5)];
            if env.thorough {
                wide.extend([(128, 128), (128, 256), (20, 20)]);
            }
            for (xl, yl) in wide {
                for mode in DZKP {
                    let mut pairs = boundary_pairs(xl, yl, &mut r, 1, env.pick(6, 60));
                    if op == Op::Geq && yl > xl {
                        for p in &mut pairs {
                            p.1 = p.1.trunc(xl);
                        }
                        pairs.sort();
                        pairs.dedup();
                    }
                    if !env.thorough && xl >= 64 {
                        r.shuffle(&mut pairs);
                        pairs.truncate(if xl >= 256 { 96 } else { 256 });
                        pairs.push((W::mask(xl), W::mask(xl).trunc(yl)));
                        pairs.push((W::ZERO, W::mask(yl).trunc(xl)));
                        pairs.push((W::pow2(xl - 1), W::ONE));
                    }
                    pack_triples(&mut cases, op, mode, xl, yl, &z(pairs), per_case, "boundary");
                }
            }
        }
        Op::SatSub => {
            for mode in DZKP {
                pack_triples(&mut cases, op, mode, 3, 3, &z(all_pairs(3, 3)), per_case, "exhaustive<=4");
                pack_triples(&mut cases, op, mode, 5, 5, &z(all_pairs(5, 5)), per_case, "exhaustive5");
                let pairs = z(all_pairs(8, 8));
                for (b, ch) in pairs.chunks(per_case).enumerate() {
                    let sel = (b + env.seed as usize + (mode == Mode::DzkpMal) as usize) % frac8 == 0;
                    if env.thorough || sel {
                        pack_triples(&mut cases, op, mode, 8, 8, ch, per_case, "exhaustive8");
                    }
                }
                for w in [16usize, 20, 32, 64, 256] {
                    let mut pairs = boundary_pairs(w, w, &mut r, 1, env.pick(6, 60));
                    if !env.thorough && w >= 64 {
                        r.shuffle(&mut pairs);
                        pairs.truncate(if w >= 256 { 96 } else { 256 });
                        pairs.push((W::mask(w), W::mask(w)));
                        pairs.push((W::ZERO, W::mask(w)));
                        pairs.push((W::mask(w), W::ZERO));
                    }
                    pack_triples(&mut cases, op, mode, w, w, &z(pairs), per_case, "boundary");
                }
            }
        }
        Op::Select => {
            for mode in DZKP {
                for w in [3usize, 5] {
                    let mut t = Vec::new();
                    for (x, y) in all_pairs(w, w) {
                        t.push((x, y, W::ZERO));
                        t.push((x, y, W::ONE));
                    }
                    pack_triples(&mut cases, op, mode, w, w, &t, per_case, "exhaustive<=5");
                }
                for w in [8usize, 16, 20, 32, 64, 256] {
                    let mut pairs = boundary_pairs(w, w, &mut r, 1, env.pick(4, 40));
                    if !env.thorough {
                        r.shuffle(&mut pairs);
                        pairs.truncate(200);
                        pairs.push((W::mask(w), W::ZERO));
                        pairs.push((W::ZERO, W::mask(w)));
                    }
                    let mut t = Vec::new();
                    for (x, y) in pairs {
                        t.push((x, y, W::ZERO));
                        t.push((x, y, W::ONE));
                    }
                    pack_triples(&mut cases, op, mode, w, w, &t, per_case, "boundary");
                }
            }
        }
        o => panic!("harness: {o:?} is not a scalar op"),
    }
    cases
}

#[cfg(not(feature = "shuttle"))]
#[test]
fn verif_c07_integer_sub() {
    run_cases("verif_c07_integer_sub", scalar_cases(Op::Sub, 4));
}

#[cfg(not(feature = "shuttle"))]
#[test]
fn verif_c07_compare_geq() {
    run_cases("verif_c07_compare_geq", scalar_cases(Op::Geq, 4));
}

#[cfg(not(feature = "shuttle"))]
#[test]
fn verif_c07_integer_sat_sub() {
    run_cases("verif_c07_integer_sat_sub", scalar_cases(Op::SatSub, 4));
}

#[cfg(not(feature = "shuttle"))]
#[test]
fn verif_c07_select() {
    run_cases("verif_c07_select", scalar_cases(Op::Select, 1));
}

/// bool_or / bool_and_8_bit: every pair for widths <= 4, all 2^16 8-bit pairs, wide boundary pairs (or only), in the
/// plain semi-honest context as well as both DZKP contexts, all admitted vector widths.
fn bitwise_cases(op: Op) -> Vec<Case> {
    let env = vlib::env();
    let mut r = VRng::new(env.seed ^ 0xb17, op as u64);
    let mut cases = Vec::new();
    for mode in [Mode::Sh, Mode::DzkpSh, Mode::DzkpMal] {
        for w in 1..=4usize {
            pack_cases(&mut cases, op, mode, 256, w, w, &all_pairs(w, w), 16, "exhaustive<=4");
        }
        pack_cases(&mut cases, op, mode, 256, 8, 8, &all_pairs(8, 8), 32, "exhaustive8");
        if op == Op::Or {
            for w in [16usize, 32, 64, 256] {
                let pairs = boundary_pairs(w, w, &mut r, 2, env.pick(40, 400));
                pack_cases(&mut cases, op, mode, 256, w, w, &pairs, 8, "boundary");
            }
        }
        for n in [1usize, 3, 8, 16, 32] {
            let mut pairs = boundary_pairs(8, 8, &mut r, 1, 8);
            r.shuffle(&mut pairs);
            pairs.truncate(env.pick(64, 512).max(n * 4));
            pack_cases(&mut cases, op, mode, n, 8, 8, &pairs, 64, "other_widths");
        }
    }
    cases
}

#[cfg(not(feature = "shuttle"))]
#[test]
fn verif_c07_bool_or_and() {
    let mut cases = bitwise_cases(Op::Or);
    cases.extend(bitwise_cases(Op::And));
    run_cases("verif_c07_bool_or_and", cases);
}

// ---------------------------------------------------------------------------------------------
// SecureMul (and the field `or`) over every field type, own sharing / opening of field vectors
// ---------------------------------------------------------------------------------------------

/// Harness view of a field: seeded random elements, printable form, an independent product where one exists.
trait HF: Field {
    fn rnd(r: &mut VRng) -> Self;
    fn show(&self) -> String;
    /// reference product; prime fields override this with u128 arithmetic modulo the exported PRIME
    fn ref_mul(a: Self, b: Self) -> Self {
        a * b
    }
}

macro_rules! hf_u128 {
    ($($t:ty),*) => { $(
        impl HF for $t {
            fn rnd(r: &mut VRng) -> Self { <$t as U128Conversions>::truncate_from(r.u128()) }
            fn show(&self) -> String { format!("{:x}", U128Conversions::as_u128(self)) }
        }
    )* };
}
macro_rules! hf_prime {
    ($($t:ty),*) => { $(
        impl HF for $t {
            fn rnd(r: &mut VRng) -> Self { <$t as U128Conversions>::truncate_from(r.u128()) }
            fn show(&self) -> String { format!("{:x}", U128Conversions::as_u128(self)) }
            fn ref_mul(a: Self, b: Self) -> Self {
                let p: u128 = <$t as PrimeField>::PRIME.into();
                <$t as U128Conversions>::truncate_from((a.as_u128() * b.as_u128()) % p)
            }
        }
    )* };
}
hf_u128!(Boolean, Gf2, Gf3Bit, Gf8Bit, Gf9Bit, Gf20Bit, Gf32Bit, Gf40Bit);
hf_prime!(Fp31, Fp32BitPrime, Fp61BitPrime);

fn fp25519_from_bytes(b: [u8; 32]) -> Fp25519 {
    Fp25519::from(curve25519_dalek::Scalar::from_bytes_mod_order(b))
}
fn fp25519_bytes(v: &Fp25519) -> [u8; 32] {
    curve25519_dalek::Scalar::from(*v).to_bytes()
}
impl HF for Fp25519 {
    fn rnd(r: &mut VRng) -> Self {
        let b: [u8; 32] = r.bytes(32).try_into().unwrap();
        fp25519_from_bytes(b)
    }
    fn show(&self) -> String {
        let mut b = fp25519_bytes(self);
        b.reverse();
        vlib::hex(&b)
    }
}

type FArr<F, const N: usize> = <F as Vectorizable<N>>::Array;

fn share_f<F: HF + FieldSimd<N>, const N: usize>(vals: &[F], r: &mut VRng) -> [AdditiveShare<F, N>; 3] {
    assert!(vals.len() <= N);
    let s0: Vec<F> = (0..N).map(|_| F::rnd(r)).collect();
    let s1: Vec<F> = (0..N).map(|_| F::rnd(r)).collect();
    let s2: Vec<F> = (0..N).map(|l| vals.get(l).copied().unwrap_or(F::ZERO) - s0[l] - s1[l]).collect();
    let s = [s0, s1, s2];
    let arr: [FArr<F, N>; 3] = std::array::from_fn(|k| <FArr<F, N>>::from_fn(|l| s[k][l]));
    std::array::from_fn(|k| AdditiveShare::new_arr(arr[k].clone(), arr[(k + 1) % 3].clone()))
}

fn open_f<F: HF + FieldSimd<N>, const N: usize>(h: [&AdditiveShare<F, N>; 3]) -> Result<Vec<F>, String> {
    for k in 0..3 {
        if h[k].right_arr() != h[(k + 1) % 3].left_arr() {
            return Err(format!("H{}.right != H{}.left", k + 1, (k + 1) % 3 + 1));
        }
    }
    let sum = h[0].left_arr().clone() + h[1].left_arr() + h[2].left_arr();
    Ok(sum.into_iter().collect())
}

#[derive(Clone, Copy, Debug, PartialEq, Eq, Hash)]
enum FOp {
    Mul,
    Or,
}
impl FOp {
    fn name(self) -> &'static str {
        match self {
            FOp::Mul => "multiply",
            FOp::Or => "or",
        }
    }
}

type FShares<F, const N: usize> = [(Vec<AdditiveShare<F, N>>, Vec<AdditiveShare<F, N>>); 3];

async fn fop_all<C, F, const N: usize>(
    fop: FOp,
    ctx: C,
    inp: (Vec<AdditiveShare<F, N>>, Vec<AdditiveShare<F, N>>),
) -> Result<Vec<AdditiveShare<F, N>>, Error>
where
    C: Context,
    F: Field + FieldSimd<N>,
    AdditiveShare<F, N>: SecureMul<C>,
{
    let futs = inp.0.into_iter().zip(inp.1).enumerate().map(|(i, (a, b))| {
        let ctx = ctx.clone();
        async move {
            match fop {
                FOp::Mul => a.multiply(&b, ctx, RecordId::from(i)).await,
                FOp::Or => or(ctx, RecordId::from(i), &a, &b).await,
            }
        }
    });
    seq_join(ctx.active_work(), stream::iter(futs)).try_collect().await
}

/// MAC-malicious multiply: upgrade both operands, multiply, validate the record, take the x component.
async fn mac_all<'a, F, const N: usize>(
    fop: FOp,
    m: UpgradedMaliciousContext<'a, F>,
    inp: (Vec<AdditiveShare<F, N>>, Vec<AdditiveShare<F, N>>),
) -> Result<Vec<AdditiveShare<F, N>>, Error>
where
    F: ExtendableFieldSimd<N>,
    AdditiveShare<<F as ExtendableField>::ExtendedField, N>: FromPrss,
{
    try_join_all(inp.0.into_iter().zip(inp.1).enumerate().map(|(i, (a, b))| {
        let m = m.clone();
        async move {
            let rid = RecordId::from(i);
            let (am, bm) = (a, b).upgrade(m.clone(), rid).await?;
            let r = match fop {
                FOp::Mul => am.multiply(&bm, m.narrow("mul"), rid).await?,
                FOp::Or => or(m.narrow("or"), rid, &am, &bm).await?,
            };
            m.validate_record(rid).await?;
            Ok::<_, Error>(r.x().access_without_downgrade().clone())
        }
    }))
    .await
}

/// Operand pairs for a field test: {0, 1, 2, -1, -2, seeded} x the same, plus seeded pairs; {0,1}^2 for `or`.
fn f_pairs<F: HF>(fop: FOp, r: &mut VRng, nrand: usize) -> Vec<(F, F)> {
    if fop == FOp::Or {
        return vec![(F::ZERO, F::ZERO), (F::ZERO, F::ONE), (F::ONE, F::ZERO), (F::ONE, F::ONE)];
    }
    let m1 = F::ZERO - F::ONE;
    let mut sp = vec![F::ZERO, F::ONE, F::ONE + F::ONE, m1, m1 - F::ONE];
    sp.push(F::rnd(r));
    sp.push(F::rnd(r));
    let mut p = Vec::new();
    for a in &sp {
        for b in &sp {
            p.push((*a, *b));
        }
    }
    for _ in 0..nrand {
        p.push((F::rnd(r), F::rnd(r)));
    }
    p
}

fn f_share_all<F: HF + FieldSimd<N>, const N: usize>(pairs: &[(F, F)], r: &mut VRng) -> FShares<F, N> {
    let mut out: FShares<F, N> = std::array::from_fn(|_| (Vec::new(), Vec::new()));
    for ch in pairs.chunks(N) {
        let a: Vec<F> = ch.iter().map(|p| p.0).collect();
        let b: Vec<F> = ch.iter().map(|p| p.1).collect();
        let a3 = share_f::<F, N>(&a, r);
        let b3 = share_f::<F, N>(&b, r);
        for (k, (x, y)) in a3.into_iter().zip(b3).enumerate() {
            out[k].0.push(x);
            out[k].1.push(y);
        }
    }
    out
}

struct FCtx<'a> {
    rec: &'a mut Recorder,
    idx: usize,
    seed: u64,
    fname: &'static str,
}

fn f_finish<F: HF + FieldSimd<N>, const N: usize>(
    fc: &mut FCtx,
    fop: FOp,
    mode: Mode,
    pairs: &[(F, F)],
    slots: Slots<Vec<AdditiveShare<F, N>>>,
    quiescent: bool,
    world_seed: u64,
) {
    let rec = &mut *fc.rec;
    rec.seen("field_mode_n", format!("{}/{}/{}/{}", fop.name(), fc.fname, mode.name(), N));
    rec.seen("fields", fc.fname);
    rec.seen("modes", mode.name());
    rec.count(&format!("runs_{}", mode.name()));
    let sig = |kind: &str, class: String| json!({"kind": kind, "op": fop.name(), "field": fc.fname, "mode": mode.name(), "n": N, "class": class});
    let wit_ops = |i: usize| json!({"a": pairs[i].0.show(), "b": pairs[i].1.show(), "index": i});
    let g = slots.lock().unwrap();
    if let Some(Exec::Fail { kind, detail, helpers }) = classify_fail(&g, quiescent) {
        rec.eval();
        rec.violation(
            &format!("{} on an honest {} over {} ({}, N={})", kind, fop.name(), fc.fname, mode.name(), N),
            sig(kind, msg_class(&detail)),
            json!({"tier": tier_name(), "case": fc.idx, "world_seed": world_seed, "detail": detail, "helpers": helpers, "pairs": pairs.len(), "first_operands": wit_ops(0)}),
        );
        return;
    }
    let h: Vec<&Vec<AdditiveShare<F, N>>> = g.iter().map(|s| s.as_ref().unwrap().as_ref().unwrap()).collect();
    let nrec = pairs.len().div_ceil(N);
    if h.iter().any(|v| v.len() != nrec) {
        rec.eval();
        rec.violation("wrong number of outputs", sig("wrong_output_count", String::new()), json!({"tier": tier_name(), "case": fc.idx, "world_seed": world_seed}));
        return;
    }
    let mut bad = 0u64;
    let mut first: Option<Value> = None;
    for ri in 0..nrec {
        match open_f::<F, N>([&h[0][ri], &h[1][ri], &h[2][ri]]) {
            Err(e) => {
                rec.eval();
                rec.violation(
                    &format!("output of {} over {} is not a consistent replicated sharing", fop.name(), fc.fname),
                    sig("inconsistent_shares", String::new()),
                    json!({"tier": tier_name(), "case": fc.idx, "world_seed": world_seed, "record": ri, "detail": e, "first_operands": wit_ops(ri * N)}),
                );
                return;
            }
            Ok(vals) => {
                for l in 0..N {
                    let i = ri * N + l;
                    if i >= pairs.len() {
                        break;
                    }
                    let (a, b) = pairs[i];
                    let expect = match fop {
                        FOp::Mul => F::ref_mul(a, b),
                        FOp::Or => a + b - F::ref_mul(a, b),
                    };
                    rec.eval();
                    if vals[l] == expect && (fop != FOp::Mul || expect == a * b) {
                        rec.distinct(&(fop, fc.fname, mode, N, a.show(), b.show()));
                    } else {
                        bad += 1;
                        if first.is_none() {
                            let mut w = wit_ops(i);
                            w["got"] = json!(vals[l].show());
                            w["expected"] = json!(expect.show());
                            first = Some(w);
                        }
                    }
                }
            }
        }
    }
    rec.add(&format!("tuples_field_{}", fop.name()), pairs.len() as u64);
    if let Some(f) = first {
        rec.violation(
            &format!("{} over {} opened to a value different from the plaintext product ({}, N={})", fop.name(), fc.fname, mode.name(), N),
            sig("wrong_value", String::new()),
            json!({"tier": tier_name(), "case": fc.idx, "world_seed": world_seed, "mismatching": bad, "first": f}),
        );
    } else if rec.want_sample() && fc.idx % 7 == 0 {
        rec.sample(json!({"tier": tier_name(), "case": fc.idx, "op": fop.name(), "field": fc.fname, "mode": mode.name(), "n": N, "a": pairs[0].0.show(), "b": pairs[0].1.show()}));
    }
}

/// semi-honest and DZKP-semi-honest multiply (every Field + FieldSimd<N>)
fn f_case_sh<F: HF + FieldSimd<N>, const N: usize>(fc: &mut FCtx, fop: FOp, mode: Mode, nrand: usize) {
    let world_seed = fc.seed.wrapping_mul(0x9E37_79B9).wrapping_add(fc.idx as u64);
    let mut r = VRng::new(world_seed ^ 0xf1e1d, 3);
    let pairs = f_pairs::<F>(fop, &mut r, nrand);
    let shares = f_share_all::<F, N>(&pairs, &mut r);
    let slots: Slots<Vec<AdditiveShare<F, N>>> = new_slots();
    let total = pairs.len().div_ceil(N);
    let q = match mode {
        Mode::Sh => world_run!(Sh, world_seed, slots, shares, total, |ctx, inp| fop_all::<_, F, N>(fop, ctx, inp).await),
        Mode::DzkpSh => world_run!(DzkpSh, world_seed, slots, shares, total, |ctx, inp| fop_all::<_, F, N>(fop, ctx, inp).await),
        m => panic!("harness: f_case_sh does not run mode {m:?}"),
    };
    f_finish::<F, N>(fc, fop, mode, &pairs, slots, q, world_seed);
}

/// DZKP-malicious multiply (fields with a DZKPCompatibleField<N> impl: Boolean vectors)
fn f_case_dz<F: HF + DZKPCompatibleField<N>, const N: usize>(fc: &mut FCtx, fop: FOp, _mode: Mode, nrand: usize) {
    let world_seed = fc.seed.wrapping_mul(0x9E37_79B9).wrapping_add(fc.idx as u64);
    let mut r = VRng::new(world_seed ^ 0xf1e1d, 4);
    let pairs = f_pairs::<F>(fop, &mut r, nrand);
    let shares = f_share_all::<F, N>(&pairs, &mut r);
    let slots: Slots<Vec<AdditiveShare<F, N>>> = new_slots();
    let total = pairs.len().div_ceil(N);
    let q = world_run!(DzkpMal, world_seed, slots, shares, total, |ctx, inp| fop_all::<_, F, N>(fop, ctx, inp).await);
    f_finish::<F, N>(fc, fop, Mode::DzkpMal, &pairs, slots, q, world_seed);
}

/// MAC-malicious multiply (extendable fields)
fn f_case_mac<F: HF + ExtendableFieldSimd<N>, const N: usize>(fc: &mut FCtx, fop: FOp, _mode: Mode, nrand: usize)
where
    AdditiveShare<<F as ExtendableField>::ExtendedField, N>: FromPrss,
{
    let world_seed = fc.seed.wrapping_mul(0x9E37_79B9).wrapping_add(fc.idx as u64);
    let mut r = VRng::new(world_seed ^ 0xf1e1d, 5);
    let mut pairs = f_pairs::<F>(fop, &mut r, nrand);
    pairs.truncate(64 * N); // every record of a MAC batch is in flight at the same time
    let shares = f_share_all::<F, N>(&pairs, &mut r);
    let slots: Slots<Vec<AdditiveShare<F, N>>> = new_slots();
    let total = pairs.len().div_ceil(N);
    let q = world_run!(MacMal<F>, world_seed, slots, shares, total, |ctx, inp| mac_all::<F, N>(fop, ctx, inp).await);
    f_finish::<F, N>(fc, fop, Mode::MacMal, &pairs, slots, q, world_seed);
}

type FRunner = fn(&mut FCtx, FOp, Mode, usize);

/// Every (field, vector width, context) for which a SecureMul impl exists.
fn field_combos() -> Vec<(&'static str, usize, Mode, FRunner)> {
    let mut v: Vec<(&'static str, usize, Mode, FRunner)> = Vec::new();
    macro_rules! sh {
        ($f:ty, $n:expr) => {
            v.push((stringify!($f), $n, Mode::Sh, f_case_sh::<$f, $n> as FRunner));
            v.push((stringify!($f), $n, Mode::DzkpSh, f_case_sh::<$f, $n> as FRunner));
        };
    }
    macro_rules! dz {
        ($f:ty, $n:expr) => {
            v.push((stringify!($f), $n, Mode::DzkpMal, f_case_dz::<$f, $n> as FRunner));
        };
    }
    macro_rules! mac {
        ($f:ty, $n:expr) => {
            v.push((stringify!($f), $n, Mode::MacMal, f_case_mac::<$f, $n> as FRunner));
        };
    }
    sh!(Fp31, 1);
    sh!(Fp32BitPrime, 1);
    sh!(Fp32BitPrime, 32);
    sh!(Fp61BitPrime, 1);
    sh!(Fp25519, 1);
    sh!(Fp25519, 16);
    sh!(Gf2, 1);
    sh!(Gf3Bit, 1);
    sh!(Gf8Bit, 1);
    sh!(Gf9Bit, 1);
    sh!(Gf20Bit, 1);
    sh!(Gf32Bit, 1);
    sh!(Gf32Bit, 32);
    sh!(Gf40Bit, 1);
    sh!(Boolean, 1);
    sh!(Boolean, 3);
    sh!(Boolean, 5);
    sh!(Boolean, 8);
    sh!(Boolean, 16);
    sh!(Boolean, 20);
    sh!(Boolean, 32);
    sh!(Boolean, 64);
    sh!(Boolean, 256);
    dz!(Boolean, 1);
    dz!(Boolean, 3);
    dz!(Boolean, 5);
    dz!(Boolean, 8);
    dz!(Boolean, 16);
    dz!(Boolean, 20);
    dz!(Boolean, 32);
    dz!(Boolean, 64);
    dz!(Boolean, 256);
    mac!(Fp31, 1);
    mac!(Fp32BitPrime, 1);
    mac!(Fp61BitPrime, 1);
    mac!(Fp25519, 1);
    mac!(Fp25519, 16);
    mac!(Gf2, 1);
    v
}

#[cfg(not(feature = "shuttle"))]
#[test]
fn verif_c07_secure_mul_fields() {
    let env = vlib::env();
    let mut rec = Recorder::new("C07", "verif_c07_secure_mul_fields");
    let only = replay_case();
    let combos = field_combos();
    let reps = env.pick(1, 16);
    let mut idx = 0usize;
    for rep in 0..reps {
        for (fname, n, mode, runner) in &combos {
            for fop in [FOp::Mul, FOp::Or] {
                let my = idx;
                idx += 1;
                if !env.mine(my) || only.is_some_and(|c| c != my) {
                    continue;
                }
                if fop == FOp::Or && rep > 0 {
                    continue;
                }
                let nrand = env.pick(60, 800).max(2 * n);
                let mut fc = FCtx { rec: &mut rec, idx: my, seed: env.seed, fname };
                runner(&mut fc, fop, *mode, nrand);
            }
        }
    }
    rec.finish();
}

// ---------------------------------------------------------------------------------------------
// convert_to_fp25519: Boolean shares of an integer -> Fp25519 shares of the same integer
// ---------------------------------------------------------------------------------------------

type FpPairs = Vec<(Fp25519, Fp25519)>; // (left, right) per lane

async fn conv_all<C, const NP: usize>(ctx: C, recs: Vec<BS<256>>) -> Result<Vec<FpPairs>, Error>
where
    C: crate::protocol::context::DZKPContext,
    Fp25519: Vectorizable<NP>,
    AdditiveShare<Boolean, 256>: BooleanProtocols<C, 256>,
{
    let futs = recs.into_iter().enumerate().map(|(i, bits)| {
        let ctx = ctx.clone();
        async move {
            let chunks = convert_to_fp25519::<_, 256, NP>(ctx, RecordId::from(i), bits).await?;
            let mut lanes: FpPairs = Vec::with_capacity(256);
            for ch in chunks {
                let l: Vec<Fp25519> = ch.left_arr().clone().into_iter().collect();
                let r: Vec<Fp25519> = ch.right_arr().clone().into_iter().collect();
                lanes.extend(l.into_iter().zip(r));
            }
            Ok::<_, Error>(lanes)
        }
    });
    seq_join(ctx.active_work(), stream::iter(futs)).try_collect().await
}

/// the integer `w` (< 2^128 here) as an element of the scalar field, through curve25519_dalek only
fn scalar_of(w: W) -> curve25519_dalek::Scalar {
    let mut b = [0u8; 32];
    b[..16].copy_from_slice(&w.lo.to_le_bytes());
    b[16..].copy_from_slice(&w.hi.to_le_bytes());
    curve25519_dalek::Scalar::from_bytes_mod_order(b)
}

#[cfg(not(feature = "shuttle"))]
#[test]
fn verif_c07_convert_to_fp25519() {
    let env = vlib::env();
    let mut rec = Recorder::new("C07", "verif_c07_convert_to_fp25519");
    let only = replay_case();
    // (mode, NP, bits, records)
    let mut plan: Vec<(Mode, usize, usize, usize)> = Vec::new();
    let reps = env.pick(1, 6);
    for _ in 0..reps {
        for mode in DZKP {
            for np in [16usize, 1] {
                for bits in [64usize, 1, 8, 127, 40, 100] {
                    if !env.thorough && np == 1 && !matches!(bits, 64 | 127) {
                        continue;
                    }
                    plan.push((mode, np, bits, if bits == 64 { 2 } else { 1 }));
                }
            }
        }
    }
    for (idx, (mode, np, bits, nrec)) in plan.iter().copied().enumerate() {
        if !env.mine(idx) || only.is_some_and(|c| c != idx) {
            continue;
        }
        let world_seed = env.seed.wrapping_mul(0x9E37_79B9).wrapping_add(0xc0_0000 + idx as u64);
        let mut r = VRng::new(world_seed ^ 0xc0417, 6);
        // lanes: zero, all-ones, boundary values, seeded
        let mut vals: Vec<Vec<W>> = Vec::new();
        for _ in 0..nrec {
            let mut v = boundary_vals(bits, &mut r, 0);
            v.truncate(64);
            v.push(W::ZERO);
            v.push(W::mask(bits));
            while v.len() < 256 {
                v.push(W::rand(&mut r, bits));
            }
            v.truncate(256);
            vals.push(v);
        }
        let mut shares: [Vec<BS<256>>; 3] = std::array::from_fn(|_| Vec::new());
        for v in &vals {
            let s = share_lanes::<256>(v, bits, &mut r);
            for (k, x) in s.into_iter().enumerate() {
                shares[k].push(x);
            }
        }
        let slots: Slots<Vec<FpPairs>> = new_slots();
        let q = match (mode, np) {
            (Mode::DzkpSh, 16) => world_run!(DzkpShRec, world_seed, slots, shares, nrec, 1, |ctx, inp| conv_all::<_, 16>(ctx, inp).await),
            (Mode::DzkpSh, 1) => world_run!(DzkpShRec, world_seed, slots, shares, nrec, 1, |ctx, inp| conv_all::<_, 1>(ctx, inp).await),
            (Mode::DzkpMal, 16) => world_run!(DzkpMalRec, world_seed, slots, shares, nrec, 1, |ctx, inp| conv_all::<_, 16>(ctx, inp).await),
            (Mode::DzkpMal, 1) => world_run!(DzkpMalRec, world_seed, slots, shares, nrec, 1, |ctx, inp| conv_all::<_, 1>(ctx, inp).await),
            x => panic!("harness: no convert executor for {x:?}"),
        };
        rec.seen("modes", mode.name());
        rec.seen("convert_shapes", format!("{}/np{}/bits{}", mode.name(), np, bits));
        rec.count(&format!("runs_{}", mode.name()));
        let sig = |kind: &str, class: String| json!({"kind": kind, "op": "convert_to_fp25519", "mode": mode.name(), "np": np, "class": class});
        let g = slots.lock().unwrap();
        if let Some(Exec::Fail { kind, detail, helpers }) = classify_fail(&g, q) {
            rec.eval();
            rec.violation(
                &format!("{kind} on an honest run of convert_to_fp25519 ({}, NP={np}, {bits}-bit inputs)", mode.name()),
                sig(kind, msg_class(&detail)),
                json!({"tier": tier_name(), "case": idx, "world_seed": world_seed, "bits": bits, "detail": detail, "helpers": helpers}),
            );
            continue;
        }
        let h: Vec<&Vec<FpPairs>> = g.iter().map(|s| s.as_ref().unwrap().as_ref().unwrap()).collect();
        let mut first: Option<Value> = None;
        let mut bad = 0u64;
        let mut kind = "wrong_value";
        'outer: for ri in 0..nrec {
            if h.iter().any(|v| v.len() != nrec || v[ri].len() != 256) {
                kind = "wrong_output_count";
                first = Some(json!({"record": ri, "lens": h.iter().map(|v| v.get(ri).map(Vec::len)).collect::<Vec<_>>()}));
                break;
            }
            for l in 0..256 {
                for k in 0..3 {
                    if h[k][ri][l].1 != h[(k + 1) % 3][ri][l].0 {
                        kind = "inconsistent_shares";
                        first = Some(json!({"record": ri, "lane": l, "x": vals[ri][l].hex(), "detail": format!("H{}.right != H{}.left", k + 1, (k + 1) % 3 + 1)}));
                        break 'outer;
                    }
                }
                let got = curve25519_dalek::Scalar::from(h[0][ri][l].0) + curve25519_dalek::Scalar::from(h[1][ri][l].0) + curve25519_dalek::Scalar::from(h[2][ri][l].0);
                let expect = scalar_of(vals[ri][l]);
                rec.eval();
                if got == expect {
                    rec.distinct(&("conv", mode, np, bits, vals[ri][l]));
                    if vals[ri][l] == W::mask(bits) {
                        rec.count("convert_all_ones_inputs");
                    }
                    if vals[ri][l] == W::ZERO {
                        rec.count("convert_zero_inputs");
                    }
                } else {
                    bad += 1;
                    if first.is_none() {
                        first = Some(json!({"record": ri, "lane": l, "x": vals[ri][l].hex(), "got": vlib::hex(&got.to_bytes()), "expected": vlib::hex(&expect.to_bytes())}));
                    }
                }
            }
        }
        rec.add("tuples_convert_to_fp25519", (nrec * 256) as u64);
        if let Some(f) = first {
            rec.violation(
                &format!("convert_to_fp25519 output is not a sharing of the input integer ({}, NP={np}, {bits}-bit inputs)", mode.name()),
                sig(kind, String::new()),
                json!({"tier": tier_name(), "case": idx, "world_seed": world_seed, "bits": bits, "mismatching": bad, "first": f}),
            );
        } else if rec.want_sample() {
            rec.sample(json!({"tier": tier_name(), "case": idx, "op": "convert_to_fp25519", "mode": mode.name(), "np": np, "bits": bits, "lanes": nrec * 256}));
        }
    }
    rec.finish();
}

// ---------------------------------------------------------------------------------------------
// eval_dy_prf: all helpers learn hash((1/(k+x)) G)
// ---------------------------------------------------------------------------------------------

async fn prf_all<C, const N: usize>(
    ctx: C,
    inp: (AdditiveShare<Fp25519>, Vec<AdditiveShare<Fp25519, N>>),
) -> Result<Vec<u64>, Error>
where
    C: UpgradedContext<Field = Fp25519>,
    AdditiveShare<Fp25519, N>: crate::protocol::ipa_prf::prf_eval::PrfSharing<C, N, Field = Fp25519>,
    AdditiveShare<RP25519, N>: crate::protocol::basics::Reveal<C, Output = <RP25519 as Vectorizable<N>>::Array>,
    Fp25519: FieldSimd<N>,
    RP25519: Vectorizable<N>,
{
    let (key, xs) = inp;
    let key = &key;
    let outs = try_join_all(xs.into_iter().enumerate().map(|(i, x)| {
        let ctx = ctx.clone();
        async move { eval_dy_prf::<C, N>(ctx, RecordId::from(i), key, x).await }
    }))
    .await?;
    Ok(outs.into_iter().flat_map(|a| a.into_iter()).collect())
}

macro_rules! prf_case_impl {
    ($name:ident, $n:expr) => {
fn $name(rec: &mut Recorder, idx: usize, seed: u64, mode: Mode, nrec: usize) {
    const N: usize = $n;
    let world_seed = seed.wrapping_mul(0x9E37_79B9).wrapping_add(0xd1_0000 + idx as u64);
    let mut r = VRng::new(world_seed ^ 0x9f, 7);
    let k = Fp25519::rnd(&mut r);
    let m1 = Fp25519::ZERO - Fp25519::ONE;
    let mut xs: Vec<Fp25519> = vec![Fp25519::ZERO, Fp25519::ONE, m1, Fp25519::ONE - k, m1 - k, Fp25519::ONE + Fp25519::ONE];
    // a duplicated input must give the same pseudonym
    let dup = Fp25519::rnd(&mut r);
    xs.push(dup);
    xs.push(dup);
    while xs.len() < nrec * N {
        // small integers as well as full-range elements
        xs.push(if r.bool() { fp25519_from_bytes(scalar_of(W::of(r.next() as u128)).to_bytes()) } else { Fp25519::rnd(&mut r) });
    }
    xs.truncate(nrec * N);
    for x in &mut xs {
        if *x + k == Fp25519::ZERO {
            *x = *x + Fp25519::ONE; // 1/0 is outside the domain of the function
        }
    }
    let k3 = share_f::<Fp25519, 1>(&[k], &mut r);
    let mut xsh: [Vec<AdditiveShare<Fp25519, N>>; 3] = std::array::from_fn(|_| Vec::new());
    for ch in xs.chunks(N) {
        for (kk, s) in share_f::<Fp25519, N>(ch, &mut r).into_iter().enumerate() {
            xsh[kk].push(s);
        }
    }
    let [k0, k1, k2] = k3;
    let [x0, x1, x2] = xsh;
    let inputs = [(k0, x0), (k1, x1), (k2, x2)];
    let slots: Slots<Vec<u64>> = new_slots();
    let q = match mode {
        Mode::MacSh => world_run!(MacSh<Fp25519>, world_seed, slots, inputs, nrec, |ctx, inp| prf_all::<_, N>(ctx, inp).await),
        Mode::MacMal => world_run!(MacMal<Fp25519>, world_seed, slots, inputs, nrec, |ctx, inp| prf_all::<_, N>(ctx, inp).await),
        m => panic!("harness: no prf executor for {m:?}"),
    };
    rec.seen("modes", mode.name());
    rec.seen("prf_shapes", format!("{}/n{}", mode.name(), N));
    rec.count(&format!("runs_{}", mode.name()));
    let sig = |kind: &str, class: String| json!({"kind": kind, "op": "eval_dy_prf", "mode": mode.name(), "n": N, "class": class});
    let g = slots.lock().unwrap();
    if let Some(Exec::Fail { kind, detail, helpers }) = classify_fail(&g, q) {
        rec.eval();
        rec.violation(
            &format!("{kind} on an honest run of eval_dy_prf ({}, N={N})", mode.name()),
            sig(kind, msg_class(&detail)),
            json!({"tier": tier_name(), "case": idx, "world_seed": world_seed, "k": k.show(), "detail": detail, "helpers": helpers}),
        );
        return;
    }
    let h: Vec<&Vec<u64>> = g.iter().map(|s| s.as_ref().unwrap().as_ref().unwrap()).collect();
    let mut first: Option<Value> = None;
    let mut kind = "wrong_value";
    let mut bad = 0u64;
    if h.iter().any(|v| v.len() != xs.len()) {
        kind = "wrong_output_count";
        first = Some(json!({"lens": h.iter().map(|v| v.len()).collect::<Vec<_>>(), "inputs": xs.len()}));
    } else {
        for (i, x) in xs.iter().enumerate() {
            // reference: (1/(k+x)) * G with plain field / curve operations, hashed to 64 bits like the protocol output
            let expect: u64 = u64::from(RP25519::from((*x + k).invert()));
            let by_dalek = curve25519_dalek::RistrettoPoint::mul_base(&curve25519_dalek::Scalar::from(*x + k).invert());
            let expect2: u64 = u64::from(RP25519::from(by_dalek));
            rec.eval();
            let same = h[0][i] == h[1][i] && h[1][i] == h[2][i];
            if same && h[0][i] == expect && expect == expect2 {
                rec.distinct(&("prf", mode, N, x.show(), k.show()));
            } else {
                bad += 1;
                if !same {
                    kind = "helpers_disagree";
                }
                if first.is_none() {
                    first = Some(json!({"index": i, "x": x.show(), "k": k.show(), "got": [h[0][i], h[1][i], h[2][i]], "expected": expect, "expected_dalek": expect2}));
                }
            }
        }
        if h[0][6] != h[0][7] {
            kind = "duplicate_inputs_differ";
            first.get_or_insert(json!({"x": dup.show(), "got": [h[0][6], h[0][7]]}));
        }
    }
    rec.add("tuples_eval_dy_prf", xs.len() as u64);
    if let Some(f) = first {
        rec.violation(
            &format!("eval_dy_prf output differs from hash((1/(k+x))G) ({}, N={N})", mode.name()),
            sig(kind, String::new()),
            json!({"tier": tier_name(), "case": idx, "world_seed": world_seed, "mismatching": bad, "first": f}),
        );
    } else if rec.want_sample() {
        rec.sample(json!({"tier": tier_name(), "case": idx, "op": "eval_dy_prf", "mode": mode.name(), "n": N, "inputs": xs.len(), "k": k.show(), "x0": xs[0].show(), "out0": h[0][0]}));
    }
}
    };
}
prf_case_impl!(prf_case_1, 1);
prf_case_impl!(prf_case_16, 16);

#[cfg(not(feature = "shuttle"))]
#[test]
fn verif_c07_eval_dy_prf() {
    let env = vlib::env();
    let mut rec = Recorder::new("C07", "verif_c07_eval_dy_prf");
    let only = replay_case();
    let reps = env.pick(2, 36);
    let mut idx = 0usize;
    for rep in 0..reps {
        for mode in [Mode::MacSh, Mode::MacMal] {
            for n in [1usize, 16] {
                let my = idx;
                idx += 1;
                if !env.mine(my) || only.is_some_and(|c| c != my) {
                    continue;
                }
                // record counts around the MAC batch size (16)
                let nrec = match (n, rep % 3) {
                    (1, 0) => 20,
                    (1, 1) => 16,
                    (1, _) => 9,
                    (_, 0) => 3,
                    (_, 1) => 1,
                    _ => 17,
                };
                if n == 1 {
                    prf_case_1(&mut rec, my, env.seed, mode, nrec);
                } else {
                    prf_case_16(&mut rec, my, env.seed, mode, nrec);
                }
            }
        }
    }
    rec.finish();
}

// ---------------------------------------------------------------------------------------------
// aggregate_values: column sums with saturation
// ---------------------------------------------------------------------------------------------

async fn agg_all<C, OV, const B: usize>(ctx: C, rows: Vec<BS<B>>) -> Result<BS<B>, Error>
where
    C: Context,
    OV: BooleanArray + U128Conversions,
    Boolean: FieldSimd<B>,
    AdditiveShare<Boolean, B>: BooleanProtocols<C, B>,
{
    let n = rows.len();
    aggregate_values::<C, OV, B>(ctx, stream::iter(rows.into_iter().map(Ok)).boxed(), n, None).await
}

/// (mode, B, OV bits) -> run; only the (B, mode) pairs with a BooleanProtocols impl and a few output types
fn agg_exec(mode: Mode, b: usize, ov: usize, rows: &[Vec<W>], tv: usize, seed: u64) -> (Exec, usize) {
    macro_rules! go {
        (DzkpSh, $b:expr, $ov:ty) => {
            go!(contexts, $b, $ov)
        };
        (DzkpMal, $b:expr, $ov:ty) => {
            go!(malicious_contexts, $b, $ov)
        };
        ($m:ident, $b:expr, $ov:ty) => {{
            const B: usize = $b;
            let mut r = VRng::new(seed ^ 0xa66, 8);
            let mut shares: [Vec<BS<B>>; 3] = std::array::from_fn(|_| Vec::new());
            for row in rows {
                for (k, s) in share_lanes::<B>(&row[..row.len().min(B)], tv, &mut r).into_iter().enumerate() {
                    shares[k].push(s);
                }
            }
            let slots: Slots<BS<B>> = new_slots();
            let nrows = rows.len();
            // total records stay unspecified (aggregate_values sets them per level); one proof over all rows at the end
            let q = world_run!(@dzkp $m, true, seed, slots, shares, 0, nrows.max(1), |ctx, inp| agg_all::<_, $ov, B>(ctx, inp).await);
            let g = slots.lock().unwrap();
            if let Some(f) = classify_fail(&g, q) {
                return (f, B);
            }
            let h: Vec<&BS<B>> = g.iter().map(|s| s.as_ref().unwrap().as_ref().unwrap()).collect();
            match open_lanes::<B>([h[0], h[1], h[2]], B) {
                Ok((bits, v)) => (Exec::Ok(vec![(bits, v, 0, vec![])]), B),
                Err(e) => (Exec::Fail { kind: "inconsistent_shares", detail: e, helpers: vec![] }, B),
            }
        }};
    }
    match (mode, b, ov) {
        (Mode::DzkpSh, 256, 8) => go!(DzkpSh, 256, BA8),
        (Mode::DzkpMal, 256, 8) => go!(DzkpMal, 256, BA8),
        (Mode::DzkpSh, 256, 16) => go!(DzkpSh, 256, BA16),
        (Mode::DzkpMal, 256, 16) => go!(DzkpMal, 256, BA16),
        (Mode::DzkpSh, 256, 32) => go!(DzkpSh, 256, BA32),
        (Mode::DzkpMal, 256, 3) => go!(DzkpMal, 256, BA3),
        (Mode::DzkpSh, 32, 5) => go!(DzkpSh, 32, BA5),
        (Mode::DzkpMal, 32, 8) => go!(DzkpMal, 32, BA8),
        (Mode::DzkpSh, 16, 8) => go!(DzkpSh, 16, BA8),
        (Mode::DzkpMal, 16, 20) => go!(DzkpMal, 16, BA20),
        (Mode::DzkpSh, 8, 8) => go!(DzkpSh, 8, BA8),
        (Mode::DzkpSh, 3, 3) => go!(DzkpSh, 3, BA3),
        (Mode::DzkpSh, 1, 8) => go!(DzkpSh, 1, BA8),
        (Mode::DzkpMal, 1, 5) => go!(DzkpMal, 1, BA5),
        x => panic!("harness: no aggregate executor for {x:?}"),
    }
}

const AGG_SHAPES: &[(Mode, usize, usize)] = &[
    (Mode::DzkpSh, 256, 8),
    (Mode::DzkpMal, 256, 8),
    (Mode::DzkpSh, 256, 16),
    (Mode::DzkpMal, 256, 16),
    (Mode::DzkpSh, 256, 32),
    (Mode::DzkpMal, 256, 3),
    (Mode::DzkpSh, 32, 5),
    (Mode::DzkpMal, 32, 8),
    (Mode::DzkpSh, 16, 8),
    (Mode::DzkpMal, 16, 20),
    (Mode::DzkpSh, 8, 8),
    (Mode::DzkpSh, 3, 3),
    (Mode::DzkpSh, 1, 8),
    (Mode::DzkpMal, 1, 5),
];

#[cfg(not(feature = "shuttle"))]
#[test]
fn verif_c07_aggregate_values() {
    let env = vlib::env();
    let mut rec = Recorder::new("C07", "verif_c07_aggregate_values");
    let only = replay_case();
    // plan: (shape, rows, tv_bits)
    let mut plan: Vec<(Mode, usize, usize, usize, usize)> = Vec::new();
    for (si, (mode, b, ov)) in AGG_SHAPES.iter().copied().enumerate() {
        let main = b == 256 && ov == 8;
        for rows in 0..=40usize {
            for tv in [1usize, 2, 3, 5, 7, 8, 13, 16, 20, 32] {
                if tv > ov {
                    continue;
                }
                // quick: the two main shapes get every row count x three widths; the others a rotating subset
                let keep = if env.thorough {
                    true
                } else if main {
                    matches!(tv, 1 | 3 | 8) || (rows + tv) % 5 == 0
                } else {
                    (rows * 7 + tv + si + env.seed as usize) % 6 == 0 || rows <= 1 && tv == ov.min(3)
                };
                if keep {
                    plan.push((mode, b, ov, rows, tv));
                    if env.thorough && rows >= 2 {
                        plan.push((mode, b, ov, rows, tv)); // second pass: other seeded columns / other sharing
                    }
                }
            }
        }
    }
    for (idx, (mode, b, ov, nrows, tv)) in plan.iter().copied().enumerate() {
        if !env.mine(idx) || only.is_some_and(|c| c != idx) {
            continue;
        }
        let world_seed = env.seed.wrapping_mul(0x9E37_79B9).wrapping_add(0xa6_0000 + idx as u64);
        let mut r = VRng::new(world_seed ^ 0xa66a, 9);
        // per-column value classes: all max (saturates early), all zero, one non-zero row, small values summing to
        // exactly the limit / limit + 1, seeded
        let maxv = (1u128 << tv) - 1;
        let limit = (1u128 << ov) - 1;
        let mut rows: Vec<Vec<W>> = vec![vec![W::ZERO; b]; nrows];
        for col in 0..b {
            let class = col % 8;
            let mut target_left = limit + u128::from(class == 5); // class 4: exactly the limit; 5: limit + 1
            for (ri, row) in rows.iter_mut().enumerate() {
                let v = match class {
                    0 => maxv,
                    1 => 0,
                    2 => {
                        if ri == col % nrows.max(1) { 1 + r.below(maxv as u64) as u128 } else { 0 }
                    }
                    3 => u128::from(r.next() % 4 == 0) * maxv,
                    4 | 5 => {
                        let v = if ri + 1 == nrows { target_left.min(maxv) } else { target_left.min(r.below(maxv as u64 + 1) as u128) };
                        target_left -= v;
                        v
                    }
                    _ => r.below(maxv as u64 + 1) as u128,
                };
                row[col] = W::of(v);
            }
        }
        let (exec, _) = agg_exec(mode, b, ov, &rows, tv, world_seed);
        rec.seen("modes", mode.name());
        rec.seen("aggregate_shapes", format!("{}/B{}/OV{}", mode.name(), b, ov));
        rec.seen("aggregate_rows", format!("{nrows}"));
        rec.seen("aggregate_tv_bits", format!("{tv}"));
        rec.count(&format!("runs_{}", mode.name()));
        let sig = |kind: &str, class: String| json!({"kind": kind, "op": "aggregate_values", "mode": mode.name(), "b": b, "ov": ov, "class": class});
        let shape = json!({"rows": nrows, "tv_bits": tv, "b": b, "ov_bits": ov});
        match exec {
            Exec::Fail { kind, detail, helpers } => {
                rec.eval();
                rec.violation(
                    &format!("{kind} on an honest run of aggregate_values ({}, B={b}, OV={ov} bits, {nrows} rows of {tv} bits)", mode.name()),
                    sig(kind, msg_class(&detail)),
                    json!({"tier": tier_name(), "case": idx, "world_seed": world_seed, "shape": shape, "detail": detail, "helpers": helpers}),
                );
            }
            Exec::Ok(o) => {
                let (bits, vals, _, _) = &o[0];
                let mut first: Option<Value> = None;
                let mut bad = 0u64;
                let mut saturated = 0u64;
                for col in 0..b {
                    let sum: u128 = rows.iter().map(|r| r[col].lo).sum();
                    let expect = sum.min(limit);
                    saturated += u64::from(sum > limit);
                    rec.eval();
                    if *bits == ov && vals[col] == W::of(expect) {
                        rec.distinct(&("agg", mode, b, ov, nrows, tv, col % 8, expect));
                    } else {
                        bad += 1;
                        if first.is_none() {
                            first = Some(json!({"column": col, "values": rows.iter().map(|r| r[col].lo as u64).collect::<Vec<_>>(),
                                                "got": vals[col].hex(), "expected": format!("{expect:x}"), "got_bits": bits}));
                        }
                    }
                }
                rec.add("tuples_aggregate_values", b as u64);
                rec.add("aggregate_saturated_columns", saturated);
                if let Some(f) = first {
                    rec.violation(
                        &format!("aggregate_values differs from the saturating column sum ({}, B={b}, OV={ov} bits)", mode.name()),
                        sig("wrong_value", String::new()),
                        json!({"tier": tier_name(), "case": idx, "world_seed": world_seed, "shape": shape, "mismatching": bad, "first": f}),
                    );
                } else if rec.want_sample() && idx % 9 == 0 {
                    rec.sample(json!({"tier": tier_name(), "case": idx, "op": "aggregate_values", "mode": mode.name(), "shape": shape, "saturated_columns": saturated}));
                }
            }
        }
    }
    rec.finish();
}

// ---------------------------------------------------------------------------------------------
// share_known_value, reshare (all three target roles), validate_replicated_shares on honest shares
// ---------------------------------------------------------------------------------------------

/// Everything is done inside one world run per field: known values, reshare towards H1/H2/H3, share validation.
/// Output per helper: (known-value shares, reshared shares per target role, validation verdict).
type MiscOut<F> = (Vec<AdditiveShare<F>>, Vec<Vec<AdditiveShare<F>>>, Result<(), String>);

async fn misc_all<C, F>(ctx: C, inp: (Vec<F>, Vec<AdditiveShare<F>>)) -> Result<MiscOut<F>, Error>
where
    C: Context,
    F: HF,
    AdditiveShare<F>: Reshare<C>,
{
    let (known, shares) = inp;
    let kv: Vec<AdditiveShare<F>> = known.iter().map(|v| AdditiveShare::<F>::share_known_value(&ctx, *v)).collect();
    let mut reshared = Vec::new();
    for (t, role) in Role::all().iter().enumerate() {
        let c = ctx.narrow(&format!("reshare-to-{t}")).set_total_records(shares.len());
        let outs = try_join_all(shares.iter().enumerate().map(|(i, s)| {
            let c = c.clone();
            async move { s.reshare(c, RecordId::from(i), *role).await }
        }))
        .await?;
        reshared.push(outs);
    }
    let left: Vec<F> = shares.iter().map(|s| s.left()).collect();
    let right: Vec<F> = shares.iter().map(|s| s.right()).collect();
    let verdict = validate_replicated_shares(ctx.narrow("validate-honest"), left.iter(), right.iter())
        .await
        .map_err(|e| format!("{e:?}"));
    Ok((kv, reshared, verdict))
}

fn misc_case<F: HF>(rec: &mut Recorder, idx: usize, seed: u64, fname: &'static str, malicious_ctx: bool, n: usize) {
    let world_seed = seed.wrapping_mul(0x9E37_79B9).wrapping_add(0xe5_0000 + idx as u64);
    let mut r = VRng::new(world_seed ^ 0x3e5, 10);
    let m1 = F::ZERO - F::ONE;
    let mut vals: Vec<F> = vec![F::ZERO, F::ONE, m1, F::ONE + F::ONE];
    while vals.len() < n {
        vals.push(F::rnd(&mut r));
    }
    vals.truncate(n.max(1));
    let mut sh: [Vec<AdditiveShare<F>>; 3] = std::array::from_fn(|_| Vec::new());
    for v in &vals {
        for (k, s) in share_f::<F, 1>(&[*v], &mut r).into_iter().enumerate() {
            sh[k].push(s);
        }
    }
    let [s0, s1, s2] = sh.clone();
    let inputs = [(vals.clone(), s0), (vals.clone(), s1), (vals.clone(), s2)];
    let slots: Slots<MiscOut<F>> = new_slots();
    let mode = if malicious_ctx { "malicious_base" } else { "semi_honest" };
    let q = if malicious_ctx {
        world_run!(@go malicious_contexts, world_seed, slots, inputs, |c, inp| misc_all::<_, F>(c, inp).await)
    } else {
        world_run!(@go contexts, world_seed, slots, inputs, |c, inp| misc_all::<_, F>(c, inp).await)
    };
    rec.seen("misc_shapes", format!("{fname}/{mode}"));
    rec.count(&format!("runs_{mode}"));
    let sig = |kind: &str, op: &str, class: String| json!({"kind": kind, "op": op, "field": fname, "mode": mode, "class": class});
    let g = slots.lock().unwrap();
    if let Some(Exec::Fail { kind, detail, helpers }) = classify_fail(&g, q) {
        rec.eval();
        rec.violation(
            &format!("{kind} on an honest run of share_known_value/reshare/validate_replicated_shares over {fname} ({mode})"),
            sig(kind, "reshare", msg_class(&detail)),
            json!({"tier": tier_name(), "case": idx, "world_seed": world_seed, "detail": detail, "helpers": helpers, "values": vals.iter().map(HF::show).collect::<Vec<_>>()}),
        );
        return;
    }
    let h: Vec<&MiscOut<F>> = g.iter().map(|s| s.as_ref().unwrap().as_ref().unwrap()).collect();
    // share_known_value
    for (i, v) in vals.iter().enumerate() {
        rec.eval();
        match open_f::<F, 1>([&h[0].0[i], &h[1].0[i], &h[2].0[i]]) {
            Ok(o) if o[0] == *v => {
                rec.count("known_value_ok");
                rec.distinct(&("known", fname, mode, v.show()));
            }
            o => rec.violation(
                "share_known_value did not produce a consistent sharing of the constant",
                sig(if o.is_err() { "inconsistent_shares" } else { "wrong_value" }, "share_known_value", String::new()),
                json!({"tier": tier_name(), "case": idx, "world_seed": world_seed, "value": v.show(), "opened": format!("{:?}", o.map(|x| x[0].show()))}),
            ),
        }
    }
    // reshare to each role
    for t in 0..3 {
        let mut fresh = 0u64;
        for (i, v) in vals.iter().enumerate() {
            rec.eval();
            match open_f::<F, 1>([&h[0].1[t][i], &h[1].1[t][i], &h[2].1[t][i]]) {
                Ok(o) if o[0] == *v => {
                    rec.count("reshare_ok");
                    rec.distinct(&("reshare", fname, mode, t, v.show()));
                    fresh += u64::from(h[0].1[t][i] != sh[0][i] || h[1].1[t][i] != sh[1][i]);
                }
                o => rec.violation(
                    &format!("reshare towards H{} did not preserve the secret / produced an inconsistent sharing", t + 1),
                    json!({"kind": if o.is_err() { "inconsistent_shares" } else { "wrong_value" }, "op": "reshare", "field": fname, "mode": mode, "to_helper": t + 1}),
                    json!({"tier": tier_name(), "case": idx, "world_seed": world_seed, "value": v.show(), "to_helper": t + 1, "opened": format!("{:?}", o.map(|x| x[0].show()))}),
                ),
            }
        }
        rec.add("reshare_outputs_differing_from_input_shares", fresh);
    }
    rec.seen("reshare_targets", "H1,H2,H3");
    // validation of honest shares must succeed on every helper
    rec.eval();
    if h.iter().all(|x| x.2.is_ok()) {
        rec.count("share_validation_honest_ok");
        rec.distinct(&("validate", fname, mode, vals.len()));
    } else {
        rec.violation(
            "validate_replicated_shares rejected a consistent sharing",
            sig("validation_failed", "validate_replicated_shares", String::new()),
            json!({"tier": tier_name(), "case": idx, "world_seed": world_seed, "verdicts": h.iter().map(|x| format!("{:?}", x.2)).collect::<Vec<_>>(), "len": vals.len()}),
        );
    }
    if rec.want_sample() {
        rec.sample(json!({"tier": tier_name(), "case": idx, "op": "known/reshare/validate", "field": fname, "mode": mode, "values": vals.len()}));
    }
}

/// MAC-malicious reshare: upgrade, reshare towards every role, validate, open x.
async fn mac_reshare_all<'a, F>(
    m: UpgradedMaliciousContext<'a, F>,
    shares: Vec<AdditiveShare<F>>,
) -> Result<Vec<Vec<AdditiveShare<F>>>, Error>
where
    F: ExtendableField,
    AdditiveShare<<F as ExtendableField>::ExtendedField>: FromPrss,
{
    let outs = try_join_all(shares.into_iter().enumerate().map(|(i, s)| {
        let m = m.clone();
        async move {
            let rid = RecordId::from(i);
            let sm = s.upgrade(m.clone(), rid).await?;
            let mut per_role = Vec::new();
            for (t, role) in Role::all().iter().enumerate() {
                let r = sm.reshare(m.narrow(&format!("mreshare-{t}")), rid, *role).await?;
                per_role.push(r);
            }
            m.validate_record(rid).await?;
            Ok::<_, Error>(per_role.into_iter().map(|r| r.x().access_without_downgrade().clone()).collect::<Vec<_>>())
        }
    }))
    .await?;
    Ok(outs)
}

fn mac_reshare_case<F: HF + ExtendableField>(rec: &mut Recorder, idx: usize, seed: u64, fname: &'static str, n: usize)
where
    AdditiveShare<<F as ExtendableField>::ExtendedField>: FromPrss,
{
    let world_seed = seed.wrapping_mul(0x9E37_79B9).wrapping_add(0xe6_0000 + idx as u64);
    let mut r = VRng::new(world_seed ^ 0x3e6, 11);
    let mut vals: Vec<F> = vec![F::ZERO, F::ONE, F::ZERO - F::ONE];
    while vals.len() < n {
        vals.push(F::rnd(&mut r));
    }
    let mut sh: [Vec<AdditiveShare<F>>; 3] = std::array::from_fn(|_| Vec::new());
    for v in &vals {
        for (k, s) in share_f::<F, 1>(&[*v], &mut r).into_iter().enumerate() {
            sh[k].push(s);
        }
    }
    let slots: Slots<Vec<Vec<AdditiveShare<F>>>> = new_slots();
    let total = vals.len();
    let q = world_run!(MacMal<F>, world_seed, slots, sh, total, |ctx, inp| mac_reshare_all::<F>(ctx, inp).await);
    rec.seen("misc_shapes", format!("{fname}/mac_malicious"));
    rec.count("runs_mac_malicious");
    let g = slots.lock().unwrap();
    if let Some(Exec::Fail { kind, detail, helpers }) = classify_fail(&g, q) {
        rec.eval();
        rec.violation(
            &format!("{kind} on an honest MAC-malicious reshare over {fname}"),
            json!({"kind": kind, "op": "reshare", "field": fname, "mode": "mac_malicious", "class": msg_class(&detail)}),
            json!({"tier": tier_name(), "case": idx, "world_seed": world_seed, "detail": detail, "helpers": helpers}),
        );
        return;
    }
    let h: Vec<&Vec<Vec<AdditiveShare<F>>>> = g.iter().map(|s| s.as_ref().unwrap().as_ref().unwrap()).collect();
    for (i, v) in vals.iter().enumerate() {
        for t in 0..3 {
            rec.eval();
            match open_f::<F, 1>([&h[0][i][t], &h[1][i][t], &h[2][i][t]]) {
                Ok(o) if o[0] == *v => {
                    rec.count("reshare_ok");
                    rec.distinct(&("mac_reshare", fname, t, v.show()));
                }
                o => rec.violation(
                    &format!("MAC-malicious reshare towards H{} did not preserve the secret / produced an inconsistent sharing", t + 1),
                    json!({"kind": if o.is_err() { "inconsistent_shares" } else { "wrong_value" }, "op": "reshare", "field": fname, "mode": "mac_malicious", "to_helper": t + 1}),
                    json!({"tier": tier_name(), "case": idx, "world_seed": world_seed, "value": v.show(), "to_helper": t + 1, "opened": format!("{:?}", o.map(|x| x[0].show()))}),
                ),
            }
        }
    }
}

#[cfg(not(feature = "shuttle"))]
#[test]
fn verif_c07_known_reshare_validate() {
    let env = vlib::env();
    let mut rec = Recorder::new("C07", "verif_c07_known_reshare_validate");
    let only = replay_case();
    type Runner = Box<dyn Fn(&mut Recorder, usize, u64, usize)>;
    let mut plan: Vec<Runner> = Vec::new();
    macro_rules! misc {
        ($f:ty) => {
            plan.push(Box::new(|rec, idx, seed, n| misc_case::<$f>(rec, idx, seed, stringify!($f), false, n)));
            plan.push(Box::new(|rec, idx, seed, n| misc_case::<$f>(rec, idx, seed, stringify!($f), true, n)));
        };
    }
    misc!(Fp31);
    misc!(Fp32BitPrime);
    misc!(Fp61BitPrime);
    misc!(Fp25519);
    misc!(Boolean);
    misc!(Gf2);
    misc!(Gf8Bit);
    misc!(Gf32Bit);
    misc!(Gf40Bit);
    plan.push(Box::new(|rec, idx, seed, n| mac_reshare_case::<Fp31>(rec, idx, seed, "Fp31", n.min(40))));
    plan.push(Box::new(|rec, idx, seed, n| mac_reshare_case::<Fp32BitPrime>(rec, idx, seed, "Fp32BitPrime", n.min(40))));
    plan.push(Box::new(|rec, idx, seed, n| mac_reshare_case::<Gf2>(rec, idx, seed, "Gf2", n.min(40))));
    let reps = env.pick(2, 30);
    let mut idx = 0usize;
    for rep in 0..reps {
        for run in &plan {
            let my = idx;
            idx += 1;
            if !env.mine(my) || only.is_some_and(|c| c != my) {
                continue;
            }
            let n = [50usize, 1, 17, 64, 5][rep % 5];
            run(&mut rec, my, env.seed, n);
        }
    }
    rec.finish();
}
