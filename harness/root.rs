// Root of the verification harness. Included by hook H1 (ipa-core/src/lib.rs) as `crate::verif`.
// Every sub-module is pulled in with include! so that the harness can live outside the repository.

macro_rules! vmod {
    ($name:ident) => {
        pub(crate) mod $name {
            include!(concat!(env!("IPA_VERIF_DIR"), "/harness/", stringify!($name), ".rs"));
        }
    };
}

vmod!(vlib);
vmod!(pm);

/// step-family normalisation usable from every harness module (also under shuttle)
pub(crate) fn wl_step_family(gate: &str) -> String {
    let mut out = String::with_capacity(gate.len());
    let mut prev_digit = false;
    for ch in gate.chars() {
        if ch.is_ascii_digit() {
            if !prev_digit {
                out.push('*');
            }
            prev_digit = true;
        } else {
            out.push(ch);
            prev_digit = false;
        }
    }
    if let Some(rest) = out.strip_prefix("/run-*") {
        return rest.to_string();
    }
    out
}
#[cfg(descriptive_gate)]
vmod!(c10);
vmod!(wl);
vmod!(c01);
#[cfg(not(feature = "shuttle"))]
#[cfg(descriptive_gate)]
vmod!(c02);
#[cfg(not(feature = "shuttle"))]
#[cfg(descriptive_gate)]
vmod!(c05);
#[cfg(not(feature = "shuttle"))]
#[cfg(descriptive_gate)]
vmod!(c06);
#[cfg(not(feature = "shuttle"))]
#[cfg(descriptive_gate)]
vmod!(c11);
#[cfg(not(feature = "shuttle"))]
#[cfg(descriptive_gate)]
vmod!(c04);
#[cfg(descriptive_gate)]
vmod!(c15);
#[cfg(descriptive_gate)]
vmod!(c17);

#[cfg(descriptive_gate)]
vmod!(c08);
#[cfg(descriptive_gate)]
vmod!(c09);
#[cfg(not(feature = "shuttle"))]
#[cfg(descriptive_gate)]
vmod!(c20);
#[cfg(not(feature = "shuttle"))]
#[cfg(descriptive_gate)]
vmod!(c07);
#[cfg(not(feature = "shuttle"))]
#[cfg(descriptive_gate)]
vmod!(c18);
#[cfg(descriptive_gate)]
vmod!(c19);
#[cfg(descriptive_gate)]
vmod!(c13);
