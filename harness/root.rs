// Root of the verification harness. Included by hook H1 (ipa-core/src/lib.rs) as `crate::verif`.
// Every sub-module is pulled in with include! so that the harness can live outside the repository.

macro_rules! vmod {
    ($name:ident) => {
        pub(crate) mod $name {
            include!(concat!(env!("IPA_VERIF_DIR"), "/harness/", stringify!($name), ".rs"));
        }
    };
}

vmod!(vlib);
vmod!(c10);
#[cfg(not(feature = "shuttle"))]
vmod!(wl);
#[cfg(not(feature = "shuttle"))]
vmod!(c01);
#[cfg(not(feature = "shuttle"))]
vmod!(c02);
#[cfg(not(feature = "shuttle"))]
vmod!(c05);
