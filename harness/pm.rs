// PRSS monitor: an *independent* no-reuse / collision / agreement checker over the H5 draw log
// (does not rely on the debug-only `UsedSet`). Any test can wrap its executions with begin()/end().

use std::collections::HashMap;

use serde_json::{Value, json};

use super::vlib::Recorder;
use crate::verif_obs;

pub fn begin() {
    let _ = verif_obs::drain_prss();
    verif_obs::enable(true, true);
}

#[derive(Default, Debug)]
pub struct PrssStats {
    pub generators: usize,
    pub draws: usize,
    pub distinct_keys: usize,
    pub max_offset: u32,
    /// (step, index:offset) keys drawn at least 12 times (= on two or more shards of all three helpers) whose draws take
    /// only 3 distinct values: every shard of a helper pair saw the same value (what cross-shard randomness looks like)
    pub keys_replicated_over_shards: usize,
    /// keys with more than 3 distinct values: shards of one helper pair drew different values (per-shard randomness)
    pub keys_with_per_shard_values: usize,
}

/// Is this panic text the debug-build PRSS reuse detector?
pub fn is_reuse_panic(msg: &str) -> bool {
    msg.contains("Generated randomness for index") && msg.contains("twice")
}

/// Drains the log and checks it. `label` names the workload in witnesses.
/// Rules: (R1) no generator draws the same index:offset twice; (R2) equal 128-bit outputs only for
/// equal (step key, index:offset) - i.e. the two ends of one shared pair or replicas on shards;
/// (R3) every (step key, index:offset) yields at most `max_values_per_key` distinct values
/// (3 pairs x shard worlds), recorded as an observation only.
pub fn end(rec: &mut Recorder, label: &str, witness: Value) -> PrssStats {
    verif_obs::enable(false, false);
    let (gens, draws) = verif_obs::drain_prss();
    let ctx: HashMap<u64, String> = gens.into_iter().map(|(id, c)| (id, String::from_utf8_lossy(&c).into_owned())).collect();
    let mut stats = PrssStats { generators: ctx.len(), draws: draws.len(), ..Default::default() };
    let mut seen: HashMap<(u64, u128), u32> = HashMap::with_capacity(draws.len());
    let mut by_value: HashMap<u128, (u64, u128)> = HashMap::with_capacity(draws.len());
    let mut reuse_reported = 0;
    let mut coll_reported = 0;
    for d in &draws {
        let off = (d.index & 0xffff_ffff) as u32;
        stats.max_offset = stats.max_offset.max(off);
        let n = seen.entry((d.generator, d.index)).or_insert(0);
        *n += 1;
        if *n == 2 && reuse_reported < 3 {
            reuse_reported += 1;
            let key = ctx.get(&d.generator).cloned().unwrap_or_default();
            rec.violation(
                "the same PRSS (step, index:offset) value was drawn twice from one generator",
                json!({"kind": "prss_reuse", "workload": label, "step_family": super::wl_step_family(&key)}),
                json!({"w": witness, "step": key, "index": (d.index >> 32) as u64, "offset": off}),
            );
        }
        match by_value.get(&d.value) {
            None => {
                by_value.insert(d.value, (d.generator, d.index));
            }
            Some((g0, i0)) => {
                let same = *i0 == d.index && ctx.get(g0) == ctx.get(&d.generator);
                if !same && coll_reported < 3 {
                    coll_reported += 1;
                    rec.violation(
                        "two different PRSS (step, index:offset) inputs produced the same 128-bit value",
                        json!({"kind": "prss_collision", "workload": label}),
                        json!({"w": witness, "a": {"step": ctx.get(g0), "index": i0.to_string()},
                               "b": {"step": ctx.get(&d.generator), "index": d.index.to_string()}}),
                    );
                }
            }
        }
    }
    stats.distinct_keys = seen.len();
    {
        let mut per_key: HashMap<(&str, u128), (u32, Vec<u128>)> = HashMap::new();
        for d in &draws {
            let Some(k) = ctx.get(&d.generator) else { continue };
            let e = per_key.entry((k.as_str(), d.index)).or_insert((0, Vec::new()));
            e.0 += 1;
            if !e.1.contains(&d.value) {
                e.1.push(d.value);
            }
        }
        for (n, vals) in per_key.values() {
            if vals.len() > 3 {
                stats.keys_with_per_shard_values += 1;
            } else if *n >= 12 && vals.len() == 3 {
                stats.keys_replicated_over_shards += 1;
            }
        }
    }
    rec.add("prss_draws_checked", stats.draws as u64);
    rec.add("prss_generators_seen", stats.generators as u64);
    stats
}
