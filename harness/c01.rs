// C01 Hybrid attribution result equals the in-the-clear reference.
//
// Differential monitor: run the real `hybrid_protocol` on a three-helper x S-shard in-memory world
// (own sharing of inputs, own assignment of reports to shards), reconstruct the leader histogram
// from the three helpers' (left,right) output shares (checking share consistency) and compare with
// an independent plaintext reference. Non-completion is decided by quiescence under a paused
// clock, never by wall time. The H5 stage log classifies failing runs exactly.

use serde_json::{Value, json};

use super::{
    vlib::{self, Recorder, VRng},
    wl::{self, Exec, HelperOut, HybridCase, HybridRun, Rep},
};

fn pairs(keys: std::ops::Range<u64>, r: &mut VRng, bk: Option<u8>, v: Option<u8>) -> Vec<Rep> {
    let mut out = Vec::new();
    for k in keys {
        out.push(Rep::Imp { mk: 1000 + k, bk: bk.unwrap_or_else(|| r.below(256) as u8) });
        out.push(Rep::Conv { mk: 1000 + k, v: v.unwrap_or_else(|| r.below(8) as u8) });
    }
    out
}

/// Fixed corner list. Returns (name, reports, hv_bits).
fn corner(i: usize, shards: usize, r: &mut VRng) -> Option<(&'static str, Vec<Rep>, u32)> {
    // `base` keeps every shard populated at every stage with overwhelming probability, so that the
    // corner itself is what the run decides (multi-shard small inputs are a separate, explicit class)
    let base = |r: &mut VRng| if shards > 1 { pairs(500..500 + 14 * shards as u64, r, None, None) } else { Vec::new() };
    Some(match i {
        0 => ("empty", vec![], 32),
        1 => ("single_report", vec![Rep::Imp { mk: 7, bk: 3 }], 32),
        2 => ("only_impressions", (0..5).map(|k| Rep::Imp { mk: k, bk: k as u8 }).collect(), 32),
        3 => ("only_conversions", (0..5).map(|k| Rep::Conv { mk: k, v: (k % 8) as u8 }).collect(), 32),
        4 => (
            "all_unmatched",
            (0..6).map(|k| if k % 2 == 0 { Rep::Imp { mk: k, bk: 9 } } else { Rep::Conv { mk: k, v: 5 } }).collect(),
            32,
        ),
        5 => {
            let mut v = base(r);
            v.extend(pairs(0..3, r, None, None));
            ("imp_conv_pairs", v, 32)
        }
        6 => {
            let mut v = base(r);
            v.extend([Rep::Conv { mk: 1, v: 5 }, Rep::Conv { mk: 1, v: 6 }, Rep::Conv { mk: 2, v: 7 }, Rep::Conv { mk: 2, v: 1 }]);
            ("conv_conv_value_wrap", v, 32)
        }
        7 => {
            let mut v = base(r);
            v.extend([Rep::Imp { mk: 1, bk: 200 }, Rep::Imp { mk: 1, bk: 100 }, Rep::Imp { mk: 2, bk: 255 }, Rep::Imp { mk: 2, bk: 1 }]);
            v.extend([Rep::Imp { mk: 3, bk: 17 }, Rep::Conv { mk: 3, v: 6 }]);
            ("imp_imp_breakdown_wrap", v, 32)
        }
        8 => {
            let mut v = base(r);
            // a triple, a quadruple, a quintuple (all ignored) and two genuine pairs
            v.extend([Rep::Imp { mk: 1, bk: 4 }, Rep::Conv { mk: 1, v: 3 }, Rep::Conv { mk: 1, v: 2 }]);
            v.extend([Rep::Imp { mk: 2, bk: 5 }, Rep::Imp { mk: 2, bk: 5 }, Rep::Conv { mk: 2, v: 1 }, Rep::Conv { mk: 2, v: 1 }]);
            v.extend((0..5).map(|_| Rep::Conv { mk: 3, v: 7 }));
            v.extend(pairs(10..12, r, Some(4), Some(3)));
            ("more_than_two", v, 32)
        }
        9 => {
            let mut v = base(r);
            v.extend(pairs(0..20, r, Some(77), None));
            ("colliding_bucket", v, 32)
        }
        10 => {
            let mut v = base(r);
            v.extend(pairs(0..40, r, Some(9), Some(7))); // 280 > 255
            v.extend(pairs(100..136, r, Some(10), Some(7))); // 252 < 255
            v.extend(pairs(200..237, r, Some(11), Some(7))); // 259 -> 255
            ("saturation_8bit", v, 8)
        }
        11 => {
            let mut v = base(r);
            v.extend(pairs(0..135, r, None, None)); // > 256 rows: second 256-wide conversion chunk
            ("second_conversion_chunk", v, 32)
        }
        12 => {
            // exact duplicates of a report pair => four reports with one key: ignored
            let mut v = base(r);
            v.extend([Rep::Imp { mk: 1, bk: 8 }, Rep::Conv { mk: 1, v: 2 }, Rep::Imp { mk: 1, bk: 8 }, Rep::Conv { mk: 1, v: 2 }]);
            v.extend(pairs(20..23, r, Some(255), Some(7)));
            ("duplicated_pair", v, 32)
        }
        _ => return None,
    })
}
const N_CORNERS: usize = 13;

fn assign(dist: usize, n: usize, shards: usize, r: &mut VRng) -> (Vec<usize>, &'static str) {
    match dist {
        0 => ((0..n).map(|i| i % shards).collect(), "round_robin"),
        1 => ((0..n).map(|_| r.below(shards as u64) as usize).collect(), "random"),
        2 => (vec![shards - 1; n], "all_to_one_shard"),
        _ => ((0..n).map(|i| 1 + i % (shards - 1).max(1)).map(|s| s % shards).collect(), "one_empty_shard"),
    }
}

fn seeded_reports(r: &mut VRng, shards: usize, big: bool) -> Vec<Rep> {
    // small match-key pool => many collisions of every multiplicity
    let keys = if big { 40 * shards as u64 } else { 14 * shards as u64 } + r.below(10);
    let mut v = pairs(0..keys, r, None, None);
    let extra = r.below(keys / 2 + 1);
    for _ in 0..extra {
        let mk = 1000 + r.below(keys + 5);
        if r.bool() {
            v.push(Rep::Imp { mk, bk: r.below(256) as u8 });
        } else {
            v.push(Rep::Conv { mk, v: r.below(8) as u8 });
        }
    }
    // a few buckets hit hard
    for k in 0..r.below(6) {
        v.extend(pairs(5000 + k * 10..5000 + k * 10 + 3, r, Some(200), Some(7)));
    }
    r.shuffle(&mut v);
    v
}

pub fn judge(rec: &mut Recorder, case: &HybridCase, run: &HybridRun, name: &str, dist: &str, idx: usize) -> bool {
    let expected = wl::reference_histogram(&case.reports, case.hv_bits);
    rec.eval();
    let leader = &run.outs[0];
    let multi = case.shards > 1;
    let witness = || {
        json!({"case": idx, "name": name, "dist": dist, "hybrid_case": case.to_json(),
               "outs": run.outs.iter().map(|o| o.iter().map(HelperOut::brief).collect::<Vec<_>>()).collect::<Vec<_>>(),
               "quiescent": run.quiescent, "stages": run.stages_json()})
    };
    if run.wall_timeout {
        rec.inconclusive(format!("case {idx} ({name}) hit the wall-clock guard on the multi-thread runtime"));
        return false;
    }
    // The query has an output only when every helper on every shard finished with Ok (a follower shard that
    // errs or never finishes keeps the query from completing, whatever the leader future returned).
    match (&leader[0], &leader[1], &leader[2]) {
        (HelperOut::Ok(a), HelperOut::Ok(b), HelperOut::Ok(c)) if run.all_ok() => match wl::reconstruct3([a, b, c]) {
            Ok(h) if h == expected => {
                rec.count("histogram_equal");
                let nonzero = expected.iter().filter(|x| **x != 0).count();
                rec.distinct(&(name, dist, case.shards, case.malicious, case.padding, case.hv_bits, wl_hash(&case.reports)));
                rec.add("nonzero_buckets_checked", nonzero as u64);
                true
            }
            Ok(h) => {
                let diff: Vec<_> = (0..h.len().min(expected.len()))
                    .filter(|i| h[*i] != expected[*i])
                    .take(8)
                    .map(|i| json!({"bucket": i, "got": h[i].to_string(), "want": expected[i].to_string()}))
                    .collect();
                rec.violation(
                    "reconstructed histogram differs from the plaintext reference",
                    json!({"kind": "wrong_histogram", "multi_shard": multi, "malicious": case.malicious, "padding": case.padding,
                           "len_ok": h.len() == expected.len()}),
                    json!({"w": witness(), "diff": diff}),
                );
                false
            }
            Err(e) => {
                rec.violation(
                    "leader output shares are not a consistent replicated sharing",
                    json!({"kind": "inconsistent_output_shares", "multi_shard": multi}),
                    json!({"w": witness(), "detail": e}),
                );
                false
            }
        },
        _ => {
            let err_class = leader
                .iter()
                .chain(run.outs.iter().skip(1).flatten())
                .find_map(|o| match o {
                    HelperOut::Err(e) => Some(e.split(|c: char| !c.is_alphanumeric()).next().unwrap_or("").to_string()),
                    HelperOut::Panic(_) => Some("panic".to_string()),
                    _ => None,
                })
                .unwrap_or_else(|| "none".into());
            rec.seen("no_result_error_classes", err_class.clone());
            rec.violation(
                "honest run did not produce a histogram on the leader shard",
                json!({"kind": "no_result", "multi_shard": multi, "empty_stage": run.first_empty_stage()}),
                witness(),
            );
            false
        }
    }
}

fn wl_hash(v: &[Rep]) -> u64 {
    vlib::fxhash(&v)
}

fn replay() -> Option<Value> {
    let p = vlib::env().replay?;
    let w: Value = serde_json::from_str(&std::fs::read_to_string(p).ok()?).ok()?;
    Some(w["witness"].clone())
}

#[cfg(all(descriptive_gate, not(feature = "shuttle")))]
#[test]
fn verif_c01_corners() {
    corners("verif_c01_corners");
}

/// the same corner list under the compact (generated) step table, build b3
#[cfg(compact_gate)]
#[test]
fn verif_c01_cg_corners() {
    corners("verif_c01_cg_corners");
}

#[cfg(not(feature = "shuttle"))]
fn corners(test_name: &'static str) {
    let env = vlib::env();
    let mut rec = Recorder::new("C01", test_name);
    if let Some(w) = replay() {
        let hc = if w.get("hybrid_case").is_some() { &w["hybrid_case"] } else { &w["w"]["hybrid_case"] };
        let case = HybridCase::from_json(hc);
        let run = wl::run_hybrid(&case, None);
        judge(&mut rec, &case, &run, "replay", "replay", 0);
        rec.finish();
        return;
    }
    let shard_set: &[usize] = if env.thorough { &[1, 2, 3, 5] } else { &[1, 2] };
    let mut idx = 0usize;
    for c in 0..N_CORNERS {
        for &shards in shard_set {
            for malicious in [false, true] {
                for padding in [false, true] {
                    // quick: padding only in malicious mode and not for the largest corners
                    if !env.thorough && padding && (!malicious || c == 11 || c == 10) {
                        continue;
                    }
                    idx += 1;
                    if !env.mine(idx) {
                        continue;
                    }
                    let mut r = VRng::new(env.seed ^ 0xc01, idx as u64);
                    let (name, reports, hv_bits) = corner(c, shards, &mut r).unwrap();
                    let dist = if shards == 1 { 0 } else { (idx / 3) % 2 };
                    let (assign, dname) = assign(dist, reports.len(), shards, &mut r);
                    let case = HybridCase {
                        reports,
                        assign,
                        shards,
                        malicious,
                        padding,
                        hv_bits,
                        world_seed: env.seed.wrapping_mul(1000) + idx as u64,
                        // the multi-thread executor cannot tell a stalled run from a slow one except by a long wall-clock
                        // guard, so it is used where no stall is expected (one shard, or every shard well populated)
                        exec: if idx % 5 == 4 && (shards == 1 || c >= 5) { Exec::Mt(4) } else { Exec::Paused },
                    };
                    let run = wl::run_hybrid(&case, None);
                    rec.seen("corner_classes", format!("{name}/S{shards}/{}/{}", if malicious { "mal" } else { "sh" }, if padding { "pad" } else { "nopad" }));
                    rec.seen("leader_outcomes", run.leader_classes());
                    for e in &run.stages {
                        rec.seen("stages_logged", e.kind.clone());
                    }
                    judge(&mut rec, &case, &run, name, dname, idx);
                    if rec.want_sample() {
                        rec.sample(json!({"corner": name, "case": case.summary(), "leader": run.leader_classes(), "stages": run.stages_json()}));
                    }
                }
            }
        }
    }
    rec.finish();
}

#[cfg(all(descriptive_gate, not(feature = "shuttle")))]
#[test]
fn verif_c01_seeded() {
    seeded("verif_c01_seeded");
}

#[cfg(compact_gate)]
#[test]
fn verif_c01_cg_seeded() {
    seeded("verif_c01_cg_seeded");
}

#[cfg(not(feature = "shuttle"))]
fn seeded(test_name: &'static str) {
    let env = vlib::env();
    let mut rec = Recorder::new("C01", test_name);
    if env.replay.is_some() {
        rec.finish();
        return;
    }
    let n = env.pick(24, 400);
    for idx in 0..n {
        if !env.mine(idx) {
            continue;
        }
        let mut r = VRng::new(env.seed ^ 0x5eed01, idx as u64);
        let shards = if env.thorough { [1, 2, 3, 5][idx % 4] } else { [1, 2, 3][idx % 3] };
        let malicious = (idx / 4) % 2 == 0;
        let padding = (idx / 8) % 3 == 0;
        let reports = seeded_reports(&mut r, shards, env.thorough && idx % 16 == 5);
        let dist = if shards == 1 { 0 } else { idx % 2 };
        let (assign, dname) = assign(dist, reports.len(), shards, &mut r);
        let case = HybridCase {
            reports,
            assign,
            shards,
            malicious,
            padding,
            hv_bits: if idx % 7 == 3 { 8 } else { 32 },
            world_seed: env.seed.wrapping_mul(7919) + idx as u64,
            exec: if idx % 6 == 5 { Exec::Mt(4) } else { Exec::Paused },
        };
        let run = wl::run_hybrid(&case, None);
        rec.seen("seeded_classes", format!("S{shards}/{}/{}/{dname}/hv{}", if malicious { "mal" } else { "sh" }, if padding { "pad" } else { "nopad" }, case.hv_bits));
        rec.seen("leader_outcomes", run.leader_classes());
        judge(&mut rec, &case, &run, "seeded", dname, idx);
        if rec.want_sample() {
            rec.sample(json!({"case": case.summary(), "leader": run.leader_classes(), "stages": run.stages_json()}));
        }
    }
    rec.finish();
}

/// Explicit class: small multi-shard inputs and skewed placements (a shard without rows at some
/// stage). On the current tree these runs exercise the known findings; any *other* failure shape is
/// reported as a violation.
#[cfg(all(descriptive_gate, not(feature = "shuttle")))]
#[test]
fn verif_c01_sparse_shards() {
    let env = vlib::env();
    let mut rec = Recorder::new("C01", "verif_c01_sparse_shards");
    if env.replay.is_some() {
        rec.finish();
        return;
    }
    let n = env.pick(12, 96);
    for idx in 0..n {
        if !env.mine(idx) {
            continue;
        }
        let mut r = VRng::new(env.seed ^ 0x59a75e, idx as u64);
        let shards = [2, 3, 5][idx % 3];
        let npairs = 1 + r.below(6);
        let mut reports = pairs(0..npairs, &mut r, None, None);
        if idx % 4 == 1 {
            reports.push(Rep::Imp { mk: 99, bk: 1 });
        }
        let dist = [1usize, 2, 3, 0][(idx / 3) % 4];
        let (assign, dname) = assign(dist, reports.len(), shards, &mut r);
        let case = HybridCase {
            reports,
            assign,
            shards,
            malicious: idx % 2 == 0,
            padding: false,
            hv_bits: 32,
            world_seed: env.seed.wrapping_mul(104_729) + idx as u64,
            exec: Exec::Paused,
        };
        let run = wl::run_hybrid(&case, None);
        rec.seen("sparse_classes", format!("S{shards}/{dname}/pairs{npairs}"));
        rec.seen("leader_outcomes", run.leader_classes());
        rec.seen("first_empty_stage", format!("{:?}", run.first_empty_stage()));
        judge(&mut rec, &case, &run, "sparse", dname, idx);
        if rec.want_sample() && idx % 3 == 0 {
            rec.sample(json!({"case": case.summary(), "leader": run.leader_classes(), "first_empty_stage": run.first_empty_stage(), "stages": run.stages_json()}));
        }
    }
    rec.finish();
}

/// Schedule exploration (build b2): small queries under shuttle's random and PCT schedulers; every schedule's
/// result must equal the reference; a deadlock reported by shuttle is "query never completes".
#[cfg(feature = "shuttle")]
#[test]
fn verif_c01_sh_schedules() {
    let env = vlib::env();
    let mut rec = Recorder::new("C01", "verif_c01_sh_schedules");
    let n_cases = env.pick(4, 16);
    let iters = env.pick(6, 20);
    for idx in 0..n_cases {
        if !env.mine(idx) {
            continue;
        }
        let mut r = VRng::new(env.seed ^ 0x5c4e, idx as u64);
        let shards = 1 + idx % 2;
        let mut reports = pairs(0..(if shards == 1 { 3 } else { 30 }), &mut r, None, None);
        reports.extend([Rep::Conv { mk: 7, v: 7 }, Rep::Conv { mk: 7, v: 1 }, Rep::Imp { mk: 8, bk: 3 }]);
        r.shuffle(&mut reports);
        let case = HybridCase {
            assign: (0..reports.len()).map(|i| i % shards).collect(),
            reports,
            shards,
            malicious: idx % 4 < 2,
            padding: false,
            hv_bits: 32,
            world_seed: env.seed.wrapping_mul(523) + idx as u64,
            exec: Exec::Paused,
        };
        let pct = idx % 2 == 1;
        match wl::run_hybrid_shuttle(&case, iters, pct) {
            Ok(runs) => {
                rec.add("shuttle_schedules_run", runs.len() as u64);
                for (k, run) in runs.iter().enumerate() {
                    if judge(&mut rec, &case, run, "shuttle", if pct { "pct" } else { "random" }, idx * 1000 + k) {
                        rec.distinct(&("sh", idx, k));
                    }
                }
            }
            Err(p) => {
                rec.eval();
                rec.violation(
                    "the query did not complete under a shuttle schedule (deadlock or panic reported by the scheduler)",
                    json!({"kind": "shuttle_failure", "deadlock": p.contains("deadlock"), "multi_shard": shards > 1}),
                    json!({"case": idx, "hybrid_case": case.to_json(), "panic": p.chars().take(1500).collect::<String>()}),
                );
            }
        }
        if rec.want_sample() {
            rec.sample(json!({"case": case.summary(), "scheduler": if pct { "pct(3)" } else { "random" }, "iterations": iters}));
        }
    }
    rec.finish();
}
