// C09 Wire encodings round-trip and reject every non-canonical byte string.
//
// Monitors (every oracle is written here, independent of the code under test):
//  (i)   value side : deserialize(serialize(v)) == v, serialize overwrites the whole buffer, the buffer length
//                     (`T::Size`) equals the length the harness expects for the type;
//  (ii)  byte side  : for a byte string b, deserialize(b) = Ok(v) => serialize(v) == b, and Ok/Err agrees with a
//                     canonicity predicate written here (value < PRIME, padding bits zero, Boolean in {0,1}, scalar
//                     below the group order, Ristretto encoding accepted by curve25519-dalek itself);
//  (iii) a panic of a (de)serialiser on arbitrary bytes is a violation (`vlib::catch`);
//  (iv)  every TransposeFrom impl against a naive bit-matrix reference, and transpose . inverse-shape transpose = id;
//  (v)   field packing (BooleanArrayWriter/Reader, join_fields/split_fields through Shuffleable) is lossless;
//  (vi)  QueryConfig & friends through the HTTP query string and JSON.

use std::{array, fmt::Debug, ops::Add};

use generic_array::{ArrayLength, GenericArray};
use serde_json::json;
use typenum::Unsigned;

use super::vlib::{self, Recorder, VRng, catch, hex};
use crate::{
    ff::{
        ArrayAccess, Fp31, Fp32BitPrime, Fp61BitPrime, Gf2, Gf3Bit, Gf8Bit, Gf9Bit, Gf20Bit,
        Gf32Bit, Gf40Bit, Serializable, U128Conversions,
        boolean::Boolean,
        boolean_array::{
            BA3, BA4, BA5, BA6, BA7, BA8, BA16, BA20, BA32, BA64, BA96, BA112, BA144, BA256,
            BooleanArray, BooleanArrayReader, BooleanArrayWriter,
        },
        curve_points::RP25519,
        ec_prime_field::Fp25519,
    },
    helpers::hashing::Hash,
    protocol::{
        context::dzkp_validator::MAX_PROOF_RECURSION,
        ipa_prf::{CompressedProofGenerator, FirstProofGenerator},
        prss::Seed,
    },
    report::hybrid::{PrfHybridReport, UniqueTag},
    secret_sharing::{
        BitDecomposed, SharedValue, StdArray, TransposeFrom, Vectorizable,
        replicated::{
            ReplicatedSecretSharing,
            malicious::AdditiveShare as MaliciousShare,
            semi_honest::AdditiveShare,
        },
    },
};

const PROP: &str = "C09";

// ---------------------------------------------------------------------------------------------
// generic helpers
// ---------------------------------------------------------------------------------------------


thread_local! {
    static SIG_COUNT: std::cell::RefCell<std::collections::HashMap<String, u32>> = std::cell::RefCell::new(std::collections::HashMap::new());
}
/// At most 3 witnesses per exact signature and process, so that one (possibly known) finding cannot exhaust the
/// recorder's witness cap and hide a different one. The rest is counted.
fn viol(rec: &mut Recorder, what: &str, sig: serde_json::Value, mut witness: serde_json::Value) {
    let key = sig.to_string();
    let n = SIG_COUNT.with(|m| {
        let mut m = m.borrow_mut();
        let e = m.entry(key).or_insert(0);
        *e += 1;
        *e
    });
    if n <= 3 {
        witness["tier"] = json!(if vlib::env().thorough { "thorough" } else { "quick" });
        rec.violation(what, sig, witness);
    } else {
        rec.count("violations_same_signature_not_listed");
    }
}

/// Environment + the case to replay (if any). A replay runs in the tier recorded in the witness.
fn envx() -> (vlib::Env, Option<usize>) {
    let mut env = vlib::env();
    let mut only = None;
    if let Some(p) = env.replay.clone() {
        if let Ok(txt) = std::fs::read_to_string(p) {
            if let Ok(w) = serde_json::from_str::<serde_json::Value>(&txt) {
                only = w["witness"]["case"].as_u64().map(|v| v as usize);
                if let Some(t) = w["witness"]["tier"].as_str() {
                    env.thorough = t == "thorough";
                }
            }
        }
    }
    (env, only)
}

/// Serialise into a buffer pre-filled with `fill` (to detect serialisers that leave bytes untouched).
fn ser<T: Serializable>(v: &T, fill: u8) -> Vec<u8> {
    let mut buf = GenericArray::<u8, T::Size>::default();
    for b in buf.iter_mut() {
        *b = fill;
    }
    v.serialize(&mut buf);
    buf.to_vec()
}

/// Deserialise; outer Err = panic message, inner Err = rejection (error text).
fn de<T: Serializable>(b: &[u8]) -> Result<Result<T, String>, String> {
    assert_eq!(b.len(), T::Size::USIZE, "harness bug: wrong buffer length");
    catch(|| T::deserialize(GenericArray::from_slice(b)).map_err(|e| e.to_string()))
}

fn le_u128(b: &[u8]) -> u128 {
    b.iter().take(16).enumerate().fold(0u128, |a, (i, x)| a | (u128::from(*x) << (8 * i)))
}

fn le_bytes(v: u128, n: usize) -> Vec<u8> {
    let mut out = v.to_le_bytes().to_vec();
    out.resize(n.max(16), 0);
    out.truncate(n);
    out
}

fn short(s: &str, n: usize) -> String {
    s.chars().take(n).collect()
}

fn panic_class(msg: &str) -> String {
    let mut s: String = msg.chars().map(|c| if c.is_ascii_digit() { '#' } else { c }).collect();
    while s.contains("##") {
        s = s.replace("##", "#");
    }
    s.truncate(80);
    s
}

/// Independent description of a wire type: expected length, canonicity predicate, generators.
trait Canon: Serializable + Sized + 'static {
    fn name() -> String;
    /// name of the primitive type that decides canonicity (for known-finding signatures)
    fn leaf() -> String {
        Self::name()
    }
    /// the length the harness expects (independently of `Self::Size`)
    fn esize() -> usize;
    fn canonical(b: &[u8]) -> bool;
    fn same(a: &Self, b: &Self) -> bool;
    /// type specific boundary strings (canonical and not)
    fn edges() -> Vec<Vec<u8>>;
    /// a random *canonical* encoding according to the harness' predicate
    fn canon_random(r: &mut VRng) -> Vec<u8>;
    /// a random interesting string: uniform bytes / canonical / edge (+- one flipped bit)
    fn interesting(r: &mut VRng) -> Vec<u8> {
        let n = Self::esize();
        match r.below(10) {
            0..=3 => r.bytes(n),
            4..=6 => Self::canon_random(r),
            _ => {
                let e = Self::edges();
                let mut b = r.choose(&e).clone();
                if r.bool() {
                    let bit = r.below(8 * n as u64) as usize;
                    b[bit / 8] ^= 1 << (bit % 8);
                }
                b
            }
        }
    }
}

#[derive(Default)]
struct Tally {
    accepted: u64,
    rejected: u64,
}

/// Monitor (ii)+(iii) for one byte string, and (i) for the decoded value. Returns Some(accepted).
fn check_bytes<T: Canon>(
    rec: &mut Recorder,
    name: &str,
    b: &[u8],
    case: usize,
    origin: &str,
    tally: &mut Tally,
) -> Option<bool> {
    rec.eval();
    let canon = T::canonical(b);
    let wit = |extra: serde_json::Value| json!({"case": case, "type": name, "bytes": hex(b), "origin": origin, "detail": extra});
    match de::<T>(b) {
        Err(p) => {
            viol(
 rec,
                "deserialize panicked on a byte string",
                json!({"kind": "panic_in_deserialize", "type": name, "leaf": T::leaf(), "panic": panic_class(&p)}),
                wit(json!({"panic": p, "canonical_by_oracle": canon})),
            );
            None
        }
        Ok(Err(e)) => {
            tally.rejected += 1;
            if canon {
                viol(
 rec,
                    "deserialize rejected a canonical encoding",
                    json!({"kind": "canonical_rejected", "type": name, "leaf": T::leaf()}),
                    wit(json!({"error": e})),
                );
            }
            Some(false)
        }
        Ok(Ok(v)) => {
            tally.accepted += 1;
            let s0 = catch(|| ser(&v, 0x00));
            let s1 = catch(|| ser(&v, 0xff));
            let (s0, s1) = match (s0, s1) {
                (Ok(a), Ok(b)) => (a, b),
                (Err(p), _) | (_, Err(p)) => {
                    viol(
 rec,
                        "serialize panicked on a decoded value",
                        json!({"kind": "panic_in_serialize", "type": name, "leaf": T::leaf(), "panic": panic_class(&p)}),
                        wit(json!({"panic": p})),
                    );
                    return Some(true);
                }
            };
            if !canon {
                viol(
 rec,
                    "deserialize accepted a non-canonical byte string",
                    json!({"kind": "noncanonical_accepted", "type": name, "leaf": T::leaf(), "reencodes_to_same_bytes": s0 == b}),
                    wit(json!({"reencoded": hex(&s0)})),
                );
            } else if s0 != b {
                viol(
 rec,
                    "serialize(deserialize(b)) differs from b",
                    json!({"kind": "reencoding_differs", "type": name, "leaf": T::leaf()}),
                    wit(json!({"reencoded": hex(&s0)})),
                );
            }
            if s0 != s1 {
                viol(
 rec,
                    "serialize does not overwrite the whole buffer",
                    json!({"kind": "serialize_partial_write", "type": name, "leaf": T::leaf()}),
                    wit(json!({"fill00": hex(&s0), "fillff": hex(&s1)})),
                );
            }
            if s0.len() != T::esize() {
                viol(
 rec,
                    "encoding length differs from the advertised length",
                    json!({"kind": "wrong_length", "type": name, "leaf": T::leaf(), "size": s0.len(), "expected": T::esize()}),
                    wit(json!({})),
                );
            }
            // value side: decode(encode(v)) == v
            match de::<T>(&s0) {
                Ok(Ok(v2)) if T::same(&v, &v2) => {}
                other => report_roundtrip::<T>(rec, name, other, "decoded", wit(json!({"reencoded": hex(&s0)}))),
            }
            Some(true)
        }
    }
}

/// Report the outcome of decode(encode(v)) != v with an exact class: a different value, a rejection, or a panic
/// (the panic case uses the same signature as the byte-side monitor).
fn report_roundtrip<T: Canon>(rec: &mut Recorder, name: &str, other: Result<Result<T, String>, String>, origin: &str, wit: serde_json::Value) {
    match other {
        Ok(Ok(_)) => viol(rec, "deserialize(serialize(v)) != v",
            json!({"kind": "roundtrip_mismatch", "type": name, "leaf": T::leaf(), "outcome": "different value", "origin": origin}), wit),
        Ok(Err(e)) => {
            let mut w = wit;
            w["error"] = json!(e);
            viol(rec, "deserialize rejected the encoding of a value",
                json!({"kind": "roundtrip_mismatch", "type": name, "leaf": T::leaf(), "outcome": "rejected", "origin": origin}), w);
        }
        Err(p) => {
            let mut w = wit;
            w["panic"] = json!(p.clone());
            viol(rec, "deserialize panicked on a byte string",
                json!({"kind": "panic_in_deserialize", "type": name, "leaf": T::leaf(), "panic": panic_class(&p)}), w);
        }
    }
}

/// Monitor (i) for a value built through the crate's own constructors.
fn check_value<T: Canon + Debug>(rec: &mut Recorder, name: &str, v: &T, case: usize, origin: &str, input: &str) {
    rec.eval();
    let s0 = match catch(|| ser(v, 0x00)) {
        Ok(s) => s,
        Err(p) => {
            viol(
 rec,
                "serialize panicked",
                json!({"kind": "panic_in_serialize", "type": name, "leaf": T::leaf(), "panic": panic_class(&p)}),
                json!({"case": case, "type": name, "origin": origin, "input": input, "panic": p}),
            );
            return;
        }
    };
    let s1 = ser(v, 0xff);
    let wit = json!({"case": case, "type": name, "origin": origin, "input": input, "value": short(&format!("{v:?}"), 400),
                     "encoded": hex(&s0), "encoded_ff": hex(&s1)});
    if s0 != s1 {
        viol(
 rec,
            "serialize does not overwrite the whole buffer",
            json!({"kind": "serialize_partial_write", "type": name, "leaf": T::leaf()}),
            wit.clone(),
        );
    }
    if s0.len() != T::esize() {
        viol(
 rec,
            "encoding length differs from the advertised length",
            json!({"kind": "wrong_length", "type": name, "leaf": T::leaf(), "size": s0.len(), "expected": T::esize()}),
            wit.clone(),
        );
        return;
    }
    if !T::canonical(&s0) {
        // one signature per defect: the rejection of this encoding by deserialize is the expected consequence
        viol(
            rec,
            "serialize produced a non-canonical encoding (the value is outside the type's domain)",
            json!({"kind": "noncanonical_produced", "type": name, "leaf": T::leaf(), "origin": origin}),
            wit.clone(),
        );
        if let Ok(Ok(_)) = de::<T>(&s0) {
            viol(
                rec,
                "deserialize accepted a non-canonical byte string",
                json!({"kind": "noncanonical_accepted", "type": name, "leaf": T::leaf(), "reencodes_to_same_bytes": true}),
                wit,
            );
        }
        return;
    }
    match de::<T>(&s0) {
        Ok(Ok(v2)) if T::same(v, &v2) => rec.count("value_roundtrips"),
        other => report_roundtrip::<T>(rec, name, other, origin, wit),
    }
}

// ---------------------------------------------------------------------------------------------
// Canon for the primitive types
// ---------------------------------------------------------------------------------------------

fn prime_edges(p: u128, n: usize) -> Vec<Vec<u8>> {
    let max = if n >= 16 { u128::MAX } else { (1u128 << (8 * n)) - 1 };
    let mut v = vec![0, 1, 2, p - 2, p - 1, p, p + 1, max - 1, max, max >> 1, (max >> 1) + 1, p ^ 1, p | (max ^ (max >> 1))];
    // every power of two and p with one bit flipped
    for i in 0..(8 * n) {
        v.push(1u128 << i);
        v.push(p ^ (1u128 << i));
        v.push((p - 1) ^ (1u128 << i));
    }
    v.into_iter().map(|x| le_bytes(x & max, n)).collect()
}

macro_rules! canon_prime {
    ($t:ty, $name:expr, $n:expr, $p:expr) => {
        impl Canon for $t {
            fn name() -> String {
                $name.to_string()
            }
            fn esize() -> usize {
                $n
            }
            fn canonical(b: &[u8]) -> bool {
                le_u128(b) < $p
            }
            fn same(a: &Self, b: &Self) -> bool {
                a == b
            }
            fn edges() -> Vec<Vec<u8>> {
                prime_edges($p, $n)
            }
            fn canon_random(r: &mut VRng) -> Vec<u8> {
                le_bytes(r.u128() % $p, $n)
            }
        }
    };
}
canon_prime!(Fp31, "Fp31", 1, 31u128);
canon_prime!(Fp32BitPrime, "Fp32BitPrime", 4, 4_294_967_291u128);
canon_prime!(Fp61BitPrime, "Fp61BitPrime", 8, 2_305_843_009_213_693_951u128);

/// bit `i` of a little-endian (Lsb0) byte string
fn bit(b: &[u8], i: usize) -> bool {
    (b[i / 8] >> (i % 8)) & 1 == 1
}
fn set_bit(b: &mut [u8], i: usize, v: bool) {
    if v {
        b[i / 8] |= 1 << (i % 8);
    } else {
        b[i / 8] &= !(1 << (i % 8));
    }
}

fn bits_edges(bits: usize, n: usize) -> Vec<Vec<u8>> {
    let mut out = vec![vec![0u8; n], vec![0xffu8; n]];
    let mut full = vec![0u8; n];
    for i in 0..bits {
        set_bit(&mut full, i, true);
    }
    out.push(full.clone());
    // every single bit (value bits and padding bits), alone and on top of the full value
    let step = if n > 8 { 7 } else { 1 };
    for i in (0..8 * n).step_by(step).chain(bits.saturating_sub(2)..(bits + 2).min(8 * n)) {
        let mut z = vec![0u8; n];
        set_bit(&mut z, i, true);
        out.push(z);
        let mut f = full.clone();
        set_bit(&mut f, i, !bit(&full, i));
        out.push(f);
    }
    out
}

macro_rules! canon_bits {
    ($t:ty, $name:expr, $bits:expr, $n:expr) => {
        impl Canon for $t {
            fn name() -> String {
                $name.to_string()
            }
            fn esize() -> usize {
                $n
            }
            fn canonical(b: &[u8]) -> bool {
                ($bits..8 * $n).all(|i| !bit(b, i))
            }
            fn same(a: &Self, b: &Self) -> bool {
                a == b
            }
            fn edges() -> Vec<Vec<u8>> {
                bits_edges($bits, $n)
            }
            fn canon_random(r: &mut VRng) -> Vec<u8> {
                let mut b = r.bytes($n);
                for i in $bits..8 * $n {
                    set_bit(&mut b, i, false);
                }
                b
            }
        }
    };
}
canon_bits!(BA3, "BA3", 3, 1);
canon_bits!(BA4, "BA4", 4, 1);
canon_bits!(BA5, "BA5", 5, 1);
canon_bits!(BA6, "BA6", 6, 1);
canon_bits!(BA7, "BA7", 7, 1);
canon_bits!(BA8, "BA8", 8, 1);
canon_bits!(BA16, "BA16", 16, 2);
canon_bits!(BA20, "BA20", 20, 3);
canon_bits!(BA32, "BA32", 32, 4);
canon_bits!(BA64, "BA64", 64, 8);
canon_bits!(BA96, "BA96", 96, 12);
canon_bits!(BA112, "BA112", 112, 14);
canon_bits!(BA144, "BA144", 144, 18);
canon_bits!(BA256, "BA256", 256, 32);
canon_bits!(Gf2, "Gf2", 1, 1);
canon_bits!(Gf3Bit, "Gf3Bit", 3, 1);
canon_bits!(Gf8Bit, "Gf8Bit", 8, 1);
canon_bits!(Gf9Bit, "Gf9Bit", 9, 2);
canon_bits!(Gf20Bit, "Gf20Bit", 20, 3);
canon_bits!(Gf32Bit, "Gf32Bit", 32, 4);
canon_bits!(Gf40Bit, "Gf40Bit", 40, 5);

impl Canon for Boolean {
    fn name() -> String {
        "Boolean".into()
    }
    fn esize() -> usize {
        1
    }
    fn canonical(b: &[u8]) -> bool {
        b[0] <= 1
    }
    fn same(a: &Self, b: &Self) -> bool {
        a == b
    }
    fn edges() -> Vec<Vec<u8>> {
        [0u8, 1, 2, 3, 0x80, 0x81, 0xfe, 0xff].iter().map(|x| vec![*x]).collect()
    }
    fn canon_random(r: &mut VRng) -> Vec<u8> {
        vec![(r.next() & 1) as u8]
    }
}

// group order of curve25519's prime-order subgroup, little endian: 2^252 + 27742317777372353535851937790883648493
const ELL: [u8; 32] = [
    0xed, 0xd3, 0xf5, 0x5c, 0x1a, 0x63, 0x12, 0x58, 0xd6, 0x9c, 0xf7, 0xa2, 0xde, 0xf9, 0xde, 0x14,
    0, 0, 0, 0, 0, 0, 0, 0, 0, 0, 0, 0, 0, 0, 0, 0x10,
];
// 2^255 - 19, little endian
const P25519: [u8; 32] = [
    0xed, 0xff, 0xff, 0xff, 0xff, 0xff, 0xff, 0xff, 0xff, 0xff, 0xff, 0xff, 0xff, 0xff, 0xff, 0xff,
    0xff, 0xff, 0xff, 0xff, 0xff, 0xff, 0xff, 0xff, 0xff, 0xff, 0xff, 0xff, 0xff, 0xff, 0xff, 0x7f,
];

/// a < b for little-endian byte strings of equal length
fn le_less(a: &[u8], b: &[u8]) -> bool {
    for i in (0..a.len()).rev() {
        if a[i] != b[i] {
            return a[i] < b[i];
        }
    }
    false
}
/// little-endian a + small (wrapping)
fn le_add(a: &[u8], k: i32) -> Vec<u8> {
    let mut out = a.to_vec();
    let mut carry = k;
    for x in out.iter_mut() {
        let s = i32::from(*x) + carry;
        *x = s.rem_euclid(256) as u8;
        carry = s.div_euclid(256);
        if carry == 0 {
            break;
        }
    }
    out
}

impl Canon for Fp25519 {
    fn name() -> String {
        "Fp25519".into()
    }
    fn esize() -> usize {
        32
    }
    fn canonical(b: &[u8]) -> bool {
        le_less(b, &ELL)
    }
    fn same(a: &Self, b: &Self) -> bool {
        a == b
    }
    fn edges() -> Vec<Vec<u8>> {
        let mut two_ell = vec![0u8; 32];
        let mut c = 0u16;
        for i in 0..32 {
            let s = 2 * u16::from(ELL[i]) + c;
            two_ell[i] = s as u8;
            c = s >> 8;
        }
        let mut top = vec![0u8; 32];
        top[31] = 0x10; // 2^252 (canonical, just below ELL's low part)
        vec![
            vec![0u8; 32],
            le_add(&[0u8; 32], 1),
            le_add(&ELL, -2),
            le_add(&ELL, -1),
            ELL.to_vec(),
            le_add(&ELL, 1),
            two_ell,
            top,
            P25519.to_vec(),
            vec![0xffu8; 32],
            {
                let mut v = vec![0xffu8; 32];
                v[31] = 0x0f;
                v
            },
            {
                let mut v = vec![0u8; 32];
                v[31] = 0x80;
                v
            },
        ]
    }
    fn canon_random(r: &mut VRng) -> Vec<u8> {
        let mut b = r.bytes(32);
        b[31] &= 0x0f; // < 2^252 < ELL
        b
    }
}

fn dalek_point_bytes(r: &mut VRng) -> Vec<u8> {
    use curve25519_dalek::{ristretto::RistrettoPoint, scalar::Scalar};
    let mut wide = [0u8; 64];
    wide.copy_from_slice(&r.bytes(64));
    RistrettoPoint::mul_base(&Scalar::from_bytes_mod_order_wide(&wide)).compress().to_bytes().to_vec()
}

impl Canon for RP25519 {
    fn name() -> String {
        "RP25519".into()
    }
    fn esize() -> usize {
        32
    }
    /// Oracle: the (trusted, third-party) curve25519-dalek decoder accepts the string and re-compresses to the
    /// same bytes; plus the two necessary conditions of RFC 9496 that are cheap to state here.
    fn canonical(b: &[u8]) -> bool {
        use curve25519_dalek::ristretto::CompressedRistretto;
        let mut a = [0u8; 32];
        a.copy_from_slice(b);
        let necessary = le_less(b, &P25519) && (b[0] & 1) == 0;
        match CompressedRistretto(a).decompress() {
            Some(p) => necessary && p.compress().to_bytes() == a,
            None => false,
        }
    }
    fn same(a: &Self, b: &Self) -> bool {
        a == b
    }
    fn edges() -> Vec<Vec<u8>> {
        let base = curve25519_dalek::constants::RISTRETTO_BASEPOINT_COMPRESSED.to_bytes().to_vec();
        let mut base_hi = base.clone();
        base_hi[31] |= 0x80;
        let mut base_neg = base.clone();
        base_neg[0] |= 1;
        vec![
            vec![0u8; 32], // identity
            base,
            base_hi,
            base_neg,
            P25519.to_vec(),         // non-canonical zero
            le_add(&P25519, 1),      // non-canonical one
            le_add(&[0u8; 32], 1),   // negative
            le_add(&[0u8; 32], 2),
            vec![0xffu8; 32],
            le_add(&P25519, -1),
        ]
    }
    fn canon_random(r: &mut VRng) -> Vec<u8> {
        dalek_point_bytes(r)
    }
}

macro_rules! canon_opaque {
    ($t:ty, $name:expr, $n:expr, $same:expr) => {
        impl Canon for $t {
            fn name() -> String {
                $name.to_string()
            }
            fn esize() -> usize {
                $n
            }
            fn canonical(_b: &[u8]) -> bool {
                true
            }
            fn same(a: &Self, b: &Self) -> bool {
                let f: fn(&Self, &Self) -> bool = $same;
                f(a, b)
            }
            fn edges() -> Vec<Vec<u8>> {
                bits_edges(8 * $n, $n)
            }
            fn canon_random(r: &mut VRng) -> Vec<u8> {
                r.bytes($n)
            }
        }
    };
}
canon_opaque!(Hash, "Hash", 32, |a, b| a == b);
canon_opaque!(Seed, "Seed", 32, |a, b| ser(a, 0) == ser(b, 0) && format!("{a:?}") == format!("{b:?}"));
canon_opaque!(UniqueTag, "UniqueTag", 16, |a, b| {
    use crate::report::hybrid::UniqueBytes;
    a.unique_bytes() == b.unique_bytes()
});
canon_opaque!(x25519_dalek::PublicKey, "PublicKey", 32, |a, b| a == b);

// ---------------------------------------------------------------------------------------------
// Canon for composites
// ---------------------------------------------------------------------------------------------

fn concat_edges(parts: &[(usize, Vec<Vec<u8>>)]) -> Vec<Vec<u8>> {
    // every edge of every component, the other components zero; plus all components at the same edge index
    let total: usize = parts.iter().map(|p| p.0).sum();
    let mut out = Vec::new();
    let mut off = 0;
    for (n, edges) in parts {
        for e in edges {
            let mut b = vec![0u8; total];
            b[off..off + n].copy_from_slice(e);
            out.push(b);
        }
        off += n;
    }
    let maxe = parts.iter().map(|p| p.1.len()).max().unwrap_or(0);
    for k in 0..maxe {
        let mut b = Vec::with_capacity(total);
        for (_, edges) in parts {
            b.extend_from_slice(&edges[k % edges.len()]);
        }
        out.push(b);
    }
    out
}

impl<T> Canon for AdditiveShare<T>
where
    T: Canon + SharedValue,
    T::Size: Add<T::Size>,
    <T::Size as Add<T::Size>>::Output: ArrayLength,
{
    fn name() -> String {
        format!("AdditiveShare<{}>", T::name())
    }
    fn leaf() -> String {
        T::leaf()
    }
    fn esize() -> usize {
        2 * T::esize()
    }
    fn canonical(b: &[u8]) -> bool {
        let n = T::esize();
        T::canonical(&b[..n]) && T::canonical(&b[n..])
    }
    fn same(a: &Self, b: &Self) -> bool {
        a == b
    }
    fn edges() -> Vec<Vec<u8>> {
        concat_edges(&[(T::esize(), T::edges()), (T::esize(), T::edges())])
    }
    fn canon_random(r: &mut VRng) -> Vec<u8> {
        let mut b = T::canon_random(r);
        b.extend(T::canon_random(r));
        b
    }
    fn interesting(r: &mut VRng) -> Vec<u8> {
        let mut b = T::interesting(r);
        b.extend(T::interesting(r));
        b
    }
}

impl<T, const N: usize> Canon for StdArray<T, N>
where
    T: Canon + SharedValue,
    StdArray<T, N>: Serializable,
{
    fn name() -> String {
        format!("StdArray<{},{}>", T::name(), N)
    }
    fn leaf() -> String {
        T::leaf()
    }
    fn esize() -> usize {
        N * T::esize()
    }
    fn canonical(b: &[u8]) -> bool {
        b.chunks(T::esize()).all(T::canonical)
    }
    fn same(a: &Self, b: &Self) -> bool {
        a == b
    }
    fn edges() -> Vec<Vec<u8>> {
        seq_edges::<T>(N)
    }
    fn canon_random(r: &mut VRng) -> Vec<u8> {
        (0..N).flat_map(|_| T::canon_random(r)).collect()
    }
    fn interesting(r: &mut VRng) -> Vec<u8> {
        seq_interesting::<T>(r, N)
    }
}

/// Edge strings of a sequence of `n` elements: each element edge at the first, middle, last position.
fn seq_edges<T: Canon>(n: usize) -> Vec<Vec<u8>> {
    let sz = T::esize();
    let mut out = Vec::new();
    let mut pos = vec![0, n / 2, n - 1];
    pos.dedup();
    for e in T::edges() {
        for p in &pos {
            let mut b = vec![0u8; n * sz];
            b[p * sz..(p + 1) * sz].copy_from_slice(&e);
            out.push(b);
        }
        out.push((0..n).flat_map(|_| e.clone()).collect());
    }
    out
}

/// Mostly canonical elements with a few arbitrary ones, so that long sequences are not always rejected.
fn seq_interesting<T: Canon>(r: &mut VRng, n: usize) -> Vec<u8> {
    let all_canonical = r.below(3) == 0;
    let hot = r.below(n as u64) as usize;
    (0..n)
        .flat_map(|i| {
            if all_canonical || (i != hot && r.below(8) != 0) {
                T::canon_random(r)
            } else {
                T::interesting(r)
            }
        })
        .collect()
}

macro_rules! canon_seq {
    ($t:ty, $elem:ty, $name:expr, $n:expr) => {
        impl Canon for $t {
            fn name() -> String {
                $name.to_string()
            }
            fn leaf() -> String {
                <$elem as Canon>::leaf()
            }
            fn esize() -> usize {
                $n * <$elem as Canon>::esize()
            }
            fn canonical(b: &[u8]) -> bool {
                b.chunks(<$elem as Canon>::esize()).all(<$elem as Canon>::canonical)
            }
            fn same(a: &Self, b: &Self) -> bool {
                a == b
            }
            fn edges() -> Vec<Vec<u8>> {
                seq_edges::<$elem>($n)
            }
            fn canon_random(r: &mut VRng) -> Vec<u8> {
                (0..$n).flat_map(|_| <$elem as Canon>::canon_random(r)).collect()
            }
            fn interesting(r: &mut VRng) -> Vec<u8> {
                seq_interesting::<$elem>(r, $n)
            }
        }
    };
}

// the proof / verification messages of validation_protocol (their type aliases are private there)
const PROOF_ARRAY_LEN: usize =
    FirstProofGenerator::PROOF_LENGTH + (MAX_PROOF_RECURSION - 1) * CompressedProofGenerator::PROOF_LENGTH;
type ProofArray = Box<[Fp61BitPrime; PROOF_ARRAY_LEN]>;
type ProofDiff = [Fp61BitPrime; MAX_PROOF_RECURSION + 1];
type HashArray = [Hash; MAX_PROOF_RECURSION];
canon_seq!(ProofArray, Fp61BitPrime, "Box<[Fp61BitPrime;PROOF_ARRAY_LEN]>", PROOF_ARRAY_LEN);
canon_seq!(ProofDiff, Fp61BitPrime, "[Fp61BitPrime;15]", MAX_PROOF_RECURSION + 1);
canon_seq!(HashArray, Hash, "[Hash;14]", MAX_PROOF_RECURSION);

impl Canon for (Seed, Seed) {
    fn name() -> String {
        "(Seed,Seed)".into()
    }
    fn esize() -> usize {
        64
    }
    fn canonical(_b: &[u8]) -> bool {
        true
    }
    fn same(a: &Self, b: &Self) -> bool {
        Seed::same(&a.0, &b.0) && Seed::same(&a.1, &b.1)
    }
    fn edges() -> Vec<Vec<u8>> {
        concat_edges(&[(32, Seed::edges()), (32, Seed::edges())])
    }
    fn canon_random(r: &mut VRng) -> Vec<u8> {
        r.bytes(64)
    }
}

type Prf83 = PrfHybridReport<BA8, BA3>;
impl Canon for Prf83 {
    fn name() -> String {
        "PrfHybridReport<BA8,BA3>".into()
    }
    fn esize() -> usize {
        12
    }
    // u64 prf (any) | AdditiveShare<BA3> value | AdditiveShare<BA8> breakdown key
    fn canonical(b: &[u8]) -> bool {
        <AdditiveShare<BA3>>::canonical(&b[8..10]) && <AdditiveShare<BA8>>::canonical(&b[10..12])
    }
    fn same(a: &Self, b: &Self) -> bool {
        a == b
    }
    fn edges() -> Vec<Vec<u8>> {
        concat_edges(&[
            (8, bits_edges(64, 8)),
            (2, <AdditiveShare<BA3>>::edges()),
            (2, <AdditiveShare<BA8>>::edges()),
        ])
    }
    fn canon_random(r: &mut VRng) -> Vec<u8> {
        let mut b = r.bytes(8);
        b.extend(<AdditiveShare<BA3>>::canon_random(r));
        b.extend(<AdditiveShare<BA8>>::canon_random(r));
        b
    }
    fn interesting(r: &mut VRng) -> Vec<u8> {
        let mut b = r.bytes(8);
        b.extend(<AdditiveShare<BA3>>::interesting(r));
        b.extend(<AdditiveShare<BA8>>::interesting(r));
        b
    }
}

// maliciously secure share: x (share of V) | rx (share of V::ExtendedField)
macro_rules! canon_malicious {
    ($v:ty, $ext:ty) => {
        impl Canon for MaliciousShare<$v> {
            fn name() -> String {
                format!("malicious::AdditiveShare<{}>", <$v as Canon>::name())
            }
            fn esize() -> usize {
                2 * <$v as Canon>::esize() + 2 * <$ext as Canon>::esize()
            }
            fn canonical(b: &[u8]) -> bool {
                let n = 2 * <$v as Canon>::esize();
                <AdditiveShare<$v>>::canonical(&b[..n]) && <AdditiveShare<$ext>>::canonical(&b[n..])
            }
            fn same(a: &Self, b: &Self) -> bool {
                a == b
            }
            fn edges() -> Vec<Vec<u8>> {
                concat_edges(&[
                    (2 * <$v as Canon>::esize(), <AdditiveShare<$v>>::edges()),
                    (2 * <$ext as Canon>::esize(), <AdditiveShare<$ext>>::edges()),
                ])
            }
            fn canon_random(r: &mut VRng) -> Vec<u8> {
                let mut b = <AdditiveShare<$v>>::canon_random(r);
                b.extend(<AdditiveShare<$ext>>::canon_random(r));
                b
            }
            fn interesting(r: &mut VRng) -> Vec<u8> {
                let mut b = <AdditiveShare<$v>>::interesting(r);
                b.extend(<AdditiveShare<$ext>>::interesting(r));
                b
            }
        }
    };
}
canon_malicious!(Fp31, Fp31);
canon_malicious!(Fp32BitPrime, Fp32BitPrime);
canon_malicious!(Gf2, Gf32Bit);

// ---------------------------------------------------------------------------------------------
// test 1: every byte string of every type of <= 2 bytes
// ---------------------------------------------------------------------------------------------

/// All byte strings of chunk `chunk` (of `chunks`) of the space of an n-byte type (n <= 3): the chunk index is the
/// high part of the little-endian integer, so that a chunk covers all low bytes.
fn exhaustive_chunk<T: Canon>(rec: &mut Recorder, case: usize, chunk: usize, chunks: usize) {
    let name = T::name();
    let n = T::esize();
    let space: usize = 1 << (8 * n);
    let per = space / chunks;
    let mut t = Tally::default();
    let mut expected_ok = 0u64;
    for v in chunk * per..(chunk + 1) * per {
        let b = le_bytes(v as u128, n);
        if T::canonical(&b) {
            expected_ok += 1;
        }
        if let Some(acc) = check_bytes::<T>(rec, &name, &b, case, "exhaustive", &mut t) {
            rec.distinct(&(name.as_str(), b[n - 1], acc));
            if rec.want_sample() && v % 97 == 5 {
                rec.sample(json!({"type": name, "bytes": hex(&b), "accepted_by_deserialize": acc, "canonical_by_oracle": T::canonical(&b)}));
            }
        }
    }
    rec.add("exhaustive_strings", per as u64);
    rec.add("accepted", t.accepted);
    rec.add("rejected", t.rejected);
    rec.add("canonical_by_oracle", expected_ok);
    rec.seen("types_exhaustive", name);
}

type Job = (String, Box<dyn Fn(&mut Recorder, usize, usize, usize)>);

macro_rules! jobs_exhaustive {
    ($($t:ty),* $(,)?) => {{
        let mut v: Vec<Job> = Vec::new();
        $( v.push((<$t as Canon>::name(), Box::new(|rec, case, chunk, chunks| exhaustive_chunk::<$t>(rec, case, chunk, chunks)))); )*
        v
    }};
}

#[test]
fn verif_c09_small_exhaustive() {
    let (env, only) = envx();
    let mut rec = Recorder::new(PROP, "verif_c09_small_exhaustive");
    let jobs = jobs_exhaustive!(
        // one byte
        Fp31, Boolean, Gf2, Gf3Bit, Gf8Bit, BA3, BA4, BA5, BA6, BA7, BA8,
        StdArray<Fp31, 1>, StdArray<Boolean, 1>, StdArray<BA3, 1>, StdArray<Gf2, 1>,
        // two bytes
        Gf9Bit, BA16, StdArray<Gf9Bit, 1>,
        AdditiveShare<Fp31>, AdditiveShare<Boolean>, AdditiveShare<Gf2>, AdditiveShare<Gf3Bit>,
        AdditiveShare<Gf8Bit>, AdditiveShare<BA3>, AdditiveShare<BA4>, AdditiveShare<BA5>,
        AdditiveShare<BA6>, AdditiveShare<BA7>, AdditiveShare<BA8>,
    );
    const CHUNKS: usize = 16;
    for (t, (_name, job)) in jobs.iter().enumerate() {
        for chunk in 0..CHUNKS {
            let case = t * CHUNKS + chunk;
            if !env.mine(case) || only.is_some_and(|c| c != case) {
                continue;
            }
            job(&mut rec, case, chunk, CHUNKS);
        }
    }
    rec.finish();
}

// ---------------------------------------------------------------------------------------------
// test 2: the three byte types -- all 2^24 strings in the thorough tier
// ---------------------------------------------------------------------------------------------

fn three_byte_subset<T: Canon>(rec: &mut Recorder, case: usize, top: usize, seed: u64) {
    // quick tier: the top byte (which holds the padding bits) is enumerated exhaustively by the caller; the low
    // 16 bits take boundary values and seeded values
    let name = T::name();
    let mut r = VRng::new(seed ^ 0xC09_3, case as u64);
    let mut lows: Vec<u16> = vec![0, 1, 0x00ff, 0x0100, 0x7fff, 0x8000, 0xfffe, 0xffff];
    for _ in 0..56 {
        lows.push(r.next() as u16);
    }
    let mut t = Tally::default();
    for lo in lows {
        let b = vec![lo as u8, (lo >> 8) as u8, top as u8];
        if let Some(acc) = check_bytes::<T>(rec, &name, &b, case, "top-byte-exhaustive", &mut t) {
            rec.distinct(&(name.as_str(), b[2], b[0] >> 6, acc));
        }
    }
    rec.add("accepted", t.accepted);
    rec.add("rejected", t.rejected);
    rec.seen("types_three_byte", name);
}

#[test]
fn verif_c09_three_byte() {
    let (env, only) = envx();
    let mut rec = Recorder::new(PROP, "verif_c09_three_byte");
    let full = jobs_exhaustive!(BA20, Gf20Bit, StdArray<BA20, 1>);
    for t in 0..full.len() {
        for top in 0..256usize {
            let case = t * 256 + top;
            if !env.mine(case) || only.is_some_and(|c| c != case) {
                continue;
            }
            if env.thorough {
                // chunk = top byte; covers all 65536 low parts
                (full[t].1)(&mut rec, case, top, 256);
                rec.count("three_byte_chunks_exhaustive");
                rec.seen("types_three_byte", full[t].0.clone());
            } else {
                match t {
                    0 => three_byte_subset::<BA20>(&mut rec, case, top, env.seed),
                    1 => three_byte_subset::<Gf20Bit>(&mut rec, case, top, env.seed),
                    _ => three_byte_subset::<StdArray<BA20, 1>>(&mut rec, case, top, env.seed),
                }
            }
        }
    }
    rec.finish();
}

// ---------------------------------------------------------------------------------------------
// test 3: larger primitive types and composites -- boundary + seeded
// ---------------------------------------------------------------------------------------------

/// One case = one (type, slice). Slice 0 runs the edges and their single-bit neighbourhood, the other slices run
/// seeded strings.
fn large_case<T: Canon>(rec: &mut Recorder, case: usize, slice: usize, seed: u64, per_slice: usize) {
    let name = T::name();
    let n = T::esize();
    assert_eq!(T::Size::USIZE, n, "harness expectation of the advertised size of {name}");
    let mut t = Tally::default();
    let mut r = VRng::new(seed ^ 0xC09_1A, case as u64);
    if slice == 0 {
        let edges = T::edges();
        let flip_all = n <= 16;
        for (k, e) in edges.iter().enumerate() {
            assert_eq!(e.len(), n, "harness bug: edge length for {name}");
            if let Some(acc) = check_bytes::<T>(rec, &name, e, case, "edge", &mut t) {
                rec.distinct(&(name.as_str(), "edge", k, acc));
            }
            // single-bit neighbourhood of the edge (all bits for short types, seeded bits otherwise)
            let flips: Vec<usize> = if flip_all {
                (0..8 * n).collect()
            } else {
                (0..24).map(|_| r.below(8 * n as u64) as usize).chain([0, 8 * n - 1]).collect()
            };
            for f in flips {
                let mut b = e.clone();
                b[f / 8] ^= 1 << (f % 8);
                if let Some(acc) = check_bytes::<T>(rec, &name, &b, case, "edge^bit", &mut t) {
                    rec.distinct(&(name.as_str(), "edge^bit", k, f.min(300) % 64, acc));
                }
            }
        }
    } else {
        for i in 0..per_slice {
            let b = T::interesting(&mut r);
            if let Some(acc) = check_bytes::<T>(rec, &name, &b, case, "seeded", &mut t) {
                rec.distinct(&(name.as_str(), "seeded", slice, i % 128, acc));
            }
            // a canonical string must always decode
            let c = T::canon_random(&mut r);
            if let Some(acc) = check_bytes::<T>(rec, &name, &c, case, "seeded-canonical", &mut t) {
                rec.distinct(&(name.as_str(), "canon", slice, i % 32, acc));
            }
        }
    }
    rec.add("accepted", t.accepted);
    rec.add("rejected", t.rejected);
    rec.seen("types_large", name);
}

type LJob = (String, usize, Box<dyn Fn(&mut Recorder, usize, usize, u64, usize)>);

macro_rules! jobs_large {
    ($($t:ty),* $(,)?) => {{
        let mut v: Vec<LJob> = Vec::new();
        $( v.push((<$t as Canon>::name(), <$t as Canon>::esize(),
                   Box::new(|rec, case, slice, seed, per| large_case::<$t>(rec, case, slice, seed, per)))); )*
        v
    }};
}

/// Monitor (i) on values built through the crate's own constructors (not through deserialize).
fn values_u128<T: Canon + U128Conversions + SharedValue + Debug>(rec: &mut Recorder, case: usize, r: &mut VRng, n: usize)
where
    AdditiveShare<T>: Canon,
{
    let name = T::name();
    let sname = <AdditiveShare<T>>::name();
    let bits = T::BITS.min(127);
    let mut xs: Vec<u128> = vec![0, 1, 2, (1u128 << bits) - 1, 1u128 << (bits - 1), u128::MAX, u128::MAX - 1];
    for _ in 0..n {
        xs.push(r.u128());
    }
    for (i, x) in xs.iter().enumerate() {
        let v = T::truncate_from(*x);
        check_value::<T>(rec, &name, &v, case, "truncate_from", &format!("truncate_from({x:#x})"));
        let w = T::truncate_from(xs[(i * 7 + 3) % xs.len()]);
        let s: AdditiveShare<T> = ReplicatedSecretSharing::new(v, w);
        check_value::<AdditiveShare<T>>(rec, &sname, &s, case, "share-of-truncate_from", &format!("new(truncate_from({x:#x}), truncate_from({:#x}))", xs[(i * 7 + 3) % xs.len()]));
        rec.distinct(&(name.as_str(), "value", i));
    }
    check_value::<T>(rec, &name, &T::ZERO, case, "ZERO", "");
    rec.seen("types_value_side", name);
}

fn values_misc(rec: &mut Recorder, case: usize, r: &mut VRng, n: usize) {
    use rand::Rng;
    check_value::<RP25519>(rec, "RP25519", &RP25519::ZERO, case, "ZERO", "");
    check_value::<Fp25519>(rec, "Fp25519", &Fp25519::ZERO, case, "ZERO", "");
    check_value::<Fp25519>(rec, "Fp25519", &Fp25519::ONE, case, "ONE", "");
    check_value::<Fp25519>(rec, "Fp25519", &(Fp25519::ZERO - Fp25519::ONE), case, "-ONE", "");
    for i in 0..n {
        let s: Fp25519 = r.r#gen();
        check_value::<Fp25519>(rec, "Fp25519", &s, case, "rng", "");
        let p = RP25519::from(s);
        check_value::<RP25519>(rec, "RP25519", &p, case, "from-scalar", "");
        let q: RP25519 = r.r#gen();
        check_value::<RP25519>(rec, "RP25519", &q, case, "rng", "");
        let sh: AdditiveShare<RP25519> = ReplicatedSecretSharing::new(p, q);
        check_value::<AdditiveShare<RP25519>>(rec, "AdditiveShare<RP25519>", &sh, case, "share", "");
        let a: BA144 = r.r#gen();
        check_value::<BA144>(rec, "BA144", &a, case, "rng", "");
        let b: BA256 = r.r#gen();
        check_value::<BA256>(rec, "BA256", &b, case, "rng", "");
        let arr: StdArray<Fp25519, 16> = (0..16).map(|_| r.r#gen::<Fp25519>()).collect();
        check_value::<StdArray<Fp25519, 16>>(rec, "StdArray<Fp25519,16>", &arr, case, "rng", "");
        let arr: StdArray<Fp32BitPrime, 32> = (0..32).map(|_| Fp32BitPrime::truncate_from(r.u128())).collect();
        check_value::<StdArray<Fp32BitPrime, 32>>(rec, "StdArray<Fp32BitPrime,32>", &arr, case, "truncate_from", "");
        let m = MaliciousShare::<Fp32BitPrime>::new(
            ReplicatedSecretSharing::new(Fp32BitPrime::truncate_from(r.u128()), Fp32BitPrime::truncate_from(r.u128())),
            ReplicatedSecretSharing::new(Fp32BitPrime::truncate_from(r.u128()), Fp32BitPrime::truncate_from(r.u128())),
        );
        check_value::<MaliciousShare<Fp32BitPrime>>(rec, "malicious::AdditiveShare<Fp32BitPrime>", &m, case, "new", "");
        let m = MaliciousShare::<Gf2>::new(
            ReplicatedSecretSharing::new(Gf2::truncate_from(r.u128()), Gf2::truncate_from(r.u128())),
            ReplicatedSecretSharing::new(Gf32Bit::truncate_from(r.u128()), Gf32Bit::truncate_from(r.u128())),
        );
        check_value::<MaliciousShare<Gf2>>(rec, "malicious::AdditiveShare<Gf2>", &m, case, "new", "");
        rec.distinct(&("misc-values", i));
    }
}

#[test]
fn verif_c09_large_types() {
    let (env, only) = envx();
    let mut rec = Recorder::new(PROP, "verif_c09_large_types");
    let jobs = jobs_large!(
        Fp32BitPrime, Fp61BitPrime, Fp25519, RP25519,
        BA32, BA64, BA96, BA112, BA144, BA256, Gf32Bit, Gf40Bit,
        AdditiveShare<Gf9Bit>, AdditiveShare<BA16>, AdditiveShare<BA20>, AdditiveShare<Gf20Bit>,
        AdditiveShare<Fp32BitPrime>, AdditiveShare<Fp61BitPrime>, AdditiveShare<Fp25519>, AdditiveShare<RP25519>,
        AdditiveShare<BA32>, AdditiveShare<BA64>, AdditiveShare<BA112>, AdditiveShare<BA256>,
        AdditiveShare<Gf32Bit>, AdditiveShare<Gf40Bit>,
        StdArray<Fp32BitPrime, 1>, StdArray<Fp32BitPrime, 32>, StdArray<Gf32Bit, 32>, StdArray<Fp25519, 16>,
        StdArray<RP25519, 16>, StdArray<BA64, 256>, StdArray<BA256, 256>, StdArray<Fp61BitPrime, 64>,
        StdArray<BA20, 16>, StdArray<Boolean, 16>, StdArray<Fp31, 32>, StdArray<BA3, 64>,
        ProofArray, ProofDiff, HashArray, Hash, Seed, (Seed, Seed), UniqueTag, x25519_dalek::PublicKey,
        Prf83,
        MaliciousShare<Fp31>, MaliciousShare<Fp32BitPrime>, MaliciousShare<Gf2>,
    );
    let slices = env.pick(4usize, 40usize);
    let mut k = 0usize;
    for (t, (_name, size, job)) in jobs.iter().enumerate() {
        // keep the work per type roughly constant in bytes
        let per_slice = env.pick(24_000usize, 120_000usize) / (size + 16);
        let per_slice = per_slice.clamp(8, env.pick(400, 2000));
        for slice in 0..slices {
            let case = t * 64 + slice;
            k += 1;
            if !env.mine(k) || only.is_some_and(|c| c != case) {
                continue;
            }
            job(&mut rec, case, slice, env.seed, per_slice);
        }
    }
    // value side through the crate's constructors
    let nv = env.pick(40usize, 400usize);
    macro_rules! vals {
        ($($t:ty),+) => {{
            let mut vi = 0usize;
            $(
                vi += 1;
                k += 1;
                let case = 60_000 + vi;
                if env.mine(k) && !only.is_some_and(|c| c != case) {
                    let mut r = VRng::new(env.seed ^ 0xC09_1B, case as u64);
                    values_u128::<$t>(&mut rec, case, &mut r, nv);
                }
            )+
        }};
    }
    vals!(Fp31, Fp32BitPrime, Fp61BitPrime, Gf2, Gf3Bit, Gf8Bit, Gf9Bit, Gf20Bit, Gf32Bit, Gf40Bit,
          BA3, BA4, BA5, BA6, BA7, BA8, BA16, BA20, BA32, BA64, BA96, BA112);
    for j in 0..4 {
        k += 1;
        let case = 61_000 + j;
        if env.mine(k) && !only.is_some_and(|c| c != case) {
            let mut r = VRng::new(env.seed ^ 0xC09_1C, case as u64);
            values_misc(&mut rec, case, &mut r, env.pick(6usize, 60usize));
        }
    }
    rec.finish();
}

// ---------------------------------------------------------------------------------------------
// test 4: plaintext hybrid reports, PrfHybridReport values, Vec<T>::to_bytes
// ---------------------------------------------------------------------------------------------

mod reports {
    use bytes::Bytes;

    use super::*;
    use crate::{
        query::ProtocolResult,
        report::{
            hybrid::{HybridConversionReport, HybridImpressionReport},
            hybrid_info::{HybridConversionInfo, HybridImpressionInfo},
        },
    };

    fn ba<B: U128Conversions>(r: &mut VRng, class: u64) -> B {
        match class % 4 {
            0 => B::truncate_from(0u128),
            1 => B::truncate_from(u128::MAX),
            _ => B::truncate_from(r.u128()),
        }
    }
    fn share<B: U128Conversions + SharedValue>(r: &mut VRng, class: u64) -> AdditiveShare<B> {
        AdditiveShare::new(ba::<B>(r, class), ba::<B>(r, class / 4))
    }

    /// Independent acceptance predicate for the plaintext impression report: mk(16) | bk share | key_id(1).
    fn imp_canonical<BK: Canon + SharedValue>(b: &[u8]) -> bool
    where
        AdditiveShare<BK>: Canon,
    {
        let fixed = 16 + 2 * BK::esize();
        b.len() == fixed + 1 && <AdditiveShare<BK>>::canonical(&b[16..fixed])
    }
    /// ... conversion report: mk(16) | value share | domain (utf-8, no NUL) 0x00 key_id(1) ts(8) eps(8) sens(8)
    fn conv_canonical<V: Canon + SharedValue>(b: &[u8]) -> bool
    where
        AdditiveShare<V>: Canon,
    {
        let fixed = 16 + 2 * V::esize();
        if b.len() < fixed || !<AdditiveShare<V>>::canonical(&b[16..fixed]) {
            return false;
        }
        let tail = &b[fixed..];
        match tail.iter().position(|x| *x == 0) {
            None => false,
            Some(d) => std::str::from_utf8(&tail[..d]).is_ok() && tail.len() == d + 1 + 25,
        }
    }

    /// Mutations of a valid plaintext encoding; every string keeps at least the fixed-size prefix (shorter
    /// buffers are outside the contract of `deserialize`, see the assumptions of this property).
    fn mutations(enc: &[u8], fixed: usize, r: &mut VRng, all_bits: bool) -> Vec<(String, Vec<u8>)> {
        let mut out = vec![("valid".to_string(), enc.to_vec())];
        if all_bits {
            for i in 0..8 * enc.len() {
                let mut m = enc.to_vec();
                m[i / 8] ^= 1 << (i % 8);
                out.push((format!("bitflip@{}", if i / 8 < 16 { "mk" } else if i / 8 < fixed { "share" } else { "info" }), m));
            }
        } else {
            for _ in 0..24 {
                let i = r.range(128, 8 * enc.len() as u64 - 1) as usize;
                let mut m = enc.to_vec();
                m[i / 8] ^= 1 << (i % 8);
                out.push((format!("bitflip@{}", if i / 8 < fixed { "share" } else { "info" }), m));
            }
        }
        for cut in fixed..enc.len() {
            out.push(("truncated".into(), enc[..cut].to_vec()));
        }
        for ext in 1..=3 {
            let mut m = enc.to_vec();
            m.extend(r.bytes(ext));
            out.push(("extended".into(), m));
            let mut m = enc.to_vec();
            m.extend(vec![0u8; ext]);
            out.push(("extended-zero".into(), m));
        }
        for _ in 0..6 {
            let len = fixed + r.below(48) as usize;
            out.push(("garbage".into(), r.bytes(len)));
        }
        out
    }

    macro_rules! plain_report_check {
        ($fn_name:ident, $report:ty, $share:ty, $tname:expr, $canon:expr, $same:expr) => {
            fn $fn_name(rec: &mut Recorder, case: usize, v: &$report, r: &mut VRng, all_bits: bool) {
                let name = $tname;
                let fixed = 16 + <$share as Canon>::esize();
                // value side
                rec.eval();
                let enc = match catch(|| {
                    let mut buf = Vec::new();
                    v.serialize(&mut buf);
                    buf
                }) {
                    Ok(b) => b,
                    Err(p) => {
                        viol(rec, "plaintext report serialize panicked",
                            json!({"kind": "panic_in_serialize", "type": name, "panic": panic_class(&p)}),
                            json!({"case": case, "report": format!("{v:?}"), "panic": p}));
                        return;
                    }
                };
                let same: fn(&$report, &$report) -> bool = $same;
                let canon: fn(&[u8]) -> bool = $canon;
                match catch(|| <$report>::deserialize(&Bytes::copy_from_slice(&enc)).map_err(|e| e.to_string())) {
                    Ok(Ok(back)) if same(&back, v) => rec.count("report_value_roundtrips"),
                    o => viol(rec, "plaintext report does not round-trip",
                        json!({"kind": "roundtrip_mismatch", "type": name,
                               "outcome": match &o { Ok(Ok(_)) => "different value", Ok(Err(_)) => "rejected", Err(_) => "panic" }}),
                        json!({"case": case, "report": format!("{v:?}"), "encoded": hex(&enc), "outcome": format!("{o:?}")})),
                }
                if !canon(&enc) {
                    viol(rec, "serialize produced an encoding the oracle calls non-canonical",
                        json!({"kind": "noncanonical_produced", "type": name}),
                        json!({"case": case, "report": format!("{v:?}"), "encoded": hex(&enc)}));
                }
                // byte side
                for (how, m) in mutations(&enc, fixed, r, all_bits) {
                    rec.eval();
                    let c = canon(&m);
                    let res = catch(|| <$report>::deserialize(&Bytes::copy_from_slice(&m)).map_err(|e| e.to_string()));
                    rec.distinct(&(name, how.as_str(), m.len().min(fixed + 40), c));
                    match res {
                        Err(p) => viol(rec, "plaintext report deserialize panicked",
                            json!({"kind": "panic_in_deserialize", "type": name, "how": how, "panic": panic_class(&p)}),
                            json!({"case": case, "bytes": hex(&m), "panic": p})),
                        Ok(Err(e)) => {
                            rec.count("report_bytes_rejected");
                            if c {
                                viol(rec, "plaintext report deserialize rejected a canonical encoding",
                                    json!({"kind": "canonical_rejected", "type": name, "how": how}),
                                    json!({"case": case, "bytes": hex(&m), "error": e}));
                            }
                        }
                        Ok(Ok(back)) => {
                            rec.count("report_bytes_accepted");
                            let mut re = Vec::new();
                            back.serialize(&mut re);
                            if re != m || !c {
                                // exact fact for signatures: the decoder ignored bytes after a complete encoding
                                let how = if re.len() < m.len() && m[..re.len()] == re[..] { "trailing_bytes_ignored".to_string() } else { how };
                                viol(rec, "plaintext report deserialize accepted a byte string that is not the encoding of the decoded report",
                                    json!({"kind": "noncanonical_accepted", "type": name, "how": how,
                                           "canonical_by_oracle": c, "reencodes_to_same_bytes": re == m}),
                                    json!({"case": case, "bytes": hex(&m), "reencoded": hex(&re), "decoded": format!("{back:?}")}));
                            }
                        }
                    }
                }
            }
        };
    }

    fn same_conv(a: &HybridConversionReport<BA3>, b: &HybridConversionReport<BA3>) -> bool {
        a.match_key == b.match_key
            && a.value == b.value
            && a.info.key_id == b.info.key_id
            && a.info.conversion_site_domain == b.info.conversion_site_domain
            && a.info.timestamp == b.info.timestamp
            && a.info.epsilon.to_bits() == b.info.epsilon.to_bits()
            && a.info.sensitivity.to_bits() == b.info.sensitivity.to_bits()
    }

    plain_report_check!(check_imp8, HybridImpressionReport<BA8>, AdditiveShare<BA8>, "HybridImpressionReport<BA8>",
        |b| imp_canonical::<BA8>(b), |a, b| a == b);
    plain_report_check!(check_imp3, HybridImpressionReport<BA3>, AdditiveShare<BA3>, "HybridImpressionReport<BA3>",
        |b| imp_canonical::<BA3>(b), |a, b| a == b);
    plain_report_check!(check_conv3, HybridConversionReport<BA3>, AdditiveShare<BA3>, "HybridConversionReport<BA3>",
        |b| conv_canonical::<BA3>(b), same_conv);

    const DOMAIN_LENS: &[usize] = &[0, 1, 2, 24, 63, 255];
    const TIMESTAMPS: &[u64] = &[0, 1, 1_234_567, u64::MAX];
    fn floats() -> Vec<f64> {
        vec![0.0, -0.0, 1.151, f64::MIN_POSITIVE / 4.0, f64::INFINITY, f64::NAN, -3.5, f64::MAX]
    }

    #[test]
    fn verif_c09_reports() {
        let (env, only) = envx();
        let mut rec = Recorder::new(PROP, "verif_c09_reports");
        let cases = env.pick(96usize, 3840usize);
        for case in 0..cases {
            if !env.mine(case) || only.is_some_and(|c| c != case) {
                continue;
            }
            let mut r = VRng::new(env.seed ^ 0xC09_4, case as u64);
            let class = (case / 3) as u64;
            let all_bits = case < 12;
            match case % 3 {
                0 => {
                    let v = HybridImpressionReport::<BA8> {
                        match_key: share::<BA64>(&mut r, class),
                        breakdown_key: share::<BA8>(&mut r, class / 2),
                        info: HybridImpressionInfo::new([0u8, 1, 127, 255][(class % 4) as usize]),
                    };
                    check_imp8(&mut rec, case, &v, &mut r, all_bits);
                }
                1 => {
                    let v = HybridImpressionReport::<BA3> {
                        match_key: share::<BA64>(&mut r, class),
                        breakdown_key: share::<BA3>(&mut r, class / 2),
                        info: HybridImpressionInfo::new([0u8, 1, 127, 255][(class % 4) as usize]),
                    };
                    check_imp3(&mut rec, case, &v, &mut r, all_bits);
                }
                _ => {
                    let k = class as usize;
                    let dl = DOMAIN_LENS[k % DOMAIN_LENS.len()];
                    let ts = TIMESTAMPS[(k / DOMAIN_LENS.len()) % TIMESTAMPS.len()];
                    let fl = floats();
                    let eps = fl[(k / 3) % fl.len()];
                    let sens = fl[(k / 5) % fl.len()];
                    let domain: String = (0..dl)
                        .map(|i| match (i + k) % 17 {
                            0 => '\u{1}',
                            1 => '\u{7f}',
                            _ => (b'a' + ((r.next() % 26) as u8)) as char,
                        })
                        .collect();
                    let v = HybridConversionReport::<BA3> {
                        match_key: share::<BA64>(&mut r, class),
                        value: share::<BA3>(&mut r, class / 2),
                        info: HybridConversionInfo::new((k % 256) as u8, &domain, ts, eps, sens).unwrap(),
                    };
                    check_conv3(&mut rec, case, &v, &mut r, all_bits);
                }
            }
        }
        rec.finish();
    }

    // ---- PrfHybridReport values and Vec<T>::to_bytes ------------------------------------------

    fn to_bytes_check<T: Canon + Debug + Send>(rec: &mut Recorder, case: usize, r: &mut VRng, len: usize)
    where
        Vec<T>: Debug + Send,
    {
        let name = T::name();
        let mut expect = Vec::new();
        let mut v = Vec::new();
        for _ in 0..len {
            let b = T::canon_random(r);
            match de::<T>(&b) {
                Ok(Ok(x)) => {
                    // the element encoding as produced by the element's own serializer
                    expect.extend(ser(&x, 0));
                    v.push(x);
                }
                _ => return, // reported by the per-type monitors
            }
        }
        rec.eval();
        rec.distinct(&(name.as_str(), "to_bytes", len));
        if rec.want_sample() {
            rec.sample(json!({"type": name, "vec_len": len, "expected_bytes": hex(&expect[..expect.len().min(24)])}));
        }
        match catch(|| ProtocolResult::to_bytes(&v)) {
            Ok(got) if got == expect && got.len() == len * T::esize() => rec.count("to_bytes_layout_ok"),
            Ok(got) => viol(rec, "Vec<T>::to_bytes is not the concatenation of the element encodings",
                json!({"kind": "result_layout", "type": name, "len_ok": got.len() == len * T::esize()}),
                json!({"case": case, "len": len, "got": hex(&got), "expected": hex(&expect)})),
            Err(p) => viol(rec, "Vec<T>::to_bytes panicked",
                json!({"kind": "panic_in_serialize", "type": format!("Vec<{name}>"), "panic": panic_class(&p)}),
                json!({"case": case, "len": len, "panic": p})),
        }
    }

    #[test]
    fn verif_c09_results_and_prf_reports() {
        let (env, only) = envx();
        let mut rec = Recorder::new(PROP, "verif_c09_results_and_prf_reports");
        let lens = [0usize, 1, 2, 3, 17, 256];
        let cases = env.pick(64usize, 640usize);
        for case in 0..cases {
            if !env.mine(case) || only.is_some_and(|c| c != case) {
                continue;
            }
            let mut r = VRng::new(env.seed ^ 0xC09_5, case as u64);
            let len = lens[case % lens.len()];
            match (case / lens.len()) % 8 {
                0 => to_bytes_check::<AdditiveShare<Fp32BitPrime>>(&mut rec, case, &mut r, len),
                1 => to_bytes_check::<AdditiveShare<BA32>>(&mut rec, case, &mut r, len),
                2 => to_bytes_check::<AdditiveShare<BA8>>(&mut rec, case, &mut r, len),
                3 => to_bytes_check::<AdditiveShare<BA3>>(&mut rec, case, &mut r, len),
                4 => to_bytes_check::<AdditiveShare<Fp31>>(&mut rec, case, &mut r, len),
                5 => to_bytes_check::<AdditiveShare<BA16>>(&mut rec, case, &mut r, len),
                6 => to_bytes_check::<Fp61BitPrime>(&mut rec, case, &mut r, len),
                _ => to_bytes_check::<AdditiveShare<BA20>>(&mut rec, case, &mut r, len),
            }
            // PrfHybridReport built from fields: all 2^3 values x boundary breakdown keys x boundary prf values
            let prfs = [0u64, 1, u64::MAX, 1 << 63, 0x0102_0304_0506_0708, r.next()];
            let bks = [0u128, 1, 0x7f, 0x80, 0xff, u128::from(r.next())];
            for v in 0..8u128 {
                let rep = Prf83 {
                    match_key: prfs[(case + v as usize) % prfs.len()],
                    value: AdditiveShare::new(BA3::truncate_from(v), BA3::truncate_from(7 - v)),
                    breakdown_key: AdditiveShare::new(
                        BA8::truncate_from(bks[case % bks.len()]),
                        BA8::truncate_from(bks[(case / 6) % bks.len()]),
                    ),
                };
                check_value::<Prf83>(&mut rec, "PrfHybridReport<BA8,BA3>", &rep, case, "from-fields", "");
                // field positions: distinct fields must land in distinct bytes (prf | value | breakdown key)
                let enc = ser(&rep, 0);
                rec.eval();
                let expect: Vec<u8> = rep.match_key.to_le_bytes().iter().copied()
                    .chain(ser(&rep.value, 0)).chain(ser(&rep.breakdown_key, 0)).collect();
                rec.distinct(&("prf-fields", v, case % 36));
                if enc != expect {
                    viol(&mut rec, "PrfHybridReport encoding is not prf | value share | breakdown-key share",
                        json!({"kind": "report_layout", "type": "PrfHybridReport<BA8,BA3>"}),
                        json!({"case": case, "report": format!("{rep:?}"), "got": hex(&enc), "expected": hex(&expect)}));
                } else {
                    rec.count("prf_report_layout_ok");
                }
            }
        }
        rec.finish();
    }
}

// ---------------------------------------------------------------------------------------------
// test 5: QueryConfig / HybridQueryParams / QuerySize / QueryType through the HTTP query string and JSON
// ---------------------------------------------------------------------------------------------

#[cfg(all(unit_test, feature = "web-app"))]
mod query_cfg {
    use std::sync::{Arc, Mutex};

    use axum::body::Body;

    use super::*;
    use crate::{
        ff::FieldType,
        helpers::{
            HelperIdentity, HelperResponse, RoleAssignment, make_owned_handler,
            query::{CompareStatusRequest, HybridQueryParams, PrepareQuery, QueryConfig, QuerySize, QueryType},
            routing::RouteId,
        },
        net::{Error as NetError, test::TestServer},
        protocol::QueryId,
        query::QueryStatus,
    };

    /// bit-exact equality (floats by bits, so that -0.0 != 0.0 and NaN == NaN with the same payload)
    fn same_cfg(a: &QueryConfig, b: &QueryConfig) -> bool {
        u32::from(a.size) == u32::from(b.size)
            && a.field_type == b.field_type
            && match (a.query_type, b.query_type) {
                (QueryType::MaliciousHybrid(x), QueryType::MaliciousHybrid(y)) => {
                    x.max_breakdown_key == y.max_breakdown_key
                        && x.with_dp == y.with_dp
                        && x.epsilon.to_bits() == y.epsilon.to_bits()
                        && x.plaintext_match_keys == y.plaintext_match_keys
                }
                (x, y) => std::mem::discriminant(&x) == std::mem::discriminant(&y),
            }
    }

    /// What the request handler behind the HTTP server got to see for the last request.
    type Slot = Arc<Mutex<Option<Result<QueryConfig, String>>>>;

    /// The production HTTP stack: `IpaHttpClient` (which encodes the config with net::http_serde) talking over a
    /// localhost socket to `IpaHttpServer` (whose handlers decode it with the `QueryConfigQueryParams` extractor and
    /// forward it as JSON `RouteParams::extra()` to the request handler).
    struct Http {
        server: TestServer,
        slot: Slot,
    }

    impl Http {
        async fn start() -> Self {
            let slot: Slot = Arc::new(Mutex::new(None));
            let s2 = Arc::clone(&slot);
            let handler = make_owned_handler(move |addr: crate::helpers::routing::Addr<HelperIdentity>, _body| {
                let s2 = Arc::clone(&s2);
                async move {
                    match addr.route {
                        RouteId::ReceiveQuery => {
                            let got = addr.into::<QueryConfig>().map_err(|e| format!("rejected (json hop): {e}"));
                            let cfg = got.clone().unwrap_or_else(|_| QueryConfig::new(QueryType::TestMultiply, FieldType::Fp31, 1).unwrap());
                            *s2.lock().unwrap() = Some(got);
                            Ok(HelperResponse::from(PrepareQuery {
                                query_id: QueryId,
                                config: cfg,
                                roles: RoleAssignment::new(HelperIdentity::make_three()),
                            }))
                        }
                        RouteId::PrepareQuery => {
                            let got = addr.into::<PrepareQuery>().map(|p| p.config).map_err(|e| format!("rejected (json hop): {e}"));
                            *s2.lock().unwrap() = Some(got);
                            Ok(HelperResponse::ok())
                        }
                        _ => Ok(HelperResponse::ok()),
                    }
                }
            });
            let server = TestServer::builder().disable_https().with_request_handler(handler).build().await;
            Http { server, slot }
        }

        fn take(&self) -> Option<Result<QueryConfig, String>> {
            self.slot.lock().unwrap().take()
        }

        fn classify(&self, client: Result<(), NetError>) -> Result<Result<QueryConfig, String>, String> {
            match (self.take(), client) {
                (Some(r), _) => Ok(r),
                (None, Err(NetError::FailedHttpRequest { status, reason, .. })) => Ok(Err(format!("rejected by the server: {status} {reason}"))),
                (None, Err(e @ (NetError::HyperHttpPassthrough(_) | NetError::InvalidUri(_)))) => Ok(Err(format!("client could not build the request: {e}"))),
                // anything else (connection reset = the server task died) is not a clean rejection
                (None, Err(e)) => Err(format!("transport failure: {e}")),
                (None, Ok(())) => Err("server answered OK without reaching the request handler".to_string()),
            }
        }

        async fn create(&self, cfg: QueryConfig) -> Result<Result<QueryConfig, String>, String> {
            self.take();
            match vlib::catch_fut(self.server.client.create_query(cfg)).await {
                Err(p) => Err(format!("panic: {p}")),
                Ok(r) => self.classify(r.map(|_| ())),
            }
        }

        async fn prepare(&self, cfg: QueryConfig) -> Result<Result<QueryConfig, String>, String> {
            self.take();
            let pq = PrepareQuery { query_id: QueryId, config: cfg, roles: RoleAssignment::new(HelperIdentity::make_three()) };
            match vlib::catch_fut(self.server.client.prepare_query(pq)).await {
                Err(p) => Err(format!("panic: {p}")),
                Ok(r) => self.classify(r),
            }
        }

        /// A hand-written query string straight into the server's router (no socket).
        async fn raw(&self, query: &str) -> Result<Result<QueryConfig, String>, String> {
            self.take();
            let uri = format!("http://localhost/query?{query}");
            let req = match hyper::Request::post(uri.as_str()).body(Body::empty()) {
                Ok(r) => r,
                Err(e) => return Ok(Err(format!("not a valid uri: {e}"))),
            };
            match vlib::catch_fut(self.server.server.handle_req(req)).await {
                Err(p) => Err(format!("panic: {p}")),
                Ok(resp) => match (self.take(), resp.status().is_success()) {
                    (Some(r), _) => Ok(r),
                    (None, false) => Ok(Err(format!("rejected by the server: {}", resp.status()))),
                    (None, true) => Err("server answered OK without reaching the request handler".to_string()),
                },
            }
        }
    }

    fn via_json(cfg: QueryConfig) -> Result<Result<QueryConfig, String>, String> {
        catch(move || {
            let s = serde_json::to_string(&cfg).map_err(|e| format!("to_string: {e}"))?;
            serde_json::from_str::<QueryConfig>(&s).map_err(|e| format!("rejected: {e}"))
        })
    }

    fn via_prepare_json(cfg: QueryConfig) -> Result<Result<QueryConfig, String>, String> {
        catch(move || {
            let pq = PrepareQuery {
                query_id: QueryId,
                config: cfg,
                roles: RoleAssignment::new(HelperIdentity::make_three()),
            };
            // the in-memory and HTTP transports ship PrepareQuery as RouteParams::extra() = JSON
            let s = serde_json::to_string(&pq).map_err(|e| format!("to_string: {e}"))?;
            let back = serde_json::from_str::<PrepareQuery>(&s).map_err(|e| format!("rejected: {e}"))?;
            if back.roles != pq.roles {
                return Err("rejected: roles differ".to_string());
            }
            Ok(back.config)
        })
    }

    async fn route(http: &Http, name: &str, cfg: QueryConfig) -> Result<Result<QueryConfig, String>, String> {
        match name {
            "http-create" => http.create(cfg).await,
            "http-prepare" => http.prepare(cfg).await,
            "json" => via_json(cfg),
            _ => via_prepare_json(cfg),
        }
    }
    const ROUTES: [&str; 4] = ["http-create", "http-prepare", "json", "json-prepare"];

    pub(super) fn float_pool(r: &mut VRng, seeded: usize) -> Vec<f64> {
        let mut v = vec![
            0.0, -0.0, 5.0, 1.0, 0.1, 1.151, 3.0000000000000004, 1e-7, 1e-300, 1e21, 1e300, 123456789.123456789,
            f64::MIN_POSITIVE, f64::MIN_POSITIVE / 4.0, f64::from_bits(1), f64::MAX, f64::EPSILON,
            0.30000000000000004, 2.2250738585072011e-308, 9007199254740993.0, -3.5,
            f64::NAN, f64::INFINITY, f64::NEG_INFINITY,
        ];
        for _ in 0..seeded {
            v.push(f64::from_bits(r.next()));
            v.push((r.next() % 100_000) as f64 / 1000.0);
            v.push(f64::from_bits((r.next() & 0x000f_ffff_ffff_ffff) | 0x3ff0_0000_0000_0000)); // [1,2)
        }
        v
    }

    /// QuerySize through its public constructor; a rejection of an in-range size is itself a violation.
    fn qsize(rec: &mut Recorder, case: usize, size: u32) -> Option<QuerySize> {
        match catch(|| QuerySize::try_from(size)) {
            Ok(Ok(q)) if u32::from(q) == size => Some(q),
            o => {
                viol(rec, "QuerySize::try_from rejects (or alters) a size inside [1, 10^9]",
                    json!({"kind": "query_size_acceptance", "in_range": true, "route": "try_from"}),
                    json!({"case": case, "size": size, "outcome": format!("{o:?}")}));
                None
            }
        }
    }

    const U32S: &[u32] = &[0, 1, 5, 255, 256, 65_536, u32::MAX - 1, u32::MAX];
    const SIZES: &[u32] = &[1, 2, 255, 65_536, 999_999_999, 1_000_000_000];

    #[test]
    fn verif_c09_query_config() {
        let mut rec = Recorder::new(PROP, "verif_c09_query_config");
        // (vlib::run_mt has no IO driver; the HTTP server needs one)
        let rt = tokio::runtime::Builder::new_multi_thread()
            .worker_threads(2)
            .thread_name("verif_mt_worker")
            .enable_all()
            .build()
            .unwrap();
        let done = rt.block_on(async {
            tokio::time::timeout(std::time::Duration::from_secs(600), body(&mut rec)).await.is_ok()
        });
        rt.shutdown_background();
        if !done {
            // not a verdict: the run is inconclusive
            rec.inconclusive("query-config test did not finish within the wall-clock allowance");
        }
        rec.finish();
    }

    async fn body(rec: &mut Recorder) {
        let (env, only) = envx();
        let http = Http::start().await;
        let mut pool_rng = VRng::new(env.seed ^ 0xC09_6, 0);
        let floats = float_pool(&mut pool_rng, env.pick(8, 64));
        let field_types = [FieldType::Fp31, FieldType::Fp32BitPrime];

        // ---- (a) all field combinations of the hybrid parameters -------------------------------
        let mut case = 0usize;
        for (fi, eps) in floats.iter().enumerate() {
            for mbk in U32S {
                for with_dp in [0u32, 1, 2, u32::MAX] {
                    for pmk in [false, true] {
                        case += 1;
                        if !env.mine(case) || only.is_some_and(|c| c != case) {
                            continue;
                        }
                        let size = SIZES[(case / 3) % SIZES.len()];
                        let ft = field_types[case % 2];
                        let Some(qs) = qsize(rec, case, size) else { continue };
                        let cfg = QueryConfig {
                            size: qs,
                            field_type: ft,
                            query_type: QueryType::MaliciousHybrid(HybridQueryParams {
                                max_breakdown_key: *mbk,
                                with_dp,
                                epsilon: *eps,
                                plaintext_match_keys: pmk,
                            }),
                        };
                        let class = if eps.is_finite() { "finite" } else { "non-finite" };
                        for rname in &ROUTES {
                            rec.eval();
                            rec.distinct(&(*rname, fi, *mbk, with_dp, pmk));
                            let out = route(&http, rname, cfg).await;
                            let desc = json!({"case": case, "route": rname, "size": size, "field_type": format!("{ft:?}"),
                                "max_breakdown_key": mbk, "with_dp": with_dp, "epsilon_bits": format!("{:016x}", eps.to_bits()),
                                "epsilon": format!("{eps:?}"), "plaintext_match_keys": pmk});
                            match out {
                                Err(p) => viol(rec, "query-config encode/decode panicked",
                                    json!({"kind": "panic_in_query_config", "route": rname, "epsilon_class": class, "panic": panic_class(&p)}),
                                    json!({"case": case, "config": desc, "panic": p})),
                                Ok(Ok(back)) if same_cfg(&back, &cfg) => rec.count("config_roundtrips"),
                                Ok(Ok(back)) => {
                                    let nan_ok = eps.is_nan() && matches!(back.query_type, QueryType::MaliciousHybrid(h) if h.epsilon.is_nan())
                                        && same_cfg(&QueryConfig { query_type: cfg.query_type, ..back }, &cfg);
                                    if nan_ok {
                                        rec.count("config_nan_roundtrips_as_nan");
                                    } else {
                                        // exact facts: which field differs, and by how many units in the last place
                                        let (others_equal, ulps) = match back.query_type {
                                            QueryType::MaliciousHybrid(h) => {
                                                let mut patched = h;
                                                patched.epsilon = *eps;
                                                (same_cfg(&QueryConfig { query_type: QueryType::MaliciousHybrid(patched), ..back }, &cfg),
                                                 if h.epsilon.is_finite() && (h.epsilon.to_bits() >> 63) == (eps.to_bits() >> 63) {
                                                     Some(h.epsilon.to_bits().abs_diff(eps.to_bits()))
                                                 } else { None })
                                            }
                                            _ => (false, None),
                                        };
                                        viol(rec, "query config decodes to a different value",
                                            json!({"kind": "config_roundtrip_mismatch", "route": rname, "epsilon_class": class,
                                                   "only_epsilon_differs": others_equal, "epsilon_ulps": ulps}),
                                            json!({"case": case, "config": desc, "decoded": format!("{back:?}")}));
                                    }
                                }
                                Ok(Err(e)) => {
                                    // a loud rejection is only acceptable for values outside the documented range
                                    if eps.is_finite() {
                                        viol(rec, "a valid query config cannot be transported",
                                            json!({"kind": "config_rejected", "route": rname, "epsilon_class": class}),
                                            json!({"case": case, "config": desc, "error": e}));
                                    } else {
                                        rec.count("config_nonfinite_epsilon_rejected_loudly");
                                    }
                                }
                            }
                        }
                    }
                }
            }
        }

        // ---- (b) the test query types and every size boundary ----------------------------------
        let qts = [QueryType::TestMultiply, QueryType::TestAddInPrimeField, QueryType::TestShardedShuffle,
                   QueryType::MaliciousHybrid(HybridQueryParams::default())];
        for qt in qts {
            for ft in field_types {
                for size in SIZES {
                    case += 1;
                    if !env.mine(case) || only.is_some_and(|c| c != case) {
                        continue;
                    }
                    let Some(qs) = qsize(rec, case, *size) else { continue };
                    let cfg = QueryConfig { size: qs, field_type: ft, query_type: qt };
                    for rname in &ROUTES {
                        rec.eval();
                        rec.distinct(&(*rname, AsRef::<str>::as_ref(&qt).to_string(), format!("{ft:?}"), *size));
                        rec.seen("query_types", AsRef::<str>::as_ref(&qt).to_string());
                        match route(&http, rname, cfg).await {
                            Ok(Ok(back)) if same_cfg(&back, &cfg) => rec.count("config_roundtrips"),
                            o => viol(rec, "query config does not round-trip",
                                json!({"kind": "config_roundtrip_mismatch", "route": rname, "query_type": AsRef::<str>::as_ref(&qt)}),
                                json!({"case": case, "config": format!("{cfg:?}"), "outcome": format!("{o:?}")})),
                        }
                    }
                }
            }
        }

        // ---- (c) hand-written query strings: acceptance must agree with the documented ranges ---
        // (size in [1, 10^9], known field type, known query type, integers in u32 range)
        let base = "field_type=Fp32BitPrime&max_breakdown_key=5&with_dp=1&epsilon=5";
        // expectation: Some(Some(n)) = must be accepted with size n, Some(None) = must be rejected,
        // None = spelling whose acceptance the property does not fix (only "no panic" is checked)
        let mut strings: Vec<(String, Option<Option<u32>>)> = Vec::new();
        for s in ["0", "1", "1000000000", "1000000001", "4294967295", "4294967296", "-1", "", "1.0", "+1", "01", "1e3", "%201", "0x10",
                  "18446744073709551617"] {
            let ok: Option<Option<u32>> = match s {
                "1" => Some(Some(1)),
                "1000000000" => Some(Some(1_000_000_000)),
                "+1" | "01" | "%201" => None,
                _ => Some(None),
            };
            strings.push((format!("query_type=malicious-hybrid&size={s}&{base}"), ok));
            strings.push((format!("query_type=test-multiply&size={s}&field_type=Fp31"), ok));
        }
        for q in [
            "query_type=malicious-hybrid&size=1",                                     // missing everything else
            "query_type=malicious-hybrid&size=1&field_type=Fp32BitPrime",             // missing hybrid params
            "query_type=malicious-hybrid&size=1&field_type=Fp32BitPrime&max_breakdown_key=5&with_dp=1", // missing epsilon
            "query_type=malicious-hybrid&size=1&field_type=Fp32BitPrime&max_breakdown_key=4294967296&with_dp=1&epsilon=1",
            "query_type=malicious-hybrid&size=1&field_type=Fp32BitPrime&max_breakdown_key=-1&with_dp=1&epsilon=1",
            "query_type=malicious-hybrid&size=1&field_type=Fp32BitPrime&max_breakdown_key=5&with_dp=4294967296&epsilon=1",
            "query_type=malicious-hybrid&size=1&field_type=Fp32BitPrime&max_breakdown_key=5&with_dp=1&epsilon=abc",
            "query_type=malicious-hybrid&size=1&field_type=Fp32BitPrime&max_breakdown_key=5&with_dp=1&epsilon=",
            "query_type=malicious-hybrid&size=1&field_type=Fp32BitPrime&max_breakdown_key=5&with_dp=1&epsilon=1&plaintext_match_keys=maybe",
            "query_type=malicious-hybrid&size=1&field_type=Fp64&max_breakdown_key=5&with_dp=1&epsilon=1",
            "query_type=malicious_hybrid&size=1&field_type=Fp32BitPrime&max_breakdown_key=5&with_dp=1&epsilon=1",
            "query_type=&size=1&field_type=Fp32BitPrime",
            "query_type=Malicious-Hybrid&size=1&field_type=Fp32BitPrime&max_breakdown_key=5&with_dp=1&epsilon=1",
            "size=1&field_type=Fp32BitPrime",
            "",
            "query_type=test-multiply&size=1&field_type=fp31",
            "query_type=test-multiply&size=1&size=2&field_type=Fp31",
            "%ff=%ff&query_type=test-multiply&size=1&field_type=Fp31%00",
            "query_type=test-multiply&size=%31&field_type=Fp31x",
        ] {
            strings.push((q.to_string(), Some(None)));
        }
        for (q, must) in strings {
            case += 1;
            if !env.mine(case) || only.is_some_and(|c| c != case) {
                continue;
            }
            rec.eval();
            rec.distinct(&("query-string", q.as_str()));
            match (http.raw(&q).await, must) {
                (Err(p), _) => viol(rec, "query-string decoding panicked",
                    json!({"kind": "panic_in_query_config", "route": "http-decode", "panic": panic_class(&p)}),
                    json!({"case": case, "query": q, "panic": p})),
                (Ok(Ok(c)), Some(Some(sz))) if u32::from(c.size) == sz => rec.count("query_string_accepted_in_range"),
                (Ok(Err(_)), Some(None)) => rec.count("query_string_rejected_out_of_range"),
                (Ok(_), None) => rec.count("query_string_unspecified_spelling_no_panic"),
                (Ok(o), must) => viol(rec, "query-string acceptance disagrees with the documented ranges",
                    json!({"kind": "query_string_acceptance", "accepted": o.is_ok(), "expected_accept": must.is_some_and(|m| m.is_some())}),
                    json!({"case": case, "query": q, "outcome": format!("{o:?}")})),
            }
        }

        // ---- (d) QuerySize / HybridQueryParams / CompareStatusRequest alone through JSON --------
        for v in [0u64, 1, 2, 999_999_999, 1_000_000_000, 1_000_000_001, u64::from(u32::MAX), u64::from(u32::MAX) + 1] {
            case += 1;
            if !env.mine(case) || only.is_some_and(|c| c != case) {
                continue;
            }
            rec.eval();
            rec.distinct(&("query-size-json", v));
            let in_range = (1..=1_000_000_000).contains(&v);
            let got = catch(|| serde_json::from_str::<QuerySize>(&v.to_string()).map(u32::from).map_err(|e| e.to_string()));
            match got {
                Ok(Ok(x)) if in_range && u64::from(x) == v => {
                    let back = QuerySize::try_from(x).ok().and_then(|q| serde_json::to_string(&q).ok()).unwrap_or_default();
                    if back == v.to_string() { rec.count("query_size_roundtrips") } else {
                        viol(rec, "QuerySize JSON does not round-trip",
                            json!({"kind": "config_roundtrip_mismatch", "route": "json-query-size"}),
                            json!({"case": case, "value": v, "encoded": back}));
                    }
                }
                Ok(Err(_)) if !in_range => rec.count("query_size_rejected_out_of_range"),
                o => viol(rec, "QuerySize acceptance disagrees with [1, 10^9]",
                    json!({"kind": "query_size_acceptance", "in_range": in_range}),
                    json!({"case": case, "value": v, "outcome": format!("{o:?}")})),
            }
        }
        for st in [QueryStatus::Preparing, QueryStatus::AwaitingInputs, QueryStatus::Running,
                   QueryStatus::AwaitingCompletion, QueryStatus::Completed] {
            case += 1;
            if !env.mine(case) || only.is_some_and(|c| c != case) {
                continue;
            }
            rec.eval();
            rec.distinct(&("status-json", format!("{st:?}")));
            let req = CompareStatusRequest { query_id: QueryId, status: st };
            let out = catch(|| serde_json::from_str::<CompareStatusRequest>(&serde_json::to_string(&req).unwrap()).map_err(|e| e.to_string()));
            match out {
                Ok(Ok(b)) if b == req => rec.count("status_request_roundtrips"),
                o => viol(rec, "CompareStatusRequest JSON does not round-trip",
                    json!({"kind": "config_roundtrip_mismatch", "route": "json-status"}),
                    json!({"case": case, "status": format!("{st:?}"), "outcome": format!("{o:?}")})),
            }
        }
    }
}

// ---------------------------------------------------------------------------------------------
// test 6: every TransposeFrom impl against a naive bit-matrix reference
// ---------------------------------------------------------------------------------------------

mod transposes {
    use super::*;

    /// A secret-shared bit matrix: two planes (left / right share) of rows x cols bits (0/1).
    #[derive(Clone, PartialEq, Eq)]
    pub(super) struct Mat {
        pub rows: usize,
        pub cols: usize,
        pub planes: [Vec<u8>; 2],
    }

    impl Mat {
        pub fn zero(rows: usize, cols: usize) -> Self {
            Mat { rows, cols, planes: [vec![0; rows * cols], vec![0; rows * cols]] }
        }
        pub fn get(&self, p: usize, r: usize, c: usize) -> u8 {
            self.planes[p][r * self.cols + c]
        }
        pub fn set(&mut self, p: usize, r: usize, c: usize, v: u8) {
            self.planes[p][r * self.cols + c] = v;
        }
        /// The naive reference: out[c][r] = in[r][c], plane by plane.
        pub fn transposed(&self) -> Mat {
            let mut t = Mat::zero(self.cols, self.rows);
            for p in 0..2 {
                for r in 0..self.rows {
                    for c in 0..self.cols {
                        t.set(p, c, r, self.get(p, r, c));
                    }
                }
            }
            t
        }
        pub fn row(&self, p: usize, r: usize) -> &[u8] {
            &self.planes[p][r * self.cols..(r + 1) * self.cols]
        }
        pub fn first_diff(&self, o: &Mat) -> Option<(usize, usize, usize)> {
            if self.rows != o.rows || self.cols != o.cols {
                return Some((9, self.rows.min(o.rows), self.cols.min(o.cols)));
            }
            for p in 0..2 {
                for r in 0..self.rows {
                    for c in 0..self.cols {
                        if self.get(p, r, c) != o.get(p, r, c) {
                            return Some((p, r, c));
                        }
                    }
                }
            }
            None
        }
        pub fn hexdump(&self) -> serde_json::Value {
            let pack = |p: usize| {
                let mut bytes = vec![0u8; (self.rows * self.cols).div_ceil(8)];
                for (i, b) in self.planes[p].iter().enumerate() {
                    if *b == 1 {
                        bytes[i / 8] |= 1 << (i % 8);
                    }
                }
                hex(&bytes)
            };
            json!({"rows": self.rows, "cols": self.cols, "left_rowmajor_lsb0": pack(0), "right_rowmajor_lsb0": pack(1)})
        }
    }

    /// Boolean array from bits, through its little-endian / Lsb0 byte encoding (the layout transpose.rs documents).
    pub(super) fn ba_from_bits<B: BooleanArray + Serializable>(bits: &[u8]) -> B {
        assert_eq!(bits.len(), B::BITS as usize, "harness bug: row width");
        let mut bytes = vec![0u8; B::Size::USIZE];
        for (i, b) in bits.iter().enumerate() {
            if *b == 1 {
                bytes[i / 8] |= 1 << (i % 8);
            }
        }
        match B::deserialize(GenericArray::from_slice(&bytes)) {
            Ok(v) => v,
            Err(e) => panic!("harness: canonical bytes rejected: {e}"),
        }
    }
    pub(super) fn ba_bits<B: BooleanArray + Serializable>(b: &B) -> Vec<u8> {
        let bytes = ser(b, 0);
        (0..B::BITS as usize).map(|i| u8::from(bit(&bytes, i))).collect()
    }
    fn ones<B: BooleanArray + Serializable>() -> B {
        ba_from_bits::<B>(&vec![1u8; B::BITS as usize])
    }

    fn rows_ba<B, const M: usize>(m: &Mat) -> [AdditiveShare<B>; M]
    where
        B: BooleanArray + Serializable,
    {
        assert_eq!((m.rows, m.cols), (M, B::BITS as usize));
        array::from_fn(|r| AdditiveShare::new(ba_from_bits::<B>(m.row(0, r)), ba_from_bits::<B>(m.row(1, r))))
    }
    fn rows_bool<const N: usize, const M: usize>(m: &Mat) -> [AdditiveShare<Boolean, N>; M]
    where
        Boolean: Vectorizable<N>,
        <Boolean as Vectorizable<N>>::Array: BooleanArray + Serializable,
    {
        assert_eq!((m.rows, m.cols), (M, N));
        array::from_fn(|r| AdditiveShare::new_arr(ba_from_bits(m.row(0, r)), ba_from_bits(m.row(1, r))))
    }
    fn mat_of_ba<B: BooleanArray + Serializable>(rows: &[AdditiveShare<B>]) -> Mat {
        let cols = B::BITS as usize;
        let mut m = Mat::zero(rows.len(), cols);
        for (r, s) in rows.iter().enumerate() {
            m.planes[0][r * cols..(r + 1) * cols].copy_from_slice(&ba_bits(&s.left()));
            m.planes[1][r * cols..(r + 1) * cols].copy_from_slice(&ba_bits(&s.right()));
        }
        m
    }
    fn mat_of_bool<const N: usize>(rows: &[AdditiveShare<Boolean, N>]) -> Mat
    where
        Boolean: Vectorizable<N>,
        <Boolean as Vectorizable<N>>::Array: BooleanArray + Serializable,
    {
        let mut m = Mat::zero(rows.len(), N);
        for (r, s) in rows.iter().enumerate() {
            m.planes[0][r * N..(r + 1) * N].copy_from_slice(&ba_bits(s.left_arr()));
            m.planes[1][r * N..(r + 1) * N].copy_from_slice(&ba_bits(s.right_arr()));
        }
        m
    }
    fn ones_ba_share<B: BooleanArray + Serializable>() -> AdditiveShare<B> {
        AdditiveShare::new(ones::<B>(), ones::<B>())
    }
    fn ones_bool_share<const N: usize>() -> AdditiveShare<Boolean, N>
    where
        Boolean: Vectorizable<N>,
        <Boolean as Vectorizable<N>>::Array: BooleanArray + Serializable,
    {
        AdditiveShare::new_arr(ones(), ones())
    }

    type TFn = Box<dyn Fn(&Mat) -> Result<Mat, String>>;

    // ---- the families of impls in transpose.rs; every destination is pre-filled with ones ("overwrite") ----

    /// [AdditiveShare<Boolean, N>; M] -> [AdditiveShare<BA{M}>; N]
    macro_rules! bool_to_ba {
        ($dst_row:ty, $m:expr, $n:expr) => {
            Box::new(|mat: &Mat| -> Result<Mat, String> {
                let src: [AdditiveShare<Boolean, $n>; $m] = rows_bool::<$n, $m>(mat);
                let mut dst: [AdditiveShare<$dst_row>; $n] = array::from_fn(|_| ones_ba_share::<$dst_row>());
                dst.transpose_from(&src).map_err(|e| format!("{e:?}"))?;
                Ok(mat_of_ba(&dst))
            }) as TFn
        };
    }
    /// &BitDecomposed<AdditiveShare<Boolean, N>> -> Vec<AdditiveShare<BA{M}>>
    macro_rules! bool_to_ba_shim {
        ($dst_row:ty, $m:expr, $n:expr) => {
            Box::new(|mat: &Mat| -> Result<Mat, String> {
                let src = BitDecomposed::new(rows_bool::<$n, $m>(mat).to_vec());
                let mut dst: Vec<AdditiveShare<$dst_row>> = vec![ones_ba_share::<$dst_row>(); 3];
                dst.transpose_from(&src).map_err(|e| format!("{e:?}"))?;
                Ok(mat_of_ba(&dst))
            }) as TFn
        };
    }
    /// [AdditiveShare<BA{N}>; M] -> [AdditiveShare<Boolean, M>; N]
    macro_rules! ba_to_bool {
        ($src_row:ty, $m:expr, $n:expr) => {
            Box::new(|mat: &Mat| -> Result<Mat, String> {
                let src: [AdditiveShare<$src_row>; $m] = rows_ba::<$src_row, $m>(mat);
                let mut dst: [AdditiveShare<Boolean, $m>; $n] = array::from_fn(|_| ones_bool_share::<$m>());
                dst.transpose_from(&src).map_err(|e| format!("{e:?}"))?;
                Ok(mat_of_bool(&dst))
            }) as TFn
        };
    }
    macro_rules! ba_to_bool_shim {
        ($src_row:ty, $m:expr, $n:expr) => {
            Box::new(|mat: &Mat| -> Result<Mat, String> {
                let src: [AdditiveShare<$src_row>; $m] = rows_ba::<$src_row, $m>(mat);
                let mut dst = BitDecomposed::new(vec![ones_bool_share::<$m>(); 2]);
                dst.transpose_from(&src).map_err(|e| format!("{e:?}"))?;
                Ok(mat_of_bool(&dst))
            }) as TFn
        };
    }
    /// &dyn Fn(usize) -> AdditiveShare<BA{N}>  ->  [AdditiveShare<Boolean, M>; N] and the BitDecomposed shim
    macro_rules! ba_fn_to_bool {
        ($src_row:ty, $m:expr, $n:expr, $shim:expr) => {
            Box::new(|mat: &Mat| -> Result<Mat, String> {
                let rows: [AdditiveShare<$src_row>; $m] = rows_ba::<$src_row, $m>(mat);
                let f = |i: usize| rows[i].clone();
                let fd: &dyn Fn(usize) -> AdditiveShare<$src_row> = &f;
                if $shim {
                    let mut dst = BitDecomposed::new(vec![ones_bool_share::<$m>(); 2]);
                    dst.transpose_from(fd).map_err(|e| format!("{e:?}"))?;
                    Ok(mat_of_bool(&dst))
                } else {
                    let mut dst: [AdditiveShare<Boolean, $m>; $n] = array::from_fn(|_| ones_bool_share::<$m>());
                    dst.transpose_from(fd).map_err(|e| format!("{e:?}"))?;
                    Ok(mat_of_bool(&dst))
                }
            }) as TFn
        };
    }
    /// small variant: destination has ceil8(N) rows; only the first N are meaningful
    macro_rules! ba_to_bool_small {
        ($src_row:ty, $m:expr, $n:expr) => {
            Box::new(|mat: &Mat| -> Result<Mat, String> {
                let src: [AdditiveShare<$src_row>; $m] = rows_ba::<$src_row, $m>(mat);
                let mut dst: [AdditiveShare<Boolean, $m>; ($n + 7) / 8 * 8] = array::from_fn(|_| ones_bool_share::<$m>());
                dst.transpose_from(&src).map_err(|e| format!("{e:?}"))?;
                Ok(mat_of_bool(&dst[..$n]))
            }) as TFn
        };
    }
    macro_rules! ba_to_bool_small_shim {
        ($src_row:ty, $m:expr, $n:expr, $from_vec:expr) => {
            Box::new(|mat: &Mat| -> Result<Mat, String> {
                let src: [AdditiveShare<$src_row>; $m] = rows_ba::<$src_row, $m>(mat);
                let mut dst = BitDecomposed::new(vec![ones_bool_share::<$m>(); 2]);
                if $from_vec {
                    let v: Vec<AdditiveShare<$src_row>> = src.to_vec();
                    dst.transpose_from(&v).map_err(|e| format!("{e:?}"))?;
                } else {
                    dst.transpose_from(&src).map_err(|e| format!("{e:?}"))?;
                }
                Ok(mat_of_bool(&dst))
            }) as TFn
        };
    }
    /// [BA{N}; M] -> [BA{M}; N] (no sharing: the right plane is carried through the same kernel separately)
    macro_rules! ba_to_ba {
        ($dst_row:ty, $src_row:ty, $m:expr, $n:expr, $shim:expr) => {
            Box::new(|mat: &Mat| -> Result<Mat, String> {
                let mut out = Mat::zero($n, $m);
                for p in 0..2 {
                    let src: [$src_row; $m] = array::from_fn(|r| ba_from_bits::<$src_row>(mat.row(p, r)));
                    let rows: Vec<$dst_row> = if $shim {
                        let mut dst: Vec<$dst_row> = vec![ones::<$dst_row>(); 5];
                        dst.transpose_from(&src).map_err(|e| format!("{e:?}"))?;
                        dst
                    } else {
                        let mut dst: [$dst_row; $n] = array::from_fn(|_| ones::<$dst_row>());
                        dst.transpose_from(&src).map_err(|e| format!("{e:?}"))?;
                        dst.to_vec()
                    };
                    if rows.len() != $n {
                        return Err(format!("destination has {} rows", rows.len()));
                    }
                    for (r, b) in rows.iter().enumerate() {
                        out.planes[p][r * $m..(r + 1) * $m].copy_from_slice(&ba_bits(b));
                    }
                }
                Ok(out)
            }) as TFn
        };
    }
    /// aggregation intermediate: &[BitDecomposed<AdditiveShare<Boolean, N>>] (M rows, `bits` entries each)
    /// -> Vec<BitDecomposed<AdditiveShare<Boolean, M>>> (N rows). The harness matrix stacks the `bits` layers
    /// side by side: input is M x (bits*N), output is N x (bits*M).
    macro_rules! aggregation {
        ($m:expr, $n:expr, $bits:expr) => {
            Box::new(|mat: &Mat| -> Result<Mat, String> {
                assert_eq!((mat.rows, mat.cols), ($m, $bits * $n));
                let src: Vec<BitDecomposed<AdditiveShare<Boolean, $n>>> = (0..$m)
                    .map(|r| {
                        BitDecomposed::new((0..$bits).map(|b| {
                            AdditiveShare::<Boolean, $n>::new_arr(
                                ba_from_bits(&mat.row(0, r)[b * $n..(b + 1) * $n]),
                                ba_from_bits(&mat.row(1, r)[b * $n..(b + 1) * $n]),
                            )
                        }))
                    })
                    .collect();
                let mut dst: Vec<BitDecomposed<AdditiveShare<Boolean, $m>>> = Vec::new();
                dst.transpose_from(src.as_slice()).map_err(|e| format!("{e:?}"))?;
                if dst.len() != $n || dst.iter().any(|d| d.len() != $bits) {
                    return Err(format!("destination shape {} x {:?}", dst.len(), dst.first().map(|d| d.len())));
                }
                let mut out = Mat::zero($n, $bits * $m);
                for (r, d) in dst.iter().enumerate() {
                    for b in 0..$bits {
                        let l = ba_bits(d[b].left_arr());
                        let rr = ba_bits(d[b].right_arr());
                        out.planes[0][r * $bits * $m + b * $m..r * $bits * $m + (b + 1) * $m].copy_from_slice(&l);
                        out.planes[1][r * $bits * $m + b * $m..r * $bits * $m + (b + 1) * $m].copy_from_slice(&rr);
                    }
                }
                Ok(out)
            }) as TFn
        };
    }

    /// reference for the layered aggregation transpose
    fn layered_reference(m: &Mat, layers: usize) -> Mat {
        let n = m.cols / layers;
        let mut out = Mat::zero(n, layers * m.rows);
        for p in 0..2 {
            for r in 0..m.rows {
                for b in 0..layers {
                    for c in 0..n {
                        out.set(p, c, b * m.rows + r, m.get(p, r, b * n + c));
                    }
                }
            }
        }
        out
    }

    pub(super) struct Impl {
        pub name: &'static str,
        pub rows: usize,
        pub cols: usize,
        pub layers: usize, // 1 except for the aggregation transpose
        pub f: TFn,
        pub inverse: Option<(&'static str, TFn)>,
    }

    fn imp(name: &'static str, rows: usize, cols: usize, f: TFn, inverse: Option<(&'static str, TFn)>) -> Impl {
        Impl { name, rows, cols, layers: 1, f, inverse }
    }

    /// Every `TransposeFrom` impl of transpose.rs (array kernels and the Vec / BitDecomposed shims).
    pub(super) fn all_impls() -> Vec<Impl> {
        vec![
            // ---- impl_transpose_ba_to_ba
            imp("ba_to_ba 64x64", 64, 64, ba_to_ba!(BA64, BA64, 64, 64, false), Some(("ba_to_ba 64x64", ba_to_ba!(BA64, BA64, 64, 64, false)))),
            imp("ba_to_ba 64x64 vec", 64, 64, ba_to_ba!(BA64, BA64, 64, 64, true), None),
            imp("ba_to_ba 256x256", 256, 256, ba_to_ba!(BA256, BA256, 256, 256, false), Some(("ba_to_ba 256x256", ba_to_ba!(BA256, BA256, 256, 256, false)))),
            imp("ba_to_ba 256x256 vec", 256, 256, ba_to_ba!(BA256, BA256, 256, 256, true), None),
            // ---- impl_transpose_shares_bool_to_ba(_small)
            imp("bool_to_ba 256x256", 256, 256, bool_to_ba!(BA256, 256, 256), None),
            imp("bool_to_ba 256x256 vec", 256, 256, bool_to_ba_shim!(BA256, 256, 256), None),
            imp("bool_to_ba 8x256", 8, 256, bool_to_ba!(BA8, 8, 256), Some(("ba_to_bool_small 256x8", ba_to_bool_small!(BA8, 256, 8)))),
            imp("bool_to_ba 8x256 vec", 8, 256, bool_to_ba_shim!(BA8, 8, 256), None),
            imp("bool_to_ba 16x256", 16, 256, bool_to_ba!(BA16, 16, 256), Some(("ba_to_bool_small 256x16", ba_to_bool_small!(BA16, 256, 16)))),
            imp("bool_to_ba 16x256 vec", 16, 256, bool_to_ba_shim!(BA16, 16, 256), None),
            imp("bool_to_ba 16x32", 16, 32, bool_to_ba!(BA16, 16, 32), Some(("ba_to_bool 32x16", ba_to_bool!(BA16, 32, 16)))),
            imp("bool_to_ba 16x32 vec", 16, 32, bool_to_ba_shim!(BA16, 16, 32), None),
            imp("bool_to_ba 32x256", 32, 256, bool_to_ba!(BA32, 32, 256), Some(("ba_to_bool_small 256x32", ba_to_bool_small!(BA32, 256, 32)))),
            imp("bool_to_ba 32x256 vec", 32, 256, bool_to_ba_shim!(BA32, 32, 256), None),
            imp("bool_to_ba 8x32", 8, 32, bool_to_ba!(BA8, 8, 32), Some(("ba_to_bool_small 32x8", ba_to_bool_small!(BA8, 32, 8)))),
            imp("bool_to_ba 8x32 vec", 8, 32, bool_to_ba_shim!(BA8, 8, 32), None),
            imp("bool_to_ba 32x32", 32, 32, bool_to_ba!(BA32, 32, 32), Some(("ba_to_bool 32x32", ba_to_bool!(BA32, 32, 32)))),
            imp("bool_to_ba 32x32 vec", 32, 32, bool_to_ba_shim!(BA32, 32, 32), None),
            imp("bool_to_ba 8x8", 8, 8, bool_to_ba!(BA8, 8, 8), None),
            imp("bool_to_ba 8x8 vec", 8, 8, bool_to_ba_shim!(BA8, 8, 8), None),
            imp("bool_to_ba 16x16", 16, 16, bool_to_ba!(BA16, 16, 16), None),
            imp("bool_to_ba 16x16 vec", 16, 16, bool_to_ba_shim!(BA16, 16, 16), None),
            imp("bool_to_ba 8x16", 8, 16, bool_to_ba!(BA8, 8, 16), Some(("ba_to_bool_small 16x8", ba_to_bool_small!(BA8, 16, 8)))),
            imp("bool_to_ba 8x16 vec", 8, 16, bool_to_ba_shim!(BA8, 8, 16), None),
            // ---- impl_transpose_shares_ba_to_bool
            imp("ba_to_bool 256x64", 256, 64, ba_to_bool!(BA64, 256, 64), None),
            imp("ba_to_bool 256x64 bitdecomposed", 256, 64, ba_to_bool_shim!(BA64, 256, 64), None),
            imp("ba_to_bool 32x32", 32, 32, ba_to_bool!(BA32, 32, 32), Some(("bool_to_ba 32x32", bool_to_ba!(BA32, 32, 32)))),
            imp("ba_to_bool 32x32 bitdecomposed", 32, 32, ba_to_bool_shim!(BA32, 32, 32), None),
            imp("ba_to_bool 32x16", 32, 16, ba_to_bool!(BA16, 32, 16), Some(("bool_to_ba 16x32", bool_to_ba!(BA16, 16, 32)))),
            imp("ba_to_bool 32x16 bitdecomposed", 32, 16, ba_to_bool_shim!(BA16, 32, 16), None),
            // ---- impl_transpose_shares_ba_fn_to_bool
            imp("ba_fn_to_bool 256x64", 256, 64, ba_fn_to_bool!(BA64, 256, 64, false), None),
            imp("ba_fn_to_bool 256x64 bitdecomposed", 256, 64, ba_fn_to_bool!(BA64, 256, 64, true), None),
            // ---- impl_transpose_shares_ba_to_bool_small
            imp("ba_to_bool_small 256x32", 256, 32, ba_to_bool_small!(BA32, 256, 32), Some(("bool_to_ba 32x256", bool_to_ba!(BA32, 32, 256)))),
            imp("ba_to_bool_small 256x32 bitdecomposed", 256, 32, ba_to_bool_small_shim!(BA32, 256, 32, false), None),
            imp("ba_to_bool_small 256x32 from-vec", 256, 32, ba_to_bool_small_shim!(BA32, 256, 32, true), None),
            imp("ba_to_bool_small 256x16", 256, 16, ba_to_bool_small!(BA16, 256, 16), Some(("bool_to_ba 16x256", bool_to_ba!(BA16, 16, 256)))),
            imp("ba_to_bool_small 256x16 bitdecomposed", 256, 16, ba_to_bool_small_shim!(BA16, 256, 16, false), None),
            imp("ba_to_bool_small 256x16 from-vec", 256, 16, ba_to_bool_small_shim!(BA16, 256, 16, true), None),
            imp("ba_to_bool_small 256x8", 256, 8, ba_to_bool_small!(BA8, 256, 8), Some(("bool_to_ba 8x256", bool_to_ba!(BA8, 8, 256)))),
            imp("ba_to_bool_small 256x8 bitdecomposed", 256, 8, ba_to_bool_small_shim!(BA8, 256, 8, false), None),
            imp("ba_to_bool_small 256x8 from-vec", 256, 8, ba_to_bool_small_shim!(BA8, 256, 8, true), None),
            imp("ba_to_bool_small 256x5", 256, 5, ba_to_bool_small!(BA5, 256, 5), None),
            imp("ba_to_bool_small 256x5 bitdecomposed", 256, 5, ba_to_bool_small_shim!(BA5, 256, 5, false), None),
            imp("ba_to_bool_small 256x5 from-vec", 256, 5, ba_to_bool_small_shim!(BA5, 256, 5, true), None),
            imp("ba_to_bool_small 256x3", 256, 3, ba_to_bool_small!(BA3, 256, 3), None),
            imp("ba_to_bool_small 256x3 bitdecomposed", 256, 3, ba_to_bool_small_shim!(BA3, 256, 3, false), None),
            imp("ba_to_bool_small 256x3 from-vec", 256, 3, ba_to_bool_small_shim!(BA3, 256, 3, true), None),
            imp("ba_to_bool_small 32x8", 32, 8, ba_to_bool_small!(BA8, 32, 8), Some(("bool_to_ba 8x32", bool_to_ba!(BA8, 8, 32)))),
            imp("ba_to_bool_small 32x8 bitdecomposed", 32, 8, ba_to_bool_small_shim!(BA8, 32, 8, false), None),
            imp("ba_to_bool_small 32x8 from-vec", 32, 8, ba_to_bool_small_shim!(BA8, 32, 8, true), None),
            imp("ba_to_bool_small 32x3", 32, 3, ba_to_bool_small!(BA3, 32, 3), None),
            imp("ba_to_bool_small 32x3 bitdecomposed", 32, 3, ba_to_bool_small_shim!(BA3, 32, 3, false), None),
            imp("ba_to_bool_small 32x3 from-vec", 32, 3, ba_to_bool_small_shim!(BA3, 32, 3, true), None),
            imp("ba_to_bool_small 16x8", 16, 8, ba_to_bool_small!(BA8, 16, 8), Some(("bool_to_ba 8x16", bool_to_ba!(BA8, 8, 16)))),
            imp("ba_to_bool_small 16x8 bitdecomposed", 16, 8, ba_to_bool_small_shim!(BA8, 16, 8, false), None),
            imp("ba_to_bool_small 16x8 from-vec", 16, 8, ba_to_bool_small_shim!(BA8, 16, 8, true), None),
            // ---- impl_aggregation_transpose (1 and 3 trigger-value layers)
            Impl { name: "aggregation 256x256 x1", rows: 256, cols: 256, layers: 1, f: aggregation!(256, 256, 1),
                   inverse: Some(("aggregation 256x256 x1", aggregation!(256, 256, 1))) },
            Impl { name: "aggregation 256x256 x3", rows: 256, cols: 3 * 256, layers: 3, f: aggregation!(256, 256, 3), inverse: None },
            Impl { name: "aggregation 32x256 x1", rows: 32, cols: 256, layers: 1, f: aggregation!(32, 256, 1), inverse: None },
            Impl { name: "aggregation 32x256 x3", rows: 32, cols: 3 * 256, layers: 3, f: aggregation!(32, 256, 3), inverse: None },
        ]
    }

    /// Input patterns for a rows x cols matrix: (description, matrix).
    pub(super) fn patterns(rows: usize, cols: usize, r: &mut VRng, n_random: usize, small_all_bits: bool) -> Vec<(String, Mat)> {
        let mut out = vec![("all-zero".to_string(), Mat::zero(rows, cols))];
        let mut ones = Mat::zero(rows, cols);
        ones.planes = [vec![1; rows * cols], vec![1; rows * cols]];
        out.push(("all-one".into(), ones));
        let mut left = Mat::zero(rows, cols);
        left.planes[0] = vec![1; rows * cols];
        out.push(("left-plane-only".into(), left));
        // single bits
        if small_all_bits && rows * cols <= 1024 {
            for i in 0..rows * cols {
                let mut m = Mat::zero(rows, cols);
                m.set(i % 2, i / cols, i % cols, 1);
                out.push((format!("single-bit r{} c{} p{}", i / cols, i % cols, i % 2), m));
            }
        } else {
            let edge = |n: usize| -> Vec<usize> {
                let mut v: Vec<usize> = [0usize, 1, 7, 8, 15, 16, 17, 31, 32, 63, 64, 127, 128, 255, 256, 511, 767]
                    .iter().copied().filter(|x| *x < n).collect();
                v.push(n - 1);
                v.sort_unstable();
                v.dedup();
                v
            };
            let (er, ec) = (edge(rows), edge(cols));
            let mut k = 0;
            for rr in &er {
                for cc in &ec {
                    // thin out the cross product, always keep the corners and the diagonal
                    k += 1;
                    let corner = (*rr == 0 || *rr == rows - 1) && (*cc == 0 || *cc == cols - 1);
                    if !(corner || rr == cc || k % 3 == 0) {
                        continue;
                    }
                    let mut m = Mat::zero(rows, cols);
                    m.set(k % 2, *rr, *cc, 1);
                    out.push((format!("single-bit r{rr} c{cc} p{}", k % 2), m));
                }
            }
        }
        // structured: one full row, one full column, anti-diagonal
        let mut m = Mat::zero(rows, cols);
        for c in 0..cols {
            m.set(0, rows / 2, c, 1);
        }
        for rr in 0..rows {
            m.set(1, rr, cols - 1, 1);
        }
        out.push(("row+column".into(), m));
        let mut m = Mat::zero(rows, cols);
        for rr in 0..rows {
            m.set(0, rr, (rr * 7 + 3) % cols, 1);
            m.set(1, rr, (cols - 1) - (rr % cols), 1);
        }
        out.push(("diagonals".into(), m));
        for i in 0..n_random {
            let mut m = Mat::zero(rows, cols);
            for p in 0..2 {
                for x in m.planes[p].iter_mut() {
                    *x = (r.next() & 1) as u8;
                }
            }
            out.push((format!("random#{i}"), m));
        }
        out
    }

    pub(super) fn run_impl(rec: &mut Recorder, env: &vlib::Env, only: Option<usize>, idx: usize, im: &Impl,
                           n_random: usize, small_all_bits: bool, counter: &mut usize) {
        let mut r = VRng::new(env.seed ^ 0xC09_7, idx as u64);
        for (pi, (pname, m)) in patterns(im.rows, im.cols, &mut r, n_random, small_all_bits).into_iter().enumerate() {
            let case = idx * 4096 + pi;
            *counter += 1;
            if !env.mine(*counter) || only.is_some_and(|c| c != case) {
                continue;
            }
            rec.eval();
            rec.seen("transpose_impls", im.name);
            rec.distinct(&(im.name, pname.as_str()));
            if rec.want_sample() && case % 41 == 3 {
                rec.sample(json!({"transpose_impl": im.name, "pattern": pname, "layers": im.layers}));
            }
            let expect = if im.layers == 1 { m.transposed() } else { layered_reference(&m, im.layers) };
            let pclass = pname.split(' ').next().unwrap_or("").split('#').next().unwrap_or("").to_string();
            let out = match catch(|| (im.f)(&m)) {
                Err(p) => {
                    viol(rec, "transpose panicked",
                        json!({"kind": "transpose_panic", "impl": im.name, "panic": panic_class(&p)}),
                        json!({"case": case, "impl": im.name, "pattern": pname, "input": m.hexdump(), "panic": p}));
                    continue;
                }
                Ok(Err(e)) => {
                    viol(rec, "transpose returned an error for a correctly sized input",
                        json!({"kind": "transpose_error", "impl": im.name}),
                        json!({"case": case, "impl": im.name, "pattern": pname, "input": m.hexdump(), "error": e}));
                    continue;
                }
                Ok(Ok(o)) => o,
            };
            match out.first_diff(&expect) {
                None => rec.count("transposes_equal_reference"),
                Some((p, rr, cc)) => {
                    viol(rec, "transpose differs from the naive bit-matrix reference",
                        json!({"kind": "transpose_mismatch", "impl": im.name, "pattern": pclass}),
                        json!({"case": case, "impl": im.name, "pattern": pname, "input": m.hexdump(), "got": out.hexdump(),
                               "first_difference": {"plane": p, "row": rr, "col": cc}}));
                    continue;
                }
            }
            if let Some((iname, inv)) = &im.inverse {
                rec.eval();
                match catch(|| inv(&out)) {
                    Ok(Ok(back)) if back == m => {
                        rec.count("transpose_inverse_identity");
                        rec.seen("transpose_inverse_pairs", format!("{} ; {}", im.name, iname));
                    }
                    o => viol(rec, "transpose followed by the inverse-shaped transpose is not the identity",
                        json!({"kind": "transpose_inverse_mismatch", "impl": im.name, "inverse": iname}),
                        json!({"case": case, "impl": im.name, "inverse": iname, "pattern": pname, "input": m.hexdump(),
                               "outcome": match o { Ok(Ok(b)) => b.hexdump(), Ok(Err(e)) => json!(e), Err(p) => json!(p) }})),
                }
            }
        }
    }

    /// Miri-sized variant of `run_impl`: all-one, two single bits, one seeded matrix; reference + inverse.
    pub(super) fn run_light(rec: &mut Recorder, env: &vlib::Env, idx: usize, im: &Impl) {
        let mut r = VRng::new(env.seed ^ 0xC09_9, idx as u64);
        let mut pats = Vec::new();
        let mut ones = Mat::zero(im.rows, im.cols);
        ones.planes = [vec![1; im.rows * im.cols], vec![1; im.rows * im.cols]];
        pats.push(("all-one", ones));
        let mut m = Mat::zero(im.rows, im.cols);
        m.set(0, 0, im.cols - 1, 1);
        m.set(1, im.rows - 1, 0, 1);
        pats.push(("two-corners", m));
        let mut m = Mat::zero(im.rows, im.cols);
        for p in 0..2 {
            for x in m.planes[p].iter_mut() {
                *x = (r.next() & 1) as u8;
            }
        }
        pats.push(("random", m));
        for (pi, (pname, m)) in pats.into_iter().enumerate() {
            let case = 800_000 + idx * 8 + pi;
            rec.eval();
            rec.seen("transpose_impls", im.name);
            rec.distinct(&(im.name, pname));
            match catch(|| (im.f)(&m)) {
                Ok(Ok(out)) if out == m.transposed() => {
                    rec.count("transposes_equal_reference");
                    if let Some((iname, inv)) = &im.inverse {
                        match catch(|| inv(&out)) {
                            Ok(Ok(back)) if back == m => rec.count("transpose_inverse_identity"),
                            _ => viol(rec, "transpose followed by the inverse-shaped transpose is not the identity",
                                json!({"kind": "transpose_inverse_mismatch", "impl": im.name, "inverse": iname}),
                                json!({"case": case, "impl": im.name, "pattern": pname, "input": m.hexdump()})),
                        }
                    }
                }
                o => viol(rec, "transpose differs from the naive bit-matrix reference",
                    json!({"kind": "transpose_mismatch", "impl": im.name, "pattern": pname}),
                    json!({"case": case, "impl": im.name, "pattern": pname, "input": m.hexdump(),
                           "outcome": match o { Ok(Ok(b)) => b.hexdump(), Ok(Err(e)) => json!(e), Err(p) => json!(p) }})),
            }
        }
    }

    /// Wrongly sized sources must be reported as LengthError by the fallible shims (never a panic).
    fn length_errors(rec: &mut Recorder) {
        macro_rules! expect_len_err {
            ($name:expr, $e:expr) => {{
                rec.eval();
                rec.distinct(&("length-error", $name));
                match catch(|| $e) {
                    Ok(Err(_)) => rec.count("length_errors_reported"),
                    Ok(Ok(())) => viol(rec, "transpose shim accepted a wrongly sized source",
                        json!({"kind": "transpose_wrong_size_accepted", "impl": $name}), json!({"case": 0, "impl": $name})),
                    Err(p) => viol(rec, "transpose shim panicked on a wrongly sized source",
                        json!({"kind": "transpose_panic", "impl": $name, "panic": panic_class(&p)}), json!({"case": 0, "impl": $name, "panic": p})),
                }
            }};
        }
        for len in [0usize, 1, 7, 9, 255] {
            let src = BitDecomposed::new(vec![AdditiveShare::<Boolean, 256>::ZERO; len]);
            expect_len_err!("bool_to_ba 8x256 vec", Vec::<AdditiveShare<BA8>>::new().transpose_from(&src));
            let src = vec![AdditiveShare::<BA8>::ZERO; len];
            expect_len_err!("ba_to_bool_small 256x8 from-vec", BitDecomposed::<AdditiveShare<Boolean, 256>>::default().transpose_from(&src));
            let src = vec![AdditiveShare::<BA3>::ZERO; len];
            expect_len_err!("ba_to_bool_small 32x3 from-vec", BitDecomposed::<AdditiveShare<Boolean, 32>>::default().transpose_from(&src));
        }
    }

    #[test]
    fn verif_c09_transpose() {
        let (env, only) = envx();
        let mut rec = Recorder::new(PROP, "verif_c09_transpose");
        let impls = all_impls();
        let mut counter = 0usize;
        for (idx, im) in impls.iter().enumerate() {
            let big = im.rows * im.cols > 16 * 1024;
            let n_random = if big { env.pick(3, 48) } else { env.pick(12, 400) };
            run_impl(&mut rec, &env, only, idx, im, n_random, true, &mut counter);
        }
        if env.shard == 0 && only.is_none() {
            length_errors(&mut rec);
        }
        rec.finish();
    }
}

// ---------------------------------------------------------------------------------------------
// test 7: field packing -- BooleanArrayWriter/Reader, join_fields/split_fields (through Shuffleable),
//         BitDecomposed <-> BA, AdditiveShare<BA{N}> <-> AdditiveShare<Boolean, N>
// ---------------------------------------------------------------------------------------------

mod packing {
    use super::{transposes::{ba_bits, ba_from_bits}, *};
    use crate::{
        protocol::ipa_prf::shuffle::Shuffleable,
        report::hybrid::{AggregateableHybridReport, IndistinguishableHybridReport},
    };

    fn boundary_u128(bits: u32, k: usize, r: &mut VRng) -> u128 {
        let mask = if bits >= 128 { u128::MAX } else { (1u128 << bits) - 1 };
        (match k % 8 {
            0 => 0,
            1 => mask,
            2 => 1,
            3 => 1u128 << (bits - 1).min(127),
            4 => 0xaaaa_aaaa_aaaa_aaaa_aaaa_aaaa_aaaa_aaaa,
            5 => 0x5555_5555_5555_5555_5555_5555_5555_5555,
            _ => r.u128(),
        }) & mask
    }

    /// write the fields into a zero container, read them back in the same order
    macro_rules! writer_reader {
        ($rec:expr, $case:expr, $r:expr, $k:expr, $container:ty, [$($field:ty),+]) => {{
            let rec: &mut Recorder = $rec;
            let name = concat!(stringify!($container), " <- ", stringify!($($field),+));
            rec.eval();
            rec.seen("writer_reader_layouts", name);
            let mut kk = $k;
            let vals: Vec<u128> = vec![$({ kk += 3; boundary_u128(<$field>::BITS, kk, $r) }),+];
            rec.distinct(&(name, $k % 8));
            let res = catch(|| {
                let mut c = <$container>::ZERO;
                let mut i = 0;
                let w = BooleanArrayWriter::new(&mut c);
                $( let w = w.write(&<$field>::truncate_from(vals[i])); i += 1; )+
                let _ = (w, i);
                let rd = BooleanArrayReader::new(&c);
                let mut back: Vec<u128> = Vec::new();
                $( let (v, rd): ($field, _) = rd.read(); back.push(v.as_u128()); )+
                let _ = rd;
                (back, ser(&c, 0))
            });
            match res {
                Ok((back, _)) if back == vals => rec.count("writer_reader_roundtrips"),
                Ok((back, packed)) => viol(rec, "BooleanArrayReader does not return what BooleanArrayWriter wrote",
                    json!({"kind": "packing_mismatch", "layout": name}),
                    json!({"case": $case, "layout": name, "written": format!("{vals:x?}"), "read": format!("{back:x?}"), "packed": hex(&packed)})),
                Err(p) => viol(rec, "BooleanArrayWriter/Reader panicked on fields that fit the container",
                    json!({"kind": "packing_panic", "layout": name, "panic": panic_class(&p)}),
                    json!({"case": $case, "layout": name, "written": format!("{vals:x?}"), "panic": p})),
            }
        }};
    }

    macro_rules! shuffle_roundtrip {
        ($rec:expr, $case:expr, $name:expr, $ty:ty, $report:expr) => {{
            let rec: &mut Recorder = $rec;
            rec.eval();
            let rep: $ty = $report;
            let res = catch(|| {
                let l = Shuffleable::left(&rep);
                let r = Shuffleable::right(&rep);
                let back: $ty = Shuffleable::new(l, r);
                (back, ser(&l, 0), ser(&r, 0))
            });
            match res {
                Ok((back, _, _)) if back == rep => rec.count("join_split_roundtrips"),
                Ok((back, l, r)) => viol(rec, "split_fields(join_fields(report)) differs from the report",
                    json!({"kind": "join_split_mismatch", "report": $name}),
                    json!({"case": $case, "report": format!("{rep:?}"), "back": format!("{back:?}"), "left_share": hex(&l), "right_share": hex(&r)})),
                Err(p) => viol(rec, "join_fields/split_fields panicked",
                    json!({"kind": "packing_panic", "layout": $name, "panic": panic_class(&p)}),
                    json!({"case": $case, "report": format!("{rep:?}"), "panic": p})),
            }
        }};
    }

    fn sh<B: U128Conversions + SharedValue>(l: u128, r: u128) -> AdditiveShare<B> {
        ReplicatedSecretSharing::new(B::truncate_from(l), B::truncate_from(r))
    }

    macro_rules! bits_roundtrip {
        ($rec:expr, $case:expr, $r:expr, $k:expr, $($ba:ty),+) => {{
            $({
                let rec: &mut Recorder = $rec;
                rec.eval();
                let n = <$ba>::BITS as usize;
                let bits: Vec<u8> = (0..n).map(|i| match $k % 5 { 0 => 0, 1 => 1, 2 => u8::from(i == ($k / 5) % n), _ => ($r.next() & 1) as u8 }).collect();
                let v: $ba = ba_from_bits(&bits);
                rec.distinct(&(stringify!($ba), "to_bits", $k % 5));
                let res = catch(|| {
                    let d = v.to_bits();
                    let len = d.len();
                    let listed: Vec<u8> = d.iter().map(|b| u8::from(*b == Boolean::TRUE)).collect();
                    let back: $ba = d.collect_bits();
                    (len, listed, back)
                });
                match res {
                    Ok((len, listed, back)) if len == n && listed == bits && back == v && ba_bits(&back) == bits => rec.count("bitdecomposed_roundtrips"),
                    o => viol(rec, "BA -> BitDecomposed -> BA is not the identity",
                        json!({"kind": "bitdecomposed_mismatch", "type": stringify!($ba)}),
                        json!({"case": $case, "type": stringify!($ba), "bits": format!("{bits:?}"), "outcome": format!("{o:?}")})),
                }
            })+
        }};
    }

    macro_rules! vector_share_roundtrip {
        ($rec:expr, $case:expr, $r:expr, $k:expr, $(($ba:ty, $n:expr)),+) => {{
            $({
                let rec: &mut Recorder = $rec;
                rec.eval();
                let bits = |r: &mut VRng| -> Vec<u8> { (0..$n).map(|i| match $k % 4 { 0 => 0, 1 => 1, 2 => u8::from(i == $k % $n), _ => (r.next() & 1) as u8 }).collect() };
                let (lb, rb) = (bits($r), bits($r));
                let s: AdditiveShare<$ba> = ReplicatedSecretSharing::new(ba_from_bits(&lb), ba_from_bits(&rb));
                rec.distinct(&(stringify!($ba), "vector-share", $k % 4));
                let res = catch(|| {
                    let v: AdditiveShare<Boolean, $n> = s.clone().into();
                    let (l2, r2) = (ba_bits(v.left_arr()), ba_bits(v.right_arr()));
                    let back: AdditiveShare<$ba> = v.into();
                    (l2, r2, back)
                });
                match res {
                    Ok((l2, r2, back)) if l2 == lb && r2 == rb && back == s => rec.count("vector_share_roundtrips"),
                    o => viol(rec, "AdditiveShare<BA> <-> AdditiveShare<Boolean, N> is not lossless",
                        json!({"kind": "vector_share_mismatch", "type": stringify!($ba)}),
                        json!({"case": $case, "type": stringify!($ba), "left": format!("{lb:?}"), "right": format!("{rb:?}"), "outcome": format!("{o:?}")})),
                }
            })+
        }};
    }

    pub(super) fn packing_case(rec: &mut Recorder, case: usize, seed: u64) {
        let mut r = VRng::new(seed ^ 0xC09_8, case as u64);
        let k = case;
        // ---- writer / reader, containers used in the protocol and a few exact fits
        writer_reader!(rec, case, &mut r, k, BA112, [BA64, BA3, BA8]);
        writer_reader!(rec, case, &mut r, k, BA112, [BA64, BA16, BA32]);
        writer_reader!(rec, case, &mut r, k, BA32, [BA3, BA8]);
        writer_reader!(rec, case, &mut r, k, BA32, [BA16, BA16]);
        writer_reader!(rec, case, &mut r, k, BA32, [BA20, BA7, BA5]);
        writer_reader!(rec, case, &mut r, k, BA64, [BA5, BA3, BA6, BA4, BA7, BA8, BA20]);
        writer_reader!(rec, case, &mut r, k, BA20, [BA3, BA16]);
        writer_reader!(rec, case, &mut r, k, BA8, [BA3, BA5]);
        writer_reader!(rec, case, &mut r, k, BA256, [BA112, BA96, BA32, BA16]);
        // single booleans interleaved with arrays
        rec.eval();
        rec.distinct(&("BA16 <- bool,BA8,bool,BA6", k % 8));
        let (b0, b1) = (k % 2 == 0, (k / 2) % 2 == 0);
        let (v8, v6) = (boundary_u128(8, k, &mut r), boundary_u128(6, k + 1, &mut r));
        let res = catch(|| {
            let mut c = BA16::ZERO;
            let _ = BooleanArrayWriter::new(&mut c)
                .write_boolean(Boolean::from(b0))
                .write(&BA8::truncate_from(v8))
                .write_boolean(Boolean::from(b1))
                .write(&BA6::truncate_from(v6));
            let rd = BooleanArrayReader::new(&c);
            let (x0, rd) = rd.read_boolean();
            let (x8, rd): (BA8, _) = rd.read();
            let (x1, rd) = rd.read_boolean();
            let (x6, _): (BA6, _) = rd.read();
            (bool::from(x0), x8.as_u128(), bool::from(x1), x6.as_u128())
        });
        match res {
            Ok(got) if got == (b0, v8, b1, v6) => rec.count("writer_reader_roundtrips"),
            o => viol(rec, "BooleanArrayReader does not return what BooleanArrayWriter wrote",
                json!({"kind": "packing_mismatch", "layout": "BA16 <- bool,BA8,bool,BA6"}),
                json!({"case": case, "written": format!("{:?}", (b0, v8, b1, v6)), "outcome": format!("{o:?}")})),
        }

        // ---- join_fields / split_fields through Shuffleable: all 2^3 values x boundary bk x boundary match keys
        for v in 0..8u128 {
            let mk_l = boundary_u128(64, k + v as usize, &mut r);
            let mk_r = boundary_u128(64, k / 8 + 3 * v as usize, &mut r);
            let bk_l = boundary_u128(8, k / 3 + v as usize, &mut r);
            let bk_r = boundary_u128(8, k / 5 + 2 * v as usize, &mut r);
            rec.distinct(&("join-split", v, k % 64));
            shuffle_roundtrip!(rec, case, "IndistinguishableHybridReport<BA8,BA3>", IndistinguishableHybridReport<BA8, BA3>, IndistinguishableHybridReport::<BA8, BA3> {
                match_key: sh::<BA64>(mk_l, mk_r), value: sh::<BA3>(v, 7 - v), breakdown_key: sh::<BA8>(bk_l, bk_r) });
            shuffle_roundtrip!(rec, case, "AggregateableHybridReport<BA8,BA3>", AggregateableHybridReport<BA8, BA3>, AggregateableHybridReport::<BA8, BA3> {
                match_key: (), value: sh::<BA3>(v, (v * 3) % 8), breakdown_key: sh::<BA8>(bk_l, bk_r) });
            shuffle_roundtrip!(rec, case, "IndistinguishableHybridReport<BA5,BA3>", IndistinguishableHybridReport<BA5, BA3>, IndistinguishableHybridReport::<BA5, BA3> {
                match_key: sh::<BA64>(mk_r, mk_l), value: sh::<BA3>(7 - v, v), breakdown_key: sh::<BA5>(bk_l, bk_r) });
            // exact fits of the share containers: 64+16+32 = 112 and 16+16 = 32
            shuffle_roundtrip!(rec, case, "IndistinguishableHybridReport<BA32,BA16>", IndistinguishableHybridReport<BA32, BA16>, IndistinguishableHybridReport::<BA32, BA16> {
                match_key: sh::<BA64>(mk_l, mk_r), value: sh::<BA16>(mk_r, bk_l << 8 | v), breakdown_key: sh::<BA32>(mk_l >> 7, mk_r >> 9) });
            shuffle_roundtrip!(rec, case, "AggregateableHybridReport<BA16,BA16>", AggregateableHybridReport<BA16, BA16>, AggregateableHybridReport::<BA16, BA16> {
                match_key: (), value: sh::<BA16>(mk_l, v), breakdown_key: sh::<BA16>(mk_r, bk_r) });
        }

        // ---- BA <-> BitDecomposed<Boolean>, AdditiveShare<BA{N}> <-> AdditiveShare<Boolean, N>
        bits_roundtrip!(rec, case, &mut r, k, BA3, BA4, BA5, BA6, BA7, BA8, BA16, BA20, BA32, BA64, BA96, BA112, BA144, BA256);
        vector_share_roundtrip!(rec, case, &mut r, k, (BA3, 3), (BA5, 5), (BA8, 8), (BA16, 16), (BA20, 20), (BA32, 32), (BA64, 64), (BA256, 256));
    }

    #[test]
    fn verif_c09_packing() {
        let (env, only) = envx();
        let mut rec = Recorder::new(PROP, "verif_c09_packing");
        for case in 0..env.pick(256usize, 4096usize) {
            if !env.mine(case) || only.is_some_and(|c| c != case) {
                continue;
            }
            packing_case(&mut rec, case, env.seed);
        }
        rec.finish();
    }
}

// ---------------------------------------------------------------------------------------------
// test 8: a small group sized for Miri (also runs natively as verif_c09_kernels_small)
// ---------------------------------------------------------------------------------------------

fn small_kernels(rec: &mut Recorder, env: &vlib::Env, only: Option<usize>) {
    // Under Miri (about 1000x slower) only the kernels themselves matter: fewer patterns, same code paths.
    let light = cfg!(miri);
    // transposes of the small shapes: a handful of patterns each
    let mut counter = 0usize;
    for (idx, im) in transposes::all_impls().iter().enumerate() {
        if im.rows * im.cols > 512 || (light && im.name.contains(' ') && im.name.split(' ').count() > 2) {
            continue; // light: array kernels only, not the Vec / BitDecomposed shims
        }
        if light {
            transposes::run_light(rec, env, idx, im);
        } else {
            transposes::run_impl(rec, env, only, idx, im, 2, false, &mut counter);
        }
    }
    // BA (de)serialisation: edges of every boolean array type
    macro_rules! ba_edges {
        ($($t:ty),+) => {{ $({
            let name = <$t as Canon>::name();
            let mut t = Tally::default();
            for (k, e) in <$t as Canon>::edges().iter().enumerate().take(if light { 3 } else { 12 }) {
                counter += 1;
                if !env.mine(counter) {
                    continue;
                }
                if let Some(acc) = check_bytes::<$t>(rec, &name, e, 900_000 + k, "edge", &mut t) {
                    rec.distinct(&(name.as_str(), "edge", k, acc));
                }
            }
            rec.seen("types_small_kernels", name);
        })+ }};
    }
    ba_edges!(BA3, BA4, BA5, BA6, BA7, BA8, BA16, BA20, BA32, BA64, BA96, BA112, BA144, BA256,
              AdditiveShare<BA3>, AdditiveShare<BA20>, AdditiveShare<BA64>);
    for case in 0..(if light { 1 } else { 4 }) {
        counter += 1;
        if env.mine(counter) {
            packing::packing_case(rec, case, env.seed);
        }
    }
}

#[test]
fn verif_c09_miri_kernels() {
    let (env, only) = envx();
    let mut rec = Recorder::new(PROP, "verif_c09_miri_kernels");
    small_kernels(&mut rec, &env, only);
    rec.finish();
}

#[test]
fn verif_c09_kernels_small() {
    let (env, only) = envx();
    let mut rec = Recorder::new(PROP, "verif_c09_kernels_small");
    small_kernels(&mut rec, &env, only);
    rec.finish();
}
