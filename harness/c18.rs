// C18 Query lifecycle is a consistent state machine under any sequence of API calls.
//
// World: three real `HelperApp`s (= `query::Processor` + the production `RequestHandler`s of app.rs) x 1..3 shards,
// wired with `InMemoryMpcNetwork` (one per shard) and `InMemoryShardNetwork`, the way `TestApp` and the processor
// unit tests do. Between every transport listener and the real handler sits `Wrap`, which (a) lets a chosen peer reject
// one `prepare` (failed-create histories) or park it until the harness says `Release` (coordinator visible in
// "preparing"), (b) releases every answer to a `prepare` that came over the MPC network 4 virtual ms after the request
// arrived, so that both followers answer the coordinator at the same instant and its `try_join` never drops the
// acknowledgement of the follower that is still working (`in_memory/transport.rs` unwraps the ack send, i.e. the listener
// would die: an artefact of the test transport), and (c) notes which nodes answered complete / kill: the driver then
// clears the stream tables of that node, which is what the production HTTP transport does (`ClearOnDrop` in
// net/transport.rs) and what `TestApp::complete_query` does by hand.
//
// Oracle: `Model`, a reference automaton per (helper, shard) {absent, awaiting inputs, running, awaiting completion,
// completed} (+ "preparing", visible only while a peer is slow to answer) written from the documentation of
// processor.rs/state.rs,
// plus the status meet. Every API call is issued as its own task, then the runtime is run until idle (paused clock),
// so "the query task is done" is a function of the history: all three helpers of that shard column were given inputs.
// The response class of every call, every pending call that must / must not resolve, and a final status read of every
// node are compared with the automaton.

use std::{
    sync::{Arc, Mutex},
    time::Duration,
};

use async_trait::async_trait;
use serde_json::json;

use super::vlib::{self, Paused, Recorder, VRng, catch_fut};
use crate::{
    AppConfig, AppSetup, HelperApp,
    cli::{LoggingHandle, install_collector},
    ff::FieldType,
    helpers::{
        ApiError, BodyStream, HandlerBox, HandlerRef, HelperIdentity, HelperResponse,
        InMemoryMpcNetwork, InMemoryShardNetwork, RequestHandler, Role, RoleAssignment,
        query::{CompareStatusRequest, HybridQueryParams, PrepareQuery, QueryConfig, QueryType},
        routing::{Addr, RouteId},
    },
    protocol::QueryId,
    query::{
        NewQueryError, PrepareQueryError, QueryCompletionError, QueryInputError, QueryKillStatus,
        QueryStatus, QueryStatusError,
    },
    sharding::ShardIndex,
};

// ---------------------------------------------------------------------------------------------
// panic log (panics inside spawned tasks are swallowed by tokio; the hook still sees them)
// ---------------------------------------------------------------------------------------------

static PANICS: Mutex<Vec<(String, String)>> = Mutex::new(Vec::new());
/// set while a history runs: panics of the helpers are then data (logged here), not noise on stderr
static IN_WORLD: std::sync::atomic::AtomicBool = std::sync::atomic::AtomicBool::new(false);

fn install_panic_log() {
    static ONCE: std::sync::Once = std::sync::Once::new();
    vlib::quiet_panics();
    ONCE.call_once(|| {
        let prev = std::panic::take_hook();
        std::panic::set_hook(Box::new(move |info| {
            let loc = info
                .location()
                .map(|l| format!("{}:{}", l.file(), l.line()))
                .unwrap_or_default();
            let msg = vlib::panic_message(info.payload());
            let harness = loc.contains("harness/");
            if let Ok(mut g) = PANICS.lock() {
                if g.len() < 64 {
                    g.push((loc, msg));
                }
            }
            if harness || !IN_WORLD.load(std::sync::atomic::Ordering::Relaxed) {
                prev(info);
            }
        }));
    });
}

fn take_panics() -> Vec<(String, String)> {
    std::mem::take(&mut *PANICS.lock().unwrap())
}

// ---------------------------------------------------------------------------------------------
// world
// ---------------------------------------------------------------------------------------------

#[derive(Default)]
struct Ctl {
    /// nodes (h, s, flavour) that reject the next PrepareQuery arriving over the network (one shot)
    reject_once: Vec<(usize, usize, bool)>,
    /// nodes (h, s, flavour) that park the next PrepareQuery arriving over the network until `release` (one shot)
    hold_once: Vec<(usize, usize, bool)>,
    /// (h, s) nodes whose handler saw CompleteQuery / KillQuery (=> transports are reset by the driver)
    to_reset: Vec<(usize, usize)>,
    rejected: u32,
}

/// Sits between the in-memory transport listener and the real `HelperApp` handler of one (helper, shard).
struct Wrap<I: crate::helpers::TransportIdentity> {
    inner: HandlerRef<I>,
    h: usize,
    s: usize,
    mpc: bool,
    ctl: Arc<Mutex<Ctl>>,
    release: Arc<tokio::sync::Notify>,
}

#[async_trait]
impl<I: crate::helpers::TransportIdentity> RequestHandler<I> for Wrap<I> {
    async fn handle(&self, req: Addr<I>, data: BodyStream) -> Result<HelperResponse, ApiError> {
        let route = req.route;
        if route == RouteId::PrepareQuery {
            let hit = {
                let mut c = self.ctl.lock().unwrap();
                if let Some(p) = c.reject_once.iter().position(|x| *x == (self.h, self.s, self.mpc)) {
                    c.reject_once.remove(p);
                    c.rejected += 1;
                    true
                } else {
                    false
                }
            };
            if hit {
                tokio::time::sleep(Duration::from_millis(if self.mpc { 4 } else { 1 })).await;
                return Err(ApiError::QueryPrepare(PrepareQueryError::AlreadyRunning));
            }
            let hold = {
                let mut c = self.ctl.lock().unwrap();
                if let Some(p) = c.hold_once.iter().position(|x| *x == (self.h, self.s, self.mpc)) {
                    c.hold_once.remove(p);
                    true
                } else {
                    false
                }
            };
            if hold {
                // the peer is slow: the coordinator stays in "preparing" until the harness releases it
                self.release.notified().await;
            }
        }
        let t0 = tokio::time::Instant::now();
        let r = self.inner.handle(req, data).await;
        if matches!(route, RouteId::CompleteQuery | RouteId::KillQuery) && forgets(&r) {
            self.ctl.lock().unwrap().to_reset.push((self.h, self.s));
        }
        if route == RouteId::PrepareQuery && self.mpc {
            // both followers answer the coordinator at the same virtual instant (see module comment)
            tokio::time::sleep_until(t0 + Duration::from_millis(4)).await;
        }
        r
    }
}

/// complete / kill answered in a way that means "this node no longer has the query"
fn forgets(r: &Result<HelperResponse, ApiError>) -> bool {
    matches!(r, Ok(_) | Err(ApiError::QueryCompletion(QueryCompletionError::ExecutionError(_))))
}

struct World {
    shards: usize,
    apps: Vec<Vec<HelperApp>>,                  // [h][s]
    mpc_h: Vec<Vec<HandlerRef<HelperIdentity>>>, // real handlers [h][s]
    shard_h: Vec<Vec<HandlerRef<ShardIndex>>>,
    mpc_nets: Vec<InMemoryMpcNetwork>, // per shard
    shard_net: InMemoryShardNetwork,
    _keep_mpc: Vec<Arc<dyn RequestHandler<HelperIdentity>>>,
    _keep_shard: Vec<Arc<dyn RequestHandler<ShardIndex>>>,
    ctl: Arc<Mutex<Ctl>>,
    release: Arc<tokio::sync::Notify>,
}

impl World {
    fn new(shards: usize) -> World {
        let ids = HelperIdentity::make_three();
        let ctl = Arc::new(Mutex::new(Ctl::default()));
        let release = Arc::new(tokio::sync::Notify::new());
        let mut setups: Vec<Vec<Option<AppSetup>>> = Vec::new();
        let mut mpc_h = Vec::new();
        let mut shard_h = Vec::new();
        for _h in 0..3 {
            let mut a = Vec::new();
            let mut b = Vec::new();
            let mut c = Vec::new();
            for _s in 0..shards {
                let (setup, mh, sh) = AppSetup::new(AppConfig::default());
                a.push(Some(setup));
                b.push(mh);
                c.push(sh);
            }
            setups.push(a);
            mpc_h.push(b);
            shard_h.push(c);
        }
        let mut keep_mpc: Vec<Arc<dyn RequestHandler<HelperIdentity>>> = Vec::new();
        let mut keep_shard: Vec<Arc<dyn RequestHandler<ShardIndex>>> = Vec::new();
        let mut mpc_nets = Vec::new();
        for s in 0..shards {
            let hs: [Option<HandlerRef<HelperIdentity>>; 3] = std::array::from_fn(|h| {
                let w: Arc<dyn RequestHandler<HelperIdentity>> = Arc::new(Wrap {
                    inner: mpc_h[h][s].clone(),
                    h,
                    s,
                    mpc: true,
                    ctl: Arc::clone(&ctl),
                    release: Arc::clone(&release),
                });
                let r = HandlerBox::owning_ref(&w);
                keep_mpc.push(w);
                Some(r)
            });
            mpc_nets.push(InMemoryMpcNetwork::new(hs));
        }
        // with_shards_and_handlers calls the factory for helper 0's shards first, then helper 1's, ...
        let counter = std::cell::Cell::new(0usize);
        let keep_cell = std::cell::RefCell::new(Vec::new());
        let (shard_net, _hs) = InMemoryShardNetwork::with_shards_and_handlers(shards as u32, |si| {
            let k = counter.get();
            counter.set(k + 1);
            let (h, s) = (k / shards, k % shards);
            assert_eq!(usize::from(si), s);
            let w: Arc<dyn RequestHandler<ShardIndex>> = Arc::new(Wrap {
                inner: shard_h[h][s].clone(),
                h,
                s,
                mpc: false,
                ctl: Arc::clone(&ctl),
                release: Arc::clone(&release),
            });
            keep_cell.borrow_mut().push(Arc::clone(&w));
            w
        });
        keep_shard.extend(keep_cell.into_inner());
        let mut apps = Vec::new();
        for h in 0..3 {
            let mut v = Vec::new();
            for s in 0..shards {
                let setup = setups[h][s].take().unwrap();
                let logging_handle = LoggingHandle { metrics_handle: install_collector().unwrap() };
                v.push(setup.connect(
                    mpc_nets[s].transport(ids[h]),
                    shard_net.transport(ids[h], s as u32),
                    logging_handle,
                ));
            }
            apps.push(v);
        }
        World { shards, apps, mpc_h, shard_h, mpc_nets, shard_net, _keep_mpc: keep_mpc, _keep_shard: keep_shard, ctl, release }
    }

    fn reset_node(&self, h: usize, s: usize) {
        self.mpc_nets[s].transports[h].reset();
        self.shard_net.shard_network[h][s].reset();
    }
}


// ---------------------------------------------------------------------------------------------
// calls and responses
// ---------------------------------------------------------------------------------------------

#[derive(Clone, Copy, PartialEq, Eq, Hash, Debug, PartialOrd, Ord)]
enum Op {
    NewQuery,
    PrepHelper,
    PrepShard,
    Inputs,
    Status,
    ShardStatus,
    Complete,
    Kill,
    /// not an API call: lets the peer that was parked on a prepare answer
    Release,
}

/// `h`: 0 = coordinator, 1 = follower with role H2, 2 = follower with role H3; `s`: shard (0 = leader).
#[derive(Clone, Copy, PartialEq, Eq, Hash, Debug, PartialOrd, Ord)]
struct Call {
    op: Op,
    h: u8,
    s: u8,
    /// ShardStatus: index into ST_ALL of the status the (pretended) leader claims
    arg: u8,
}

const ST_ALL: [QueryStatus; 5] = [
    QueryStatus::Preparing,
    QueryStatus::AwaitingInputs,
    QueryStatus::Running,
    QueryStatus::AwaitingCompletion,
    QueryStatus::Completed,
];

fn st_name(s: QueryStatus) -> &'static str {
    match s {
        QueryStatus::Preparing => "preparing",
        QueryStatus::AwaitingInputs => "awaiting_inputs",
        QueryStatus::Running => "running",
        QueryStatus::AwaitingCompletion => "awaiting_completion",
        QueryStatus::Completed => "completed",
    }
}

#[derive(Clone, Copy, PartialEq, Eq, Hash, Debug)]
enum Kind {
    MulOk,
    AddOk,
    AddBadLen,
    HybridErr,
    MulBadLen,
}

impl Kind {
    fn name(self) -> &'static str {
        match self {
            Kind::MulOk => "multiply/good",
            Kind::AddOk => "add/good",
            Kind::AddBadLen => "add/wrong-length",
            Kind::HybridErr => "hybrid/unsupported",
            Kind::MulBadLen => "multiply/wrong-length",
        }
    }
    fn config(self) -> QueryConfig {
        match self {
            Kind::MulOk | Kind::MulBadLen => QueryConfig::new(QueryType::TestMultiply, FieldType::Fp31, 1).unwrap(),
            Kind::AddOk | Kind::AddBadLen => {
                QueryConfig::new(QueryType::TestAddInPrimeField, FieldType::Fp31, 1).unwrap()
            }
            Kind::HybridErr => QueryConfig::new(
                QueryType::MaliciousHybrid(HybridQueryParams { plaintext_match_keys: true, ..Default::default() }),
                FieldType::Fp31,
                1,
            )
            .unwrap(),
        }
    }
    /// Input of the helper with role index `role` (0..3): replicated shares of a = 4, b = 5 over Fp31.
    fn input(self, role: usize) -> Vec<u8> {
        const A: [u8; 3] = [1, 2, 1];
        const B: [u8; 3] = [2, 2, 1];
        let good = vec![A[role], A[(role + 1) % 3], B[role], B[(role + 1) % 3]];
        match self {
            Kind::MulOk | Kind::AddOk => good,
            Kind::AddBadLen | Kind::MulBadLen => good[..3].to_vec(),
            Kind::HybridErr => Vec::new(),
        }
    }
    /// value the three result shares must reconstruct to (None: not checked)
    fn expect(self) -> Option<u8> {
        match self {
            Kind::MulOk => Some(20),
            Kind::AddOk => Some(9),
            _ => None,
        }
    }
}

#[derive(Clone, PartialEq, Eq, Debug)]
enum Resp {
    Ok,
    Status(QueryStatus),
    Bytes(Vec<u8>),
    Err(String),
    Pending,
    Panic(String),
}

impl Resp {
    fn class(&self) -> String {
        match self {
            Resp::Ok => "ok".into(),
            Resp::Status(s) => format!("ok:{}", st_name(*s)),
            Resp::Bytes(_) => "ok:result".into(),
            Resp::Err(e) => format!("err:{e}"),
            Resp::Pending => "pending".into(),
            Resp::Panic(_) => "panic".into(),
        }
    }
}

fn dbg_head<T: std::fmt::Debug>(t: &T) -> String {
    let s = format!("{t:?}");
    s.split(|c: char| !(c.is_alphanumeric() || c == '_')).next().unwrap_or("").to_string()
}

fn classify_err(e: &ApiError) -> String {
    match e {
        ApiError::NewQuery(NewQueryError::State(s)) => format!("NewQuery::State({})", dbg_head(s)),
        ApiError::NewQuery(NewQueryError::MpcTransport(_)) => "NewQuery::MpcTransport".into(),
        ApiError::NewQuery(NewQueryError::ShardBroadcastError(_)) => "NewQuery::ShardBroadcast".into(),
        ApiError::QueryPrepare(PrepareQueryError::WrongTarget) => "Prepare::WrongTarget".into(),
        ApiError::QueryPrepare(PrepareQueryError::NotLeader(_)) => "Prepare::NotLeader".into(),
        ApiError::QueryPrepare(PrepareQueryError::Leader) => "Prepare::Leader".into(),
        ApiError::QueryPrepare(PrepareQueryError::AlreadyRunning) => "Prepare::AlreadyRunning".into(),
        ApiError::QueryPrepare(PrepareQueryError::StateError { source }) => format!("Prepare::State({})", dbg_head(source)),
        ApiError::QueryPrepare(PrepareQueryError::ShardBroadcastError(_)) => "Prepare::ShardBroadcast".into(),
        ApiError::QueryInput(QueryInputError::NoSuchQuery(_)) => "Input::NoSuchQuery".into(),
        ApiError::QueryInput(QueryInputError::StateError { source }) => format!("Input::State({})", dbg_head(source)),
        ApiError::QueryStatus(QueryStatusError::NoSuchQuery(_)) => "Status::NoSuchQuery".into(),
        ApiError::QueryStatus(QueryStatusError::ShardBroadcastError(_)) => "Status::ShardBroadcast".into(),
        ApiError::QueryStatus(QueryStatusError::NotLeader(_)) => "Status::NotLeader".into(),
        ApiError::QueryStatus(QueryStatusError::Leader) => "Status::Leader".into(),
        ApiError::QueryStatus(QueryStatusError::DifferentStatus { my_status, .. }) => {
            format!("Status::Different({})", st_name(*my_status))
        }
        ApiError::QueryCompletion(QueryCompletionError::NoSuchQuery(_)) => "Complete::NoSuchQuery".into(),
        ApiError::QueryCompletion(QueryCompletionError::StateError { source }) => {
            format!("Complete::State({})", dbg_head(source))
        }
        ApiError::QueryCompletion(QueryCompletionError::ExecutionError(_)) => "Complete::ExecutionError".into(),
        ApiError::QueryCompletion(QueryCompletionError::ShardError(_)) => "Complete::ShardError".into(),
        ApiError::QueryKill(QueryKillStatus::NoSuchQuery(_)) => "Kill::NoSuchQuery".into(),
        ApiError::DeserializationFailure(_) => "Deserialization".into(),
        ApiError::BadRequest(_) => "BadRequest".into(),
    }
}

type CallOut = Result<Result<HelperResponse, ApiError>, String>;

fn to_resp(op: Op, out: CallOut) -> Resp {
    match out {
        Err(p) => Resp::Panic(p),
        Ok(Err(e)) => Resp::Err(classify_err(&e)),
        Ok(Ok(r)) => match op {
            Op::Status | Op::ShardStatus => {
                let body = r.into_body();
                let v: serde_json::Value = serde_json::from_slice(&body).unwrap_or(serde_json::Value::Null);
                match serde_json::from_value::<QueryStatus>(v["status"].clone()) {
                    Ok(s) => Resp::Status(s),
                    Err(_) => Resp::Err(format!("unparsable status body {}", String::from_utf8_lossy(&body))),
                }
            }
            Op::Complete => Resp::Bytes(r.into_body()),
            _ => Resp::Ok,
        },
    }
}

struct Exec<'a> {
    w: &'a World,
    coord: usize,
    kind: Kind,
    pending: Vec<(usize, Call, tokio::task::JoinHandle<CallOut>)>,
    step: usize,
    /// result bytes handed out: (h, s, bytes)
    results: Vec<(u8, u8, Vec<u8>)>,
}

impl<'a> Exec<'a> {
    fn new(w: &'a World, coord: usize, kind: Kind) -> Self {
        Exec { w, coord, kind, pending: Vec::new(), step: 0, results: Vec::new() }
    }
    fn phys(&self, h: u8) -> usize {
        (self.coord + h as usize) % 3
    }
    fn prepare_req(&self) -> PrepareQuery {
        let ids = HelperIdentity::make_three();
        let c = ids[self.coord];
        let [right, left] = c.others();
        PrepareQuery {
            query_id: QueryId,
            config: self.kind.config(),
            roles: RoleAssignment::try_from([(c, Role::H1), (right, Role::H2), (left, Role::H3)]).unwrap(),
        }
    }

    /// Start `call` as its own task (so that a call that cannot finish yet stays pending).
    fn start(&mut self, call: Call) -> tokio::task::JoinHandle<CallOut> {
        let ids = HelperIdentity::make_three();
        let (h, s) = (self.phys(call.h), call.s as usize);
        let mh = self.w.mpc_h[h][s].clone();
        let sh = self.w.shard_h[h][s].clone();
        let ctl = Arc::clone(&self.w.ctl);
        let prep = self.prepare_req();
        let cfg = self.kind.config();
        let input = self.kind.input(call.h as usize);
        let coord_id = ids[self.coord];
        let leader = s == 0;
        let release = Arc::clone(&self.w.release);
        let fut = async move {
            let r = match call.op {
                Op::NewQuery => mh.handle(Addr::<HelperIdentity>::from_route(None, &cfg), BodyStream::empty()).await,
                Op::PrepHelper => {
                    mh.handle(Addr::<HelperIdentity>::from_route(Some(coord_id), prep), BodyStream::empty()).await
                }
                Op::PrepShard => {
                    sh.handle(Addr::<ShardIndex>::from_route(Some(ShardIndex::FIRST), prep), BodyStream::empty()).await
                }
                Op::Inputs => {
                    mh.handle(
                        Addr::<HelperIdentity>::from_route(None, (RouteId::QueryInput, QueryId)),
                        BodyStream::from(input),
                    )
                    .await
                }
                Op::Status => {
                    mh.handle(Addr::<HelperIdentity>::from_route(None, (RouteId::QueryStatus, QueryId)), BodyStream::empty())
                        .await
                }
                Op::ShardStatus => {
                    let req = CompareStatusRequest { query_id: QueryId, status: ST_ALL[call.arg as usize % 5] };
                    sh.handle(Addr::<ShardIndex>::from_route(Some(ShardIndex::FIRST), req), BodyStream::empty()).await
                }
                Op::Complete => {
                    if leader {
                        mh.handle(
                            Addr::<HelperIdentity>::from_route(None, (RouteId::CompleteQuery, QueryId)),
                            BodyStream::empty(),
                        )
                        .await
                    } else {
                        // the way the leader shard does it
                        sh.handle(
                            Addr::<ShardIndex>::from_route(Some(ShardIndex::FIRST), (RouteId::CompleteQuery, QueryId)),
                            BodyStream::empty(),
                        )
                        .await
                    }
                }
                Op::Kill => {
                    mh.handle(Addr::<HelperIdentity>::from_route(None, (RouteId::KillQuery, QueryId)), BodyStream::empty())
                        .await
                }
                Op::Release => {
                    release.notify_one();
                    Ok(HelperResponse::ok())
                }
            };
            if matches!(call.op, Op::Complete | Op::Kill) && forgets(&r) {
                // the production HTTP transport clears its stream table after these two requests
                ctl.lock().unwrap().to_reset.push((h, s));
            }
            r
        };
        tokio::spawn(catch_fut(fut))
    }

    async fn quiesce(&mut self) {
        vlib::settle().await;
        // delayed answers to prepare (a few virtual ms) and everything they unblock
        tokio::time::sleep(Duration::from_millis(20)).await;
        let resets = std::mem::take(&mut self.w.ctl.lock().unwrap().to_reset);
        for (h, s) in resets {
            self.w.reset_node(h, s);
        }
    }

    /// Issue a call, run until idle, return its response (or Pending).
    async fn issue(&mut self, call: Call) -> Resp {
        self.step += 1;
        let jh = self.start(call);
        self.quiesce().await;
        if jh.is_finished() {
            match jh.await {
                Ok(out) => to_resp(call.op, out),
                Err(e) => Resp::Panic(format!("join error: {e}")),
            }
        } else {
            self.pending.push((self.step, call, jh));
            Resp::Pending
        }
    }

    /// Calls that were pending and have finished by now: (step issued, call, response).
    async fn resolved(&mut self) -> Vec<(usize, Call, Resp)> {
        let mut out = Vec::new();
        let mut keep = Vec::new();
        for (st, c, jh) in std::mem::take(&mut self.pending) {
            if jh.is_finished() {
                let r = match jh.await {
                    Ok(o) => to_resp(c.op, o),
                    Err(e) => Resp::Panic(format!("join error: {e}")),
                };
                out.push((st, c, r));
            } else {
                keep.push((st, c, jh));
            }
        }
        self.pending = keep;
        if !out.is_empty() {
            // a resolved complete asks for a reset
            let resets = std::mem::take(&mut self.w.ctl.lock().unwrap().to_reset);
            for (h, s) in resets {
                self.w.reset_node(h, s);
            }
        }
        out
    }
}


// ---------------------------------------------------------------------------------------------
// reference automaton
// ---------------------------------------------------------------------------------------------

#[derive(Clone, Copy, PartialEq, Eq, Hash, Debug, PartialOrd, Ord)]
enum MS {
    Absent,
    Preparing,
    Awaiting,
    Running,
    AwaitCompl,
    Completed,
}

impl MS {
    fn name(self) -> &'static str {
        match self {
            MS::Absent => "absent",
            MS::Preparing => "preparing",
            MS::Awaiting => "awaiting_inputs",
            MS::Running => "running",
            MS::AwaitCompl => "awaiting_completion",
            MS::Completed => "completed",
        }
    }
}

#[derive(Clone, Copy, PartialEq, Eq, Hash, Debug)]
struct MNode {
    st: MS,
    /// one of our `complete` calls is parked on this node
    pend: bool,
    /// absent or awaiting inputs: a prepare that was accepted here belongs to a create that failed elsewhere
    /// (processor.rs documents the missing rollback with TODOs); settled by a side-effect free probe
    unsure: bool,
}

/// One shard column = the three helpers' nodes of one shard = one MPC network.
#[derive(Clone, Copy, PartialEq, Eq, Hash, Debug, Default)]
struct MCol {
    /// node was given inputs in the current round (its query task takes part in it)
    fed: [bool; 3],
    /// node finished the round and its stream tables were cleared
    left: [bool; 3],
    /// a task of this column was aborted / orphaned or streams were lost: task progress is unknown from here on
    taint: bool,
}

#[derive(Clone, PartialEq, Eq, Hash, Debug)]
struct Model {
    shards: usize,
    kind: Kind,
    n: [[MNode; 3]; 3],
    col: [MCol; 3],
    /// (h, s, mpc-side?) rejects the next prepare that reaches it over the network
    reject: Option<(u8, u8, bool)>,
    /// the history reached something this model does not describe (a transport listener parked on a request)
    boundary: bool,
    zombies: u8,
    /// follower (1 or 2) whose MPC-side handler parks the next prepare it receives over the network
    hold: Option<u8>,
    /// a create is parked in "preparing": waiting for this follower
    parked: Option<u8>,
}

#[derive(Clone, Debug)]
enum Probe {
    /// node is absent or awaiting inputs; `complete` tells which without changing anything
    Unsure(u8, u8),
    /// leader handed out the result from the completed state: is the finished shard forgotten as well?
    ShardForgotten(u8, u8),
    /// leader's complete was rejected because of a shard: did the leader keep its state?
    LeaderKept(u8, bool),
}

#[derive(Clone, Debug)]
struct Outcome {
    class: String,
    next: Model,
    /// parked completes that have to return in this step: (h, s, allowed classes)
    resolves: Vec<(u8, u8, Vec<String>)>,
    probes: Vec<Probe>,
}

fn rank(s: QueryStatus) -> usize {
    ST_ALL.iter().position(|x| *x == s).unwrap()
}

/// The status lattice, written independently of `min_status`: the least advanced status.
fn meet(a: QueryStatus, b: QueryStatus) -> QueryStatus {
    if rank(a) <= rank(b) { a } else { b }
}

impl Model {
    fn new(shards: usize, kind: Kind, reject: Option<(u8, u8, bool)>, hold: Option<u8>) -> Model {
        Model {
            shards,
            kind,
            n: [[MNode { st: MS::Absent, pend: false, unsure: false }; 3]; 3],
            col: [MCol::default(); 3],
            reject,
            boundary: false,
            zombies: 0,
            hold,
            parked: None,
        }
    }

    /// Calls the harness does not issue: they would leave the in-memory test transport with a dead or doubly
    /// parked listener (an artefact of that transport, not of the helpers).
    fn unsupported(&self, call: Call) -> bool {
        if call.op != Op::NewQuery || call.s != 0 || self.n[0][0].st != MS::Absent {
            return false;
        }
        if self.parked.is_some() {
            return true;
        }
        if let Some(f) = self.hold {
            let g = 3 - f as usize;
            let mut m = self.clone();
            return !m.sim_prepare_helper(g, true).0;
        }
        false
    }

    fn tainted(&self) -> bool {
        self.col.iter().any(|c| c.taint) || self.zombies > 0
    }

    fn result_classes(&self) -> Vec<String> {
        match self.kind {
            Kind::MulOk | Kind::AddOk => vec!["ok:result".into()],
            Kind::HybridErr => vec!["err:Complete::ExecutionError".into()],
            // the runner's documentation does not say what a trailing partial record does
            Kind::AddBadLen | Kind::MulBadLen => vec!["ok:result".into(), "err:Complete::ExecutionError".into()],
        }
    }

    /// Has the query task of a node that was given inputs returned? None = unknown (tainted column).
    fn done(&self, _h: usize, s: usize) -> Option<bool> {
        let c = &self.col[s];
        if c.taint { None } else { Some(c.fed == [true; 3]) }
    }

    fn leave(&mut self, h: usize, s: usize) {
        let c = &mut self.col[s];
        c.left[h] = true;
        if !c.taint && c.fed == [true; 3] && c.left == [true; 3] {
            *c = MCol::default();
        }
    }

    fn fed_count(&self, s: usize) -> usize {
        self.col[s].fed.iter().filter(|x| **x).count()
    }

    /// Possible statuses a read of this node yields (empty = no such query).
    fn status_set(&self, h: usize, s: usize) -> Vec<QueryStatus> {
        match self.n[h][s].st {
            MS::Absent => vec![],
            MS::Preparing => vec![QueryStatus::Preparing],
            MS::Awaiting => vec![QueryStatus::AwaitingInputs],
            MS::AwaitCompl => vec![QueryStatus::AwaitingCompletion],
            MS::Completed => vec![QueryStatus::Completed],
            MS::Running => match self.done(h, s) {
                Some(true) => vec![QueryStatus::Completed],
                Some(false) => vec![QueryStatus::Running],
                None => vec![QueryStatus::Running, QueryStatus::Completed],
            },
        }
    }

    /// A status read moves a finished running query to completed.
    fn convert(&mut self, h: usize, s: usize) {
        if self.n[h][s].st == MS::Running && self.done(h, s) == Some(true) {
            self.n[h][s].st = MS::Completed;
        }
    }

    fn same(&self, class: &str) -> Vec<Outcome> {
        vec![Outcome { class: class.into(), next: self.clone(), resolves: vec![], probes: vec![] }]
    }

    /// prepare_helper at follower leader `f`; `net`: arrives over the MPC network (through the rejecting wrapper).
    /// Returns (accepted, shards that accepted although the request as a whole failed).
    fn sim_prepare_helper(&mut self, f: usize, net: bool) -> (bool, Option<&'static str>) {
        if net && self.reject == Some((f as u8, 0, true)) {
            self.reject = None;
            return (false, None);
        }
        if self.n[f][0].st != MS::Absent {
            return (false, Some("err:Prepare::AlreadyRunning"));
        }
        let mut ok = true;
        let mut accepted = vec![];
        for s in 1..self.shards {
            if self.reject == Some((f as u8, s as u8, false)) {
                self.reject = None;
                ok = false;
            } else if self.n[f][s].st == MS::Absent {
                self.n[f][s].st = MS::Awaiting;
                accepted.push(s);
            } else {
                ok = false;
            }
        }
        if ok {
            self.n[f][0].st = MS::Awaiting;
            (true, None)
        } else {
            for s in accepted {
                self.n[f][s].unsure = true;
            }
            (false, Some("err:Prepare::ShardBroadcast"))
        }
    }

    fn unsure_probes(&self) -> Vec<Probe> {
        let mut v = vec![];
        for h in 0..3 {
            for s in 0..self.shards {
                if self.n[h][s].unsure {
                    v.push(Probe::Unsure(h as u8, s as u8));
                }
            }
        }
        v
    }

    /// Node `(h, s)` is given inputs: bookkeeping of the column round; returns the parked completes that resolve.
    fn feed(&mut self, h: usize, s: usize) -> Vec<(u8, u8, Vec<String>)> {
        let mut res = vec![];
        {
            let c = &mut self.col[s];
            if c.fed[h] {
                // second task of this node in a round whose leftovers are still around
                c.taint = true;
            }
            c.fed[h] = true;
            c.left[h] = false;
        }
        self.n[h][s].st = MS::Running;
        if !self.col[s].taint && self.col[s].fed == [true; 3] {
            for hh in 0..3 {
                if self.n[hh][s].st == MS::AwaitCompl && self.n[hh][s].pend {
                    res.push((hh as u8, s as u8, self.result_classes()));
                    self.n[hh][s] = MNode { st: MS::Absent, pend: false, unsure: false };
                    self.leave(hh, s);
                }
            }
        }
        res
    }

    fn predict(&self, call: Call) -> Vec<Outcome> {
        let (h, s) = (call.h as usize, call.s as usize);
        let leader = s == 0;
        let node = self.n[h][s];
        match call.op {
            Op::NewQuery => {
                if node.st != MS::Absent {
                    return self.same("err:NewQuery::State(AlreadyRunning)");
                }
                if !leader {
                    // the followers' nodes of this column are not shard leaders and refuse
                    return self.same("err:NewQuery::MpcTransport");
                }
                if let Some(f) = self.hold {
                    // the other follower answers, this one is parked: the create stays in "preparing"
                    let mut m = self.clone();
                    let g = 3 - f as usize;
                    let (ok, _) = m.sim_prepare_helper(g, true);
                    debug_assert!(ok, "unsupported() filters this");
                    m.hold = None;
                    m.parked = Some(f);
                    m.n[0][0].st = MS::Preparing;
                    m.n[0][0].pend = true;
                    return vec![Outcome { class: "pending".into(), next: m, resolves: vec![], probes: vec![] }];
                }
                let mut m = self.clone();
                let mut all = true;
                let mut took = [false; 3];
                for f in [2usize, 1] {
                    let (ok, _) = m.sim_prepare_helper(f, true);
                    took[f] = ok;
                    all &= ok;
                }
                if !all {
                    for f in 1..3 {
                        if took[f] {
                            for s2 in 0..m.shards {
                                m.n[f][s2].unsure = true;
                            }
                        }
                    }
                    let probes = m.unsure_probes();
                    return vec![Outcome { class: "err:NewQuery::MpcTransport".into(), next: m, resolves: vec![], probes }];
                }
                let mut ok = true;
                let mut accepted = vec![];
                for s2 in 1..m.shards {
                    if m.reject == Some((h as u8, s2 as u8, false)) {
                        m.reject = None;
                        ok = false;
                    } else if m.n[h][s2].st == MS::Absent {
                        m.n[h][s2].st = MS::Awaiting;
                        accepted.push(s2);
                    } else {
                        ok = false;
                    }
                }
                if !ok {
                    for s2 in accepted {
                        m.n[h][s2].unsure = true;
                    }
                    for f in 1..3 {
                        for s2 in 0..m.shards {
                            m.n[f][s2].unsure = true;
                        }
                    }
                    let probes = m.unsure_probes();
                    return vec![Outcome { class: "err:NewQuery::ShardBroadcast".into(), next: m, resolves: vec![], probes }];
                }
                m.n[h][0].st = MS::Awaiting;
                vec![Outcome { class: "ok".into(), next: m, resolves: vec![], probes: vec![] }]
            }
            Op::PrepHelper => {
                if h == 0 {
                    let mut v = self.same("err:Prepare::WrongTarget");
                    if !leader {
                        // two reasons apply; the documentation does not rank them
                        v.extend(self.same("err:Prepare::NotLeader"));
                    }
                    return v;
                }
                if !leader {
                    return self.same("err:Prepare::NotLeader");
                }
                let mut m = self.clone();
                let (ok, why) = m.sim_prepare_helper(h, false);
                let probes = m.unsure_probes();
                let class = if ok { "ok".to_string() } else { why.unwrap().to_string() };
                vec![Outcome { class, next: m, resolves: vec![], probes }]
            }
            Op::PrepShard => {
                if leader {
                    return self.same("err:Prepare::Leader");
                }
                if node.st != MS::Absent {
                    return self.same("err:Prepare::AlreadyRunning");
                }
                let mut m = self.clone();
                m.n[h][s].st = MS::Awaiting;
                vec![Outcome { class: "ok".into(), next: m, resolves: vec![], probes: vec![] }]
            }
            Op::Inputs => match node.st {
                MS::Absent => self.same("err:Input::NoSuchQuery"),
                MS::Awaiting => {
                    let mut m = self.clone();
                    let resolves = m.feed(h, s);
                    vec![Outcome { class: "ok".into(), next: m, resolves, probes: vec![] }]
                }
                _ => self.same("err:Input::State(InvalidState)"),
            },
            Op::Status => {
                if !leader {
                    return self.same("err:Status::NotLeader");
                }
                if node.st == MS::Absent {
                    return self.same("err:Status::NoSuchQuery");
                }
                let mut m = self.clone();
                m.convert(h, 0);
                if (1..self.shards).any(|s2| self.n[h][s2].st == MS::Absent) {
                    // "If one of my shards hasn't received the query yet the leader should return an error"
                    for s2 in 1..self.shards {
                        m.convert(h, s2);
                    }
                    return vec![Outcome { class: "err:Status::ShardBroadcast".into(), next: m, resolves: vec![], probes: vec![] }];
                }
                let mut acc: Vec<QueryStatus> = self.status_set(h, 0);
                for s2 in 1..self.shards {
                    m.convert(h, s2);
                    let other = self.status_set(h, s2);
                    let mut nx = vec![];
                    for a in &acc {
                        for b in &other {
                            let x = meet(*a, *b);
                            if !nx.contains(&x) {
                                nx.push(x);
                            }
                        }
                    }
                    acc = nx;
                }
                acc.into_iter()
                    .map(|st| {
                        let mut m2 = m.clone();
                        if self.shards == 1 && st == QueryStatus::Completed {
                            m2.n[h][0].st = MS::Completed;
                        }
                        Outcome { class: format!("ok:{}", st_name(st)), next: m2, resolves: vec![], probes: vec![] }
                    })
                    .collect()
            }
            Op::ShardStatus => {
                if leader {
                    return self.same("err:Status::Leader");
                }
                if node.st == MS::Absent {
                    return self.same("err:Status::NoSuchQuery");
                }
                let claimed = ST_ALL[call.arg as usize % 5];
                let mut m = self.clone();
                m.convert(h, s);
                self.status_set(h, s)
                    .into_iter()
                    .map(|st| {
                        let mut m2 = m.clone();
                        if st == QueryStatus::Completed {
                            m2.n[h][s].st = MS::Completed;
                        }
                        let class = if st == claimed {
                            format!("ok:{}", st_name(st))
                        } else {
                            format!("err:Status::Different({})", st_name(st))
                        };
                        Outcome { class, next: m2, resolves: vec![], probes: vec![] }
                    })
                    .collect()
            }
            Op::Complete => match node.st {
                MS::Absent => self.same("err:Complete::NoSuchQuery"),
                MS::Preparing | MS::Awaiting | MS::AwaitCompl => self.same("err:Complete::State(InvalidState)"),
                MS::Completed => {
                    let mut m = self.clone();
                    m.n[h][s] = MNode { st: MS::Absent, pend: false, unsure: false };
                    m.leave(h, s);
                    let mut probes = vec![];
                    if leader {
                        for s2 in 1..self.shards {
                            let fin = self.n[h][s2].st == MS::Completed
                                || (self.n[h][s2].st == MS::Running && self.done(h, s2) == Some(true));
                            if fin {
                                // results were handed out: the helper forgets the query (all of it);
                                // applied when the probe confirms it
                                probes.push(Probe::ShardForgotten(h as u8, s2 as u8));
                            }
                        }
                    }
                    self.result_classes()
                        .into_iter()
                        .map(|class| Outcome { class, next: m.clone(), resolves: vec![], probes: probes.clone() })
                        .collect()
                }
                MS::Running => {
                    let finish = |m: &Model| -> Vec<Outcome> {
                        // the node waits for its own task
                        let mut outs = vec![];
                        let d = m.done(h, s);
                        if d != Some(false) {
                            let mut m2 = m.clone();
                            m2.n[h][s] = MNode { st: MS::Absent, pend: false, unsure: false };
                            m2.leave(h, s);
                            for class in m.result_classes() {
                                outs.push(Outcome { class, next: m2.clone(), resolves: vec![], probes: vec![] });
                            }
                        }
                        if d != Some(true) {
                            let mut m2 = m.clone();
                            m2.n[h][s] = MNode { st: MS::AwaitCompl, pend: true, unsure: false };
                            outs.push(Outcome { class: "pending".into(), next: m2, resolves: vec![], probes: vec![] });
                        }
                        outs
                    };
                    if !leader || self.shards == 1 {
                        return finish(self);
                    }
                    // leader of a sharded helper: tells the shards first
                    let mut m = self.clone();
                    let mut any_err = false;
                    for s2 in 1..self.shards {
                        match self.n[h][s2].st {
                            MS::Absent | MS::Preparing | MS::Awaiting | MS::AwaitCompl => any_err = true,
                            MS::Completed => {
                                m.n[h][s2] = MNode { st: MS::Absent, pend: false, unsure: false };
                                m.leave(h, s2);
                            }
                            MS::Running => {
                                if self.done(h, s2) == Some(true) {
                                    m.n[h][s2] = MNode { st: MS::Absent, pend: false, unsure: false };
                                    m.leave(h, s2);
                                } else {
                                    // the shard's listener parks on the request: not modelled
                                    let mut b = self.clone();
                                    b.boundary = true;
                                    return vec![
                                        Outcome { class: "pending".into(), next: b.clone(), resolves: vec![], probes: vec![] },
                                        Outcome { class: "err:Complete::ShardError".into(), next: b, resolves: vec![], probes: vec![] },
                                    ];
                                }
                            }
                        }
                    }
                    if self.col[0].taint {
                        let mut b = self.clone();
                        b.boundary = true;
                        return ["pending", "ok:result", "err:Complete::ExecutionError", "err:Complete::ShardError"]
                            .iter()
                            .map(|c| Outcome { class: (*c).into(), next: b.clone(), resolves: vec![], probes: vec![] })
                            .collect();
                    }
                    if any_err {
                        // rejected: the leader's state is expected to be what it was
                        let was_done = self.done(h, 0) == Some(true);
                        return vec![Outcome {
                            class: "err:Complete::ShardError".into(),
                            next: m,
                            resolves: vec![],
                            probes: vec![Probe::LeaderKept(h as u8, was_done)],
                        }];
                    }
                    finish(&m)
                }
            },
            Op::Kill => {
                if node.st == MS::Absent {
                    return self.same("err:Kill::NoSuchQuery");
                }
                let mut m = self.clone();
                let nf = self.fed_count(s);
                match node.st {
                    MS::Running | MS::AwaitCompl => {
                        if self.done(h, s) == Some(true) {
                            m.leave(h, s);
                        } else {
                            m.col[s].taint = true;
                            if node.pend {
                                m.zombies += 1;
                            }
                        }
                    }
                    MS::Completed => m.leave(h, s),
                    MS::Awaiting | MS::Preparing => {
                        if nf > 0 && nf < 3 {
                            // what the peers already sent to this node is thrown away with its stream table
                            m.col[s].taint = true;
                        }
                    }
                    MS::Absent => unreachable!(),
                }
                m.n[h][s] = MNode { st: MS::Absent, pend: false, unsure: false };
                vec![Outcome { class: "ok".into(), next: m, resolves: vec![], probes: vec![] }]
            }
            Op::Release => {
                let mut m = self.clone();
                m.hold = None;
                let Some(f) = self.parked else {
                    return vec![Outcome { class: "ok".into(), next: m, resolves: vec![], probes: vec![] }];
                };
                m.parked = None;
                m.n[0][0].pend = false;
                // the parked follower handles the prepare now
                let (ok, _) = m.sim_prepare_helper(f as usize, false);
                let g = 3 - f as usize;
                if ok {
                    let classes = if self.n[0][0].st == MS::Preparing {
                        vec!["ok".to_string()]
                    } else {
                        // the create was killed meanwhile; the documentation does not say whether it may still succeed
                        vec!["ok".to_string(), "err:NewQuery::State(InvalidState)".to_string(), "err:NewQuery::State(AlreadyRunning)".to_string()]
                    };
                    m.n[0][0].st = MS::Awaiting;
                    vec![Outcome { class: "ok".into(), next: m, resolves: vec![(0, 0, classes)], probes: vec![] }]
                } else {
                    m.n[0][0] = MNode { st: MS::Absent, pend: false, unsure: false };
                    for s2 in 0..m.shards {
                        // (it may have moved on while the create was parked)
                        if m.n[g][s2].st == MS::Awaiting {
                            m.n[g][s2].unsure = true;
                        }
                    }
                    let probes = m.unsure_probes();
                    vec![Outcome {
                        class: "ok".into(),
                        next: m,
                        resolves: vec![(0, 0, vec!["err:NewQuery::MpcTransport".to_string()])],
                        probes,
                    }]
                }
            }
        }
    }

    /// Feed back the answer of a probe. Err = (what, sig) of a violation; the model follows the observation.
    fn apply_probe(&mut self, p: &Probe, class: &str) -> Result<(), (String, serde_json::Value)> {
        match *p {
            Probe::Unsure(h, s) => {
                let (h, s) = (h as usize, s as usize);
                self.n[h][s].unsure = false;
                match class {
                    "err:Complete::NoSuchQuery" => {
                        self.n[h][s].st = MS::Absent;
                        Ok(())
                    }
                    "err:Complete::State(InvalidState)" => {
                        self.n[h][s].st = MS::Awaiting;
                        Ok(())
                    }
                    other => Err((
                        "node touched by a failed create is neither absent nor awaiting inputs".into(),
                        json!({"kind": "after_failed_create", "probe": other}),
                    )),
                }
            }
            Probe::ShardForgotten(h, s) => {
                let (h, s) = (h as usize, s as usize);
                match class {
                    "err:Status::NoSuchQuery" => {
                        self.n[h][s] = MNode { st: MS::Absent, pend: false, unsure: false };
                        self.leave(h, s);
                        Ok(())
                    }
                    other => {
                        self.n[h][s].st = MS::Completed;
                        Err((
                            "leader handed out the result but a finished shard of the same helper still holds the query".into(),
                            json!({"kind": "shard_not_forgotten_after_complete", "leader_state": "completed",
                                   "shard_probe": other}),
                        ))
                    }
                }
            }
            Probe::LeaderKept(h, was_done) => {
                let h = h as usize;
                if class == "err:Status::NoSuchQuery" {
                    self.n[h][0] = MNode { st: MS::Absent, pend: false, unsure: false };
                    if was_done {
                        self.leave(h, 0);
                    } else {
                        self.col[0].taint = true;
                    }
                    Err((
                        "complete was rejected (a shard refused) but the leader dropped its running query".into(),
                        json!({"kind": "rejected_request_changed_state", "call": "complete",
                               "response": "Complete::ShardError", "before": "running", "after": "absent",
                               "task_finished": was_done}),
                    ))
                } else {
                    self.convert(h, 0);
                    Ok(())
                }
            }
        }
    }

    /// Enumeration only: follow the first outcome and what the code documents for the unsure nodes.
    fn primary(&self, call: Call) -> (String, Model) {
        let o = self.predict(call).into_iter().next().unwrap();
        let mut m = o.next;
        for p in &o.probes {
            match *p {
                Probe::Unsure(h, s) => m.n[h as usize][s as usize].unsure = false,
                Probe::ShardForgotten(..) => {}
                Probe::LeaderKept(h, _) => m.convert(h as usize, 0),
            }
        }
        (o.class, m)
    }

    fn local_key(&self, call: Call) -> String {
        if call.op == Op::Release {
            return format!(
                "Release (parked create: {}, coordinator {})",
                if self.parked.is_some() { "yes" } else { "no" },
                self.n[0][0].st.name()
            );
        }
        let (h, s) = (call.h as usize, call.s as usize);
        let st = self.n[h][s].st;
        let d = if matches!(st, MS::Running | MS::AwaitCompl) {
            match self.done(h, s) {
                Some(true) => "+done",
                Some(false) => "",
                None => "+?",
            }
        } else {
            ""
        };
        let mut k = format!(
            "{:?}@{}{} in {}{}",
            call.op,
            if h == 0 { "coord" } else { "follower" },
            if s == 0 { "/leader" } else { "/shard" },
            st.name(),
            d
        );
        if s == 0 && self.shards > 1 && matches!(call.op, Op::Status | Op::Complete | Op::NewQuery | Op::PrepHelper) {
            let mut o: Vec<&str> = (1..self.shards).map(|s2| self.n[h][s2].st.name()).collect();
            o.sort_unstable();
            o.dedup();
            k.push_str(&format!(" shards={}", o.join("+")));
        }
        k
    }
}

// ---------------------------------------------------------------------------------------------
// running one history against the real helpers and the automaton
// ---------------------------------------------------------------------------------------------

#[derive(Clone, Debug)]
struct Params {
    shards: usize,
    kind: Kind,
    reject: Option<(u8, u8, bool)>,
    coord: usize,
    /// follower whose answer to the first prepare is parked until `Release`
    hold: Option<u8>,
}

fn call_json(c: &Call) -> serde_json::Value {
    json!({"op": format!("{:?}", c.op), "h": c.h, "s": c.s, "arg": c.arg})
}

fn call_from_json(v: &serde_json::Value) -> Option<Call> {
    let op = match v["op"].as_str()? {
        "NewQuery" => Op::NewQuery,
        "PrepHelper" => Op::PrepHelper,
        "PrepShard" => Op::PrepShard,
        "Inputs" => Op::Inputs,
        "Status" => Op::Status,
        "ShardStatus" => Op::ShardStatus,
        "Complete" => Op::Complete,
        "Kill" => Op::Kill,
        "Release" => Op::Release,
        _ => return None,
    };
    Some(Call { op, h: v["h"].as_u64()? as u8, s: v["s"].as_u64()? as u8, arg: v["arg"].as_u64()? as u8 })
}

fn kind_from_name(s: &str) -> Option<Kind> {
    [Kind::MulOk, Kind::AddOk, Kind::AddBadLen, Kind::HybridErr, Kind::MulBadLen].into_iter().find(|k| k.name() == s)
}

fn params_json(p: &Params) -> serde_json::Value {
    json!({"shards": p.shards, "kind": p.kind.name(), "coord": p.coord, "hold": p.hold,
           "reject": p.reject.map(|(h, s, m)| json!({"h": h, "s": s, "mpc_side": m}))})
}

fn params_from_json(v: &serde_json::Value) -> Option<Params> {
    let reject = if v["reject"].is_null() {
        None
    } else {
        Some((v["reject"]["h"].as_u64()? as u8, v["reject"]["s"].as_u64()? as u8, v["reject"]["mpc_side"].as_bool()?))
    };
    Some(Params {
        shards: v["shards"].as_u64()? as usize,
        kind: kind_from_name(v["kind"].as_str()?)?,
        reject,
        coord: v["coord"].as_u64()? as usize,
        hold: v["hold"].as_u64().map(|x| x as u8),
    })
}

fn panic_class(msg: &str) -> String {
    let mut s: String = msg.chars().map(|c| if c.is_ascii_digit() { '#' } else { c }).collect();
    while s.contains("##") {
        s = s.replace("##", "#");
    }
    s.truncate(80);
    s
}

/// file name (without line) of a panic location
fn panic_file(loc: &str) -> String {
    loc.rsplit_once(':').map(|x| x.0).unwrap_or(loc).to_string()
}

struct Hist<'r> {
    rec: &'r mut Recorder,
    case: usize,
    family: &'r str,
    p: Params,
    calls: Vec<Call>,
    trace: Vec<serde_json::Value>,
}

impl Hist<'_> {
    fn witness(&self) -> serde_json::Value {
        json!({"case": self.case, "family": self.family, "params": params_json(&self.p),
               "calls": self.calls.iter().map(call_json).collect::<Vec<_>>(), "trace": self.trace})
    }
    fn violation(&mut self, what: &str, sig: serde_json::Value) {
        let w = self.witness();
        self.rec.violation(what, sig, w);
    }
}

enum StepEnd {
    Go,
    Stop,
}

/// What happened to panics since the last check. true = stop the history.
fn check_panics(hist: &mut Hist, m: &Model, during: &str) -> bool {
    let ps = take_panics();
    if ps.is_empty() {
        return false;
    }
    let infra = ps.iter().all(|(loc, _)| loc.contains("helpers/transport/in_memory"));
    if infra {
        hist.rec.count("histories_stopped_test_transport_panic");
        if std::env::var("VERIF_C18_DEBUG").is_ok() {
            eprintln!("C18DEBUG infra panic {:?} in {} {}", ps, params_json(&hist.p), serde_json::Value::Array(hist.trace.clone()));
        }
        return true;
    }
    if m.tainted() || m.kind == Kind::MulBadLen {
        // a query task was aborted / orphaned / panicked itself: outside the property
        hist.rec.count("panics_after_aborted_or_orphaned_task");
        for (loc, _) in &ps {
            hist.rec.seen("panic_sites_after_abort", panic_file(loc));
        }
        return true;
    }
    let (loc, msg) = ps[0].clone();
    hist.trace.push(json!({"panic": msg, "at": loc}));
    hist.violation(
        "helper panicked in a history whose query tasks ended by returning",
        json!({"kind": "panic", "file": panic_file(&loc), "panic": panic_class(&msg), "during": during}),
    );
    true
}

async fn run_probe(ex: &mut Exec<'_>, p: &Probe) -> String {
    let call = match *p {
        Probe::Unsure(h, s) => Call { op: Op::Complete, h, s, arg: 0 },
        Probe::ShardForgotten(h, s) => Call { op: Op::ShardStatus, h, s, arg: 4 },
        Probe::LeaderKept(h, _) => Call { op: Op::Status, h, s: 0, arg: 0 },
    };
    ex.issue(call).await.class()
}

/// One call: predict, issue, compare, follow. Returns Stop when the history cannot be continued.
async fn step(hist: &mut Hist<'_>, ex: &mut Exec<'_>, m: &mut Model, call: Call, observer: bool) -> StepEnd {
    let outs = m.predict(call);
    let lk = m.local_key(call);
    let pre_c0 = m.n[0][0].st;
    let before = m.n[call.h as usize][call.s as usize].st;
    let resp = ex.issue(call).await;
    hist.rec.eval();
    let cls = resp.class();
    hist.trace.push(json!({"call": call_json(&call), "observer": observer, "model_before": before.name(), "response": cls,
                           "allowed": outs.iter().map(|o| o.class.clone()).collect::<Vec<_>>()}));
    if let Resp::Panic(msg) = &resp {
        let ps = take_panics();
        let loc = ps.first().map(|x| x.0.clone()).unwrap_or_default();
        if loc.contains("helpers/transport/in_memory") {
            hist.rec.count("histories_stopped_test_transport_panic");
        } else if m.tainted() || m.kind == Kind::MulBadLen {
            hist.rec.count("panics_after_aborted_or_orphaned_task");
            hist.rec.seen("panic_sites_after_abort", panic_file(&loc));
        } else {
            hist.violation(
                "API call panicked in a history whose query tasks ended by returning",
                json!({"kind": "panic", "file": panic_file(&loc), "panic": panic_class(msg),
                       "during": format!("{:?}", call.op)}),
            );
        }
        return StepEnd::Stop;
    }
    if check_panics(hist, m, &format!("{:?}", call.op)) {
        return StepEnd::Stop;
    }
    let Some(o) = outs.iter().find(|o| o.class == cls) else {
        let allowed: Vec<String> = outs.iter().map(|o| o.class.clone()).collect();
        let rejected_expected = allowed.iter().all(|a| a.starts_with("err:"));
        hist.violation(
            "response not allowed by the reference automaton",
            json!({"kind": "response", "op": format!("{:?}", call.op), "transition": lk, "allowed": allowed,
                   "observed": cls, "request_should_be_rejected": rejected_expected}),
        );
        return StepEnd::Stop;
    };
    hist.rec.seen("transitions", format!("{lk} -> {cls}"));
    if !observer {
        hist.rec.seen("calls_answered", format!("{:?}:{}", call.op, cls));
    }
    let o = o.clone();
    *m = o.next;
    // parked calls
    let resolved = ex.resolved().await;
    let mut expected = o.resolves.clone();
    for (st, c2, r) in resolved {
        let rc = r.class();
        hist.trace.push(json!({"resolved": call_json(&c2), "issued_at_step": st, "response": rc}));
        if let Some(pos) = expected.iter().position(|(h, s, _)| *h == c2.h && *s == c2.s) {
            let (_, _, allowed) = expected.remove(pos);
            if allowed.contains(&rc) {
                if c2.op == Op::NewQuery {
                    hist.rec.seen("transitions", format!("parked NewQuery (coordinator {}) returns -> {rc}", pre_c0.name()));
                    if pre_c0 == MS::Absent {
                        if rc == "ok" {
                            hist.rec.count("killed_create_came_back_when_peer_answered(doc silent)");
                        } else if rc.starts_with("err:NewQuery::State") {
                            m.n[0][0] = MNode { st: MS::Absent, pend: false, unsure: false };
                            hist.rec.count("killed_create_stayed_dead");
                        }
                    }
                    continue;
                }
                hist.rec.seen("transitions", format!("parked Complete returns -> {rc}"));
                if let Resp::Bytes(b) = &r {
                    ex.results.push((c2.h, c2.s, b.clone()));
                }
            } else {
                hist.violation(
                    "parked complete returned something else than the query result",
                    json!({"kind": "parked_complete", "allowed": allowed, "observed": rc}),
                );
                return StepEnd::Stop;
            }
        } else if m.tainted() {
            hist.rec.count("parked_complete_returned_after_abort");
            let n = &mut m.n[c2.h as usize][c2.s as usize];
            if n.st == MS::AwaitCompl && n.pend {
                *n = MNode { st: MS::Absent, pend: false, unsure: false };
            }
        } else {
            hist.violation(
                "parked complete returned although not all participants have inputs",
                json!({"kind": "parked_complete_early", "observed": rc}),
            );
            return StepEnd::Stop;
        }
    }
    if check_panics(hist, m, "parked complete") {
        return StepEnd::Stop;
    }
    if !expected.is_empty() {
        hist.violation(
            "complete is still parked although every participant has inputs and the tasks ran until idle",
            json!({"kind": "parked_complete_stuck", "nodes": expected.len()}),
        );
        return StepEnd::Stop;
    }
    if let Resp::Bytes(b) = &resp {
        if call.op == Op::Complete {
            ex.results.push((call.h, call.s, b.clone()));
        }
    }
    // probes
    for p in &o.probes {
        let pc = run_probe(ex, p).await;
        hist.rec.eval();
        hist.trace.push(json!({"probe": format!("{p:?}"), "response": pc}));
        if check_panics(hist, m, "probe") {
            return StepEnd::Stop;
        }
        match m.apply_probe(p, &pc) {
            Ok(()) => match p {
                Probe::Unsure(h, s) => {
                    let st = m.n[*h as usize][*s as usize].st;
                    hist.rec.count(if st == MS::Absent {
                        "failed_create_peer_rolled_back"
                    } else {
                        "failed_create_peer_left_prepared(documented TODO)"
                    });
                }
                Probe::ShardForgotten(..) => hist.rec.count("shard_forgotten_with_leader"),
                Probe::LeaderKept(..) => hist.rec.count("leader_kept_state_after_rejected_complete"),
            },
            Err((what, sig)) => hist.violation(&what, sig),
        }
    }
    if m.boundary {
        hist.rec.count("histories_stopped_listener_parked(not modelled)");
        return StepEnd::Stop;
    }
    StepEnd::Go
}

/// Runs one history. Everything is recorded in `rec`.
fn run_history(rec: &mut Recorder, family: &str, case: usize, p: &Params, calls: &[Call]) {
    let mut hist = Hist { rec, case, family, p: p.clone(), calls: calls.to_vec(), trace: Vec::new() };
    let _ = take_panics();
    IN_WORLD.store(true, std::sync::atomic::Ordering::Relaxed);
    let out = vlib::run_paused(Duration::from_secs(60), async {
        let hist = &mut hist;
        let w = World::new(p.shards);
        if let Some((h, s, mpc)) = p.reject {
            w.ctl.lock().unwrap().reject_once.push(((p.coord + h as usize) % 3, s as usize, mpc));
        }
        if let Some(f) = p.hold {
            w.ctl.lock().unwrap().hold_once.push(((p.coord + f as usize) % 3, 0, true));
        }
        let mut ex = Exec::new(&w, p.coord, p.kind);
        let mut m = Model::new(p.shards, p.kind, p.reject, p.hold);
        let mut completed_all = true;
        for call in calls {
            hist.rec.distinct(&m);
            if m.unsupported(*call) {
                hist.rec.count("histories_stopped_unsupported_by_test_transport");
                completed_all = false;
                break;
            }
            match step(hist, &mut ex, &mut m, *call, false).await {
                StepEnd::Go => {}
                StepEnd::Stop => {
                    completed_all = false;
                    break;
                }
            }
        }
        if completed_all {
            hist.rec.distinct(&m);
            // final read of every node: shards first (their reads are not visible to anybody else), then leaders
            'obs: for s in (0..p.shards).rev() {
                for h in 0..3u8 {
                    let call = if s == 0 {
                        Call { op: Op::Status, h, s: 0, arg: 0 }
                    } else {
                        let set = m.status_set(h as usize, s);
                        let arg = set.first().map(|x| rank(*x)).unwrap_or(1) as u8;
                        Call { op: Op::ShardStatus, h, s: s as u8, arg }
                    };
                    if let StepEnd::Stop = step(hist, &mut ex, &mut m, call, true).await {
                        completed_all = false;
                        break 'obs;
                    }
                }
            }
        }
        // value of the results that were handed out (same column, all three roles)
        if let Some(exp) = p.kind.expect() {
            for s in 0..p.shards as u8 {
                let col: Vec<&(u8, u8, Vec<u8>)> = ex.results.iter().filter(|r| r.1 == s).collect();
                if col.len() == 3 && !m.col[s as usize].taint && (0..3u8).all(|h| col.iter().filter(|r| r.0 == h).count() == 1) {
                    let ok = col.iter().all(|r| r.2.len() == 2);
                    let sum = col.iter().map(|r| u32::from(*r.2.first().unwrap_or(&0))).sum::<u32>() % 31;
                    hist.rec.eval();
                    if ok && sum == u32::from(exp) {
                        hist.rec.count("results_reconstruct_to_expected_value");
                    } else {
                        hist.violation(
                            "results handed out do not reconstruct to the value of the query",
                            json!({"kind": "result_value", "query": p.kind.name()}),
                        );
                    }
                }
            }
        }
        completed_all
    });
    IN_WORLD.store(false, std::sync::atomic::Ordering::Relaxed);
    let _ = take_panics();
    match out {
        Paused::Done(true) => hist.rec.count("histories_checked_to_the_end"),
        Paused::Done(false) => hist.rec.count("histories_cut_short"),
        Paused::Quiescent => hist.rec.inconclusive(format!("case {case}: harness did not return within 60 virtual seconds")),
    }
    if hist.rec.want_sample() && case % 97 == 3 {
        let t = hist.trace.clone();
        let pj = params_json(p);
        hist.rec.sample(json!({"case": case, "family": family, "params": pj, "trace": t}));
    }
}

// ---------------------------------------------------------------------------------------------
// enumeration
// ---------------------------------------------------------------------------------------------

fn c(op: Op, h: u8, s: u8) -> Call {
    Call { op, h, s, arg: 1 }
}

/// Calls whose answer depends on the state of the node.
fn dynamic_letters(shards: usize) -> Vec<Call> {
    let mut v = vec![c(Op::NewQuery, 0, 0), c(Op::PrepHelper, 1, 0), c(Op::PrepHelper, 2, 0)];
    for h in 0..3u8 {
        for s in 1..shards as u8 {
            v.push(c(Op::PrepShard, h, s));
        }
    }
    for h in 0..3u8 {
        for s in 0..shards as u8 {
            v.push(c(Op::Inputs, h, s));
        }
    }
    for h in 0..3u8 {
        v.push(c(Op::Status, h, 0));
    }
    for h in 0..3u8 {
        for s in 1..shards as u8 {
            v.push(c(Op::ShardStatus, h, s));
        }
    }
    for h in 0..3u8 {
        for s in 0..shards as u8 {
            v.push(c(Op::Complete, h, s));
        }
    }
    for h in 0..3u8 {
        for s in 0..shards as u8 {
            v.push(c(Op::Kill, h, s));
        }
    }
    v
}

/// Calls that are refused because of where they are sent, whatever the state.
fn static_rejects(shards: usize) -> Vec<Call> {
    let mut v = vec![
        c(Op::PrepHelper, 0, 0),
        c(Op::PrepShard, 0, 0),
        c(Op::PrepShard, 1, 0),
        c(Op::ShardStatus, 0, 0),
        c(Op::ShardStatus, 2, 0),
    ];
    if shards > 1 {
        v.extend([
            c(Op::PrepHelper, 1, 1),
            c(Op::PrepHelper, 0, 1),
            c(Op::Status, 0, 1),
            c(Op::Status, 1, 1),
            c(Op::NewQuery, 0, 1),
        ]);
    }
    v
}

const STATIC_MARK: Call = Call { op: Op::PrepHelper, h: 9, s: 9, arg: 9 };

/// Followers 1 and 2 (and shards 1 and 2) are interchangeable until one of them has been addressed.
fn canonical(prefix: &[Call], next: Call, sym: bool) -> bool {
    if !sym || next == STATIC_MARK {
        return true;
    }
    if next.h == 2 && next.op != Op::NewQuery && !prefix.iter().any(|c| c.h == 1 && *c != STATIC_MARK) {
        return false;
    }
    if next.s == 2 && !prefix.iter().any(|c| c.s == 1 && *c != STATIC_MARK) {
        return false;
    }
    true
}

struct Family {
    name: String,
    p: Params,
    /// every canonical sequence up to this length
    full: usize,
    /// beyond that, up to this length, one continuation per distinct automaton state
    dedup: usize,
}

/// All histories of a family, in a fixed order. STATIC_MARK is replaced by a concrete refused call.
fn enumerate(f: &Family) -> Vec<Vec<Call>> {
    let sym = f.p.reject.is_none() && f.p.hold.is_none();
    let mut letters = dynamic_letters(f.p.shards);
    if f.p.hold.is_some() {
        letters.push(Call { op: Op::Release, h: 0, s: 0, arg: 0 });
    }
    letters.push(STATIC_MARK);
    let statics = static_rejects(f.p.shards);
    let m0 = Model::new(f.p.shards, f.p.kind, f.p.reject, f.p.hold);
    let mut out: Vec<Vec<Call>> = Vec::new();
    let mut level: Vec<(Vec<Call>, Model)> = vec![(vec![], m0.clone())];
    let mut seen: std::collections::HashSet<u64> = std::collections::HashSet::new();
    seen.insert(vlib::fxhash(&m0));
    for depth in 1..=f.dedup {
        let mut next_level = Vec::new();
        for (seq, m) in &level {
            for l in &letters {
                if !canonical(seq, *l, sym) {
                    continue;
                }
                if *l == STATIC_MARK && seq.contains(&STATIC_MARK) {
                    continue;
                }
                let mut s2 = seq.clone();
                s2.push(*l);
                let concrete = if *l == STATIC_MARK { statics[(out.len() + depth) % statics.len()] } else { *l };
                if m.unsupported(concrete) {
                    continue;
                }
                let (_, m2) = m.primary(concrete);
                out.push(s2.clone());
                if depth < f.dedup && !m2.boundary {
                    let fresh = seen.insert(vlib::fxhash(&m2));
                    if depth < f.full || fresh {
                        next_level.push((s2, m2));
                    }
                }
            }
        }
        level = next_level;
    }
    // concrete calls
    for (i, seq) in out.iter_mut().enumerate() {
        for (pos, cl) in seq.iter_mut().enumerate() {
            if *cl == STATIC_MARK {
                *cl = statics[(i + pos) % statics.len()];
            } else if cl.op == Op::ShardStatus {
                cl.arg = ((i + pos) % 4 + 1) as u8;
            }
        }
    }
    out
}

fn families(thorough: bool) -> Vec<Family> {
    let t = thorough;
    let mut v = Vec::new();
    let mut add = |name: &str, shards: usize, kind: Kind, reject: Option<(u8, u8, bool)>, full: usize, dedup: usize| {
        let (reject, hold) = match reject {
            Some((h, 9, _)) => (None, Some(h)),
            r => (r, None),
        };
        v.push(Family { name: name.to_string(), p: Params { shards, kind, reject, coord: 0, hold }, full, dedup });
    };
    add("1shard", 1, Kind::MulOk, None, if t { 5 } else { 4 }, if t { 5 } else { 4 });
    add("1shard/add", 1, Kind::AddOk, None, 2, if t { 6 } else { 5 });
    add("1shard/add-wrong-length", 1, Kind::AddBadLen, None, 2, if t { 6 } else { 5 });
    add("1shard/task-err", 1, Kind::HybridErr, None, 2, if t { 6 } else { 5 });
    add("1shard/reject-H2", 1, Kind::MulOk, Some((1, 0, true)), if t { 3 } else { 2 }, if t { 6 } else { 5 });
    add("1shard/reject-H3", 1, Kind::MulOk, Some((2, 0, true)), if t { 3 } else { 2 }, if t { 6 } else { 5 });
    // s = 9 marks "this follower is slow to answer prepare" (coordinator visible in preparing)
    add("1shard/slow-H2", 1, Kind::MulOk, Some((1, 9, true)), if t { 3 } else { 2 }, if t { 6 } else { 5 });
    add("1shard/slow-H3", 1, Kind::AddOk, Some((2, 9, true)), if t { 3 } else { 2 }, if t { 6 } else { 5 });
    add("2shards", 2, Kind::MulOk, None, if t { 4 } else { 3 }, if t { 5 } else { 4 });
    add("2shards/reject-H2", 2, Kind::MulOk, Some((1, 0, true)), if t { 2 } else { 1 }, if t { 5 } else { 4 });
    add("2shards/reject-own-shard", 2, Kind::MulOk, Some((0, 1, false)), if t { 2 } else { 1 }, if t { 5 } else { 4 });
    add("2shards/reject-H2-shard", 2, Kind::MulOk, Some((1, 1, false)), if t { 2 } else { 1 }, if t { 5 } else { 4 });
    add("3shards", 3, Kind::AddOk, None, if t { 3 } else { 2 }, if t { 5 } else { 4 });
    v
}

struct Replay {
    test: String,
    family: String,
    p: Params,
    calls: Vec<Call>,
    case: usize,
}

fn replay_case() -> Option<Replay> {
    let path = vlib::env().replay?;
    let w: serde_json::Value = serde_json::from_str(&std::fs::read_to_string(path).ok()?).ok()?;
    let wi = &w["witness"];
    Some(Replay {
        test: w["test"].as_str()?.to_string(),
        family: wi["family"].as_str().unwrap_or("").to_string(),
        p: params_from_json(&wi["params"])?,
        calls: wi["calls"].as_array()?.iter().filter_map(call_from_json).collect(),
        case: wi["case"].as_u64()? as usize,
    })
}

#[cfg(not(feature = "shuttle"))]
#[test]
fn verif_c18_exhaustive() {
    install_panic_log();
    let env = vlib::env();
    let mut rec = Recorder::new("C18", "verif_c18_exhaustive");
    if let Some(r) = replay_case() {
        if r.test == "verif_c18_exhaustive" {
            run_history(&mut rec, &r.family, r.case, &r.p, &r.calls);
        }
        rec.finish();
        return;
    }
    let mut idx = 0usize;
    for f in families(env.thorough) {
        let hs = enumerate(&f);
        rec.add(&format!("histories_enumerated[{}]", f.name), if env.shard == 0 { hs.len() as u64 } else { 0 });
        for calls in hs {
            idx += 1;
            if !env.mine(idx) || std::env::var("VERIF_C18_COUNT_ONLY").is_ok() {
                continue;
            }
            let mut p = f.p.clone();
            p.coord = idx % 3;
            run_history(&mut rec, &f.name, idx, &p, &calls);
        }
    }
    rec.finish();
}

// ---------------------------------------------------------------------------------------------
// seeded random histories of depth 7
// ---------------------------------------------------------------------------------------------

fn random_history(seed: u64, idx: usize) -> (Params, Vec<Call>) {
    let mut r = VRng::new(seed ^ 0xC187, idx as u64);
    let shards = match r.below(100) {
        0..=44 => 1,
        45..=79 => 2,
        _ => 3,
    };
    let kind = match r.below(100) {
        0..=39 => Kind::MulOk,
        40..=64 => Kind::AddOk,
        65..=84 => {
            if shards == 1 { Kind::HybridErr } else { Kind::AddOk }
        }
        _ => Kind::AddBadLen,
    };
    let reject = if r.below(100) < 30 {
        let mut opts = vec![(1u8, 0u8, true), (2, 0, true)];
        if shards > 1 {
            opts.extend([(0, 1, false), (1, 1, false), (2, 1, false)]);
        }
        Some(*r.choose(&opts))
    } else {
        None
    };
    let hold = if shards == 1 && reject.is_none() && r.below(100) < 15 { Some(r.range(1, 2) as u8) } else { None };
    let p = Params { shards, kind, reject, coord: r.below(3) as usize, hold };
    let mut letters = dynamic_letters(shards);
    letters.extend(static_rejects(shards));
    if hold.is_some() {
        letters.push(Call { op: Op::Release, h: 0, s: 0, arg: 0 });
    }
    let mut m = Model::new(shards, kind, reject, hold);
    let mut calls = Vec::new();
    for _ in 0..7 {
        let letters: Vec<Call> = letters.iter().copied().filter(|l| !m.unsupported(*l)).collect();
        let productive: Vec<Call> = letters
            .iter()
            .copied()
            .filter(|l| {
                let cl = m.primary(*l).0;
                cl.starts_with("ok") || cl == "pending"
            })
            .collect();
        let mut call = if !productive.is_empty() && r.below(100) < 65 { *r.choose(&productive) } else { *r.choose(&letters) };
        if call.op == Op::ShardStatus {
            call.arg = r.range(1, 4) as u8;
        }
        let (_, m2) = m.primary(call);
        calls.push(call);
        if m2.boundary {
            break;
        }
        m = m2;
    }
    (p, calls)
}

#[cfg(not(feature = "shuttle"))]
#[test]
fn verif_c18_random_depth7() {
    install_panic_log();
    let env = vlib::env();
    let mut rec = Recorder::new("C18", "verif_c18_random_depth7");
    if let Some(r) = replay_case() {
        if r.test == "verif_c18_random_depth7" {
            run_history(&mut rec, &r.family, r.case, &r.p, &r.calls);
        }
        rec.finish();
        return;
    }
    let n = env.pick(20_000, 240_000);
    for idx in 0..n {
        if !env.mine(idx) {
            continue;
        }
        let (p, calls) = random_history(env.seed, idx);
        run_history(&mut rec, "random", idx, &p, &calls);
    }
    rec.finish();
}

// ---------------------------------------------------------------------------------------------
// fixed regression list: whole lifecycles, second queries, failed creates, kill in every state
// ---------------------------------------------------------------------------------------------

fn lifecycle(shards: usize, status_first: bool, twice: bool) -> Vec<Call> {
    use Op::*;
    let mut v = vec![c(NewQuery, 0, 0)];
    for s in 0..shards as u8 {
        for h in 0..3u8 {
            v.push(c(Inputs, h, s));
        }
    }
    if status_first {
        for h in 0..3u8 {
            v.push(c(Status, h, 0));
        }
    }
    for h in 0..3u8 {
        v.push(c(Complete, h, 0));
    }
    // results are handed out once
    for h in 0..3u8 {
        v.push(c(Complete, h, 0));
    }
    if twice {
        let again = lifecycle(shards, status_first, false);
        v.extend(again);
    }
    v
}

fn scenarios() -> Vec<(String, Params, Vec<Call>)> {
    use Op::*;
    let mut v: Vec<(String, Params, Vec<Call>)> = Vec::new();
    let p = |shards: usize, kind: Kind, reject: Option<(u8, u8, bool)>| Params { shards, kind, reject, coord: 0, hold: None };
    let slow = |f: u8| Params { shards: 1, kind: Kind::MulOk, reject: None, coord: 0, hold: Some(f) };
    let rel = Call { op: Release, h: 0, s: 0, arg: 0 };
    let mut prep = vec![
        c(NewQuery, 0, 0), c(Status, 0, 0), c(NewQuery, 0, 0), c(Inputs, 0, 0), c(Complete, 0, 0), c(Status, 0, 0), c(Status, 1, 0),
        c(Status, 2, 0), rel, c(Status, 0, 0),
    ];
    prep.extend(lifecycle(1, false, false)[1..].to_vec());
    v.push(("calls while the coordinator is preparing (H2 slow)".into(), slow(1), prep.clone()));
    v.push(("calls while the coordinator is preparing (H3 slow)".into(), slow(2), prep));
    v.push((
        "kill while preparing, then the slow peer answers".into(),
        slow(1),
        vec![c(NewQuery, 0, 0), c(Kill, 0, 0), c(Status, 0, 0), rel, c(Status, 0, 0), c(Status, 1, 0), c(Status, 2, 0)],
    ));
    v.push((
        "slow peer finally refuses: no trace on the coordinator".into(),
        slow(2),
        vec![c(NewQuery, 0, 0), c(PrepHelper, 2, 0), c(Status, 0, 0), rel, c(Status, 0, 0), c(Kill, 1, 0), c(Kill, 2, 0), c(NewQuery, 0, 0)],
    ));
    for kind in [Kind::MulOk, Kind::AddOk, Kind::AddBadLen, Kind::HybridErr] {
        for status_first in [false, true] {
            v.push((
                format!("lifecycle x2, 1 shard, {}, status first={status_first}", kind.name()),
                p(1, kind, None),
                lifecycle(1, status_first, true),
            ));
        }
    }
    for shards in [2usize, 3] {
        for status_first in [false, true] {
            v.push((
                format!("lifecycle x2, {shards} shards, status first={status_first}"),
                p(shards, Kind::MulOk, None),
                lifecycle(shards, status_first, true),
            ));
        }
    }
    // failed create leaves no trace on the coordinator; after removing what the peers kept, a create succeeds
    v.push((
        "failed create (H2 rejects), then create".into(),
        p(1, Kind::MulOk, Some((1, 0, true))),
        vec![
            c(NewQuery, 0, 0), c(Status, 0, 0), c(Kill, 2, 0), c(NewQuery, 0, 0), c(Inputs, 0, 0), c(Inputs, 1, 0),
            c(Inputs, 2, 0), c(Complete, 0, 0), c(Complete, 1, 0), c(Complete, 2, 0),
        ],
    ));
    v.push((
        "failed create (H3 rejects), then create".into(),
        p(1, Kind::MulOk, Some((2, 0, true))),
        vec![c(NewQuery, 0, 0), c(Status, 0, 0), c(Kill, 1, 0), c(NewQuery, 0, 0), c(Status, 0, 0)],
    ));
    v.push((
        "failed create (own shard rejects), then create".into(),
        p(2, Kind::MulOk, Some((0, 1, false))),
        vec![
            c(NewQuery, 0, 0), c(Status, 0, 0), c(Kill, 1, 0), c(Kill, 1, 1), c(Kill, 2, 0), c(Kill, 2, 1), c(NewQuery, 0, 0),
            c(Status, 0, 0), c(Status, 1, 0), c(Status, 2, 0),
        ],
    ));
    v.push((
        "failed create (H2's shard rejects), then create".into(),
        p(2, Kind::MulOk, Some((1, 1, false))),
        vec![c(NewQuery, 0, 0), c(Status, 0, 0), c(Kill, 2, 0), c(Kill, 2, 1), c(NewQuery, 0, 0), c(Status, 0, 0)],
    ));
    v.push((
        "create refused while a follower still has a query".into(),
        p(1, Kind::MulOk, None),
        vec![c(PrepHelper, 1, 0), c(NewQuery, 0, 0), c(Status, 0, 0), c(Kill, 1, 0), c(Kill, 2, 0), c(NewQuery, 0, 0)],
    ));
    // kill in every state, then a new query runs to the end
    let rest = |v: &mut Vec<Call>| {
        v.extend([c(Kill, 0, 0), c(Kill, 1, 0), c(Kill, 2, 0), c(Kill, 0, 0)]);
        v.extend(lifecycle(1, true, false));
    };
    let mut k = vec![c(NewQuery, 0, 0)];
    rest(&mut k);
    v.push(("kill while awaiting inputs, new query".into(), p(1, Kind::MulOk, None), k));
    let mut k = vec![c(NewQuery, 0, 0), c(Inputs, 0, 0), c(Inputs, 1, 0), c(Inputs, 2, 0)];
    rest(&mut k);
    v.push(("kill finished unread query, new query".into(), p(1, Kind::MulOk, None), k));
    let mut k = vec![c(NewQuery, 0, 0), c(Inputs, 0, 0), c(Inputs, 1, 0), c(Inputs, 2, 0), c(Status, 0, 0), c(Status, 1, 0)];
    rest(&mut k);
    v.push(("kill completed query, new query".into(), p(1, Kind::MulOk, None), k));
    v.push((
        "kill while running (task aborted)".into(),
        p(1, Kind::MulOk, None),
        vec![c(NewQuery, 0, 0), c(Inputs, 0, 0), c(Kill, 0, 0), c(Status, 0, 0), c(Inputs, 0, 0), c(Complete, 0, 0), c(NewQuery, 0, 0)],
    ));
    v.push((
        "kill while awaiting completion".into(),
        p(1, Kind::MulOk, None),
        vec![
            c(NewQuery, 0, 0), c(Inputs, 1, 0), c(Complete, 1, 0), c(Status, 1, 0), c(Kill, 1, 0), c(Status, 1, 0),
            c(PrepHelper, 1, 0), c(Inputs, 0, 0), c(Inputs, 2, 0), c(Status, 1, 0), c(Status, 0, 0),
        ],
    ));
    v.push((
        "complete parks until the last input arrives".into(),
        p(1, Kind::MulOk, None),
        vec![
            c(NewQuery, 0, 0), c(Inputs, 0, 0), c(Complete, 0, 0), c(Complete, 0, 0), c(Inputs, 0, 0), c(Status, 0, 0),
            c(Inputs, 1, 0), c(Complete, 1, 0), c(Inputs, 2, 0), c(Complete, 2, 0), c(Complete, 2, 0), c(NewQuery, 0, 0),
        ],
    ));
    v.push((
        "inputs twice / inputs in every state".into(),
        p(1, Kind::AddOk, None),
        vec![
            c(Inputs, 0, 0), c(NewQuery, 0, 0), c(Inputs, 0, 0), c(Inputs, 0, 0), c(Inputs, 1, 0), c(Inputs, 2, 0), c(Inputs, 0, 0),
            c(Status, 0, 0), c(Inputs, 0, 0), c(Complete, 0, 0), c(Inputs, 0, 0),
        ],
    ));
    v.push((
        "sharded: complete while a shard has no inputs".into(),
        p(2, Kind::MulOk, None),
        vec![c(NewQuery, 0, 0), c(Inputs, 0, 0), c(Inputs, 1, 0), c(Inputs, 2, 0), c(Complete, 0, 0), c(Status, 0, 0)],
    ));
    // a wrong-length input makes the TestMultiply task itself panic: outside the property (recorded only)
    v.push((
        "multiply task panics on a wrong-length input".into(),
        p(1, Kind::MulBadLen, None),
        vec![c(NewQuery, 0, 0), c(Inputs, 0, 0), c(Inputs, 1, 0), c(Inputs, 2, 0), c(Status, 0, 0)],
    ));
    v
}

#[cfg(not(feature = "shuttle"))]
#[test]
fn verif_c18_scenarios() {
    install_panic_log();
    let env = vlib::env();
    let mut rec = Recorder::new("C18", "verif_c18_scenarios");
    if let Some(r) = replay_case() {
        if r.test == "verif_c18_scenarios" {
            run_history(&mut rec, &r.family, r.case, &r.p, &r.calls);
        }
        rec.finish();
        return;
    }
    let mut idx = 0;
    for (name, p0, calls) in scenarios() {
        for coord in 0..3 {
            idx += 1;
            if !env.mine(idx) {
                continue;
            }
            let mut p = p0.clone();
            p.coord = coord;
            rec.seen("scenarios", name.clone());
            run_history(&mut rec, &name, idx, &p, &calls);
        }
    }
    rec.finish();
}

// ---------------------------------------------------------------------------------------------
// the status lattice: every combination of shard states of one helper
// ---------------------------------------------------------------------------------------------

/// Calls that bring node (ht, s) to `target`, starting from "awaiting inputs" everywhere.
fn drive(ht: u8, s: u8, target: MS) -> Vec<Call> {
    use Op::*;
    match target {
        MS::Awaiting | MS::Preparing => vec![],
        MS::Absent => vec![c(Kill, ht, s)],
        MS::Running => vec![c(Inputs, ht, s)],
        MS::AwaitCompl => vec![c(Inputs, ht, s), c(Complete, ht, s)],
        MS::Completed => vec![c(Inputs, 0, s), c(Inputs, 1, s), c(Inputs, 2, s)],
    }
}

fn lattice(shards: usize) -> Vec<(String, Vec<Call>)> {
    let leader_states = [MS::Awaiting, MS::Running, MS::Completed];
    let shard_states = [MS::Absent, MS::Awaiting, MS::Running, MS::AwaitCompl, MS::Completed];
    let mut out = Vec::new();
    let combos: Vec<Vec<MS>> = if shards == 2 {
        shard_states.iter().map(|a| vec![*a]).collect()
    } else {
        shard_states.iter().flat_map(|a| shard_states.iter().map(move |b| vec![*a, *b])).collect()
    };
    for ht in [0u8, 1] {
        let who = if ht == 0 { "coord" } else { "follower" };
        for l in leader_states {
            for combo in &combos {
                let mut calls = vec![c(Op::NewQuery, 0, 0)];
                for (i, t) in combo.iter().enumerate() {
                    calls.extend(drive(ht, (i + 1) as u8, *t));
                }
                calls.extend(drive(ht, 0, l));
                calls.push(c(Op::Status, ht, 0));
                let name = format!("{who}:{}|{}", l.name(), combo.iter().map(|x| x.name()).collect::<Vec<_>>().join(","));
                out.push((name, calls));
            }
        }
        // leader awaiting completion: only reachable when every shard has finished (they hand out and forget)
        let mut calls = vec![c(Op::NewQuery, 0, 0)];
        for s in 1..shards as u8 {
            calls.extend(drive(ht, s, MS::Completed));
        }
        calls.extend(drive(ht, 0, MS::AwaitCompl));
        calls.push(c(Op::Status, ht, 0));
        out.push((format!("{who}:awaiting_completion|shards finished"), calls));
    }
    out
}

#[cfg(not(feature = "shuttle"))]
#[test]
fn verif_c18_status_meet() {
    install_panic_log();
    let env = vlib::env();
    let mut rec = Recorder::new("C18", "verif_c18_status_meet");
    if let Some(r) = replay_case() {
        if r.test == "verif_c18_status_meet" {
            run_history(&mut rec, &r.family, r.case, &r.p, &r.calls);
        }
        rec.finish();
        return;
    }
    // the meet table itself against the harness' own definition
    if env.shard == 0 {
        for a in ST_ALL {
            for b in ST_ALL {
                rec.eval();
                let got = vlib::catch(|| crate::query::min_status(a, b));
                if got == Ok(meet(a, b)) {
                    rec.count("meet_table_entries_equal");
                } else {
                    rec.violation(
                        "status meet differs from the least advanced of the two",
                        json!({"kind": "meet_table", "a": st_name(a), "b": st_name(b), "expected": st_name(meet(a, b)),
                               "observed": format!("{got:?}")}),
                        json!({"case": 0, "a": st_name(a), "b": st_name(b)}),
                    );
                }
            }
        }
    }
    let mut idx = 0;
    for shards in [2usize, 3] {
        for (name, calls) in lattice(shards) {
            for kind in [Kind::MulOk, Kind::AddOk] {
                idx += 1;
                if !env.mine(idx) {
                    continue;
                }
                let p = Params { shards, kind, reject: None, coord: idx % 3, hold: None };
                rec.seen("lattice_points", format!("{shards}:{name}"));
                run_history(&mut rec, &format!("lattice {shards} shards {name}"), idx, &p, &calls);
            }
        }
    }
    rec.finish();
}
