// C19 Resharding moves each record to its chosen shard once, same order on all helpers.
//
// Every helper gets an identical copy of the plaintext records; a record is a unique 64-bit id
// (origin shard, position, salt) carried in a BA64. The harness decides the initial placement and the
// selection function, runs reshard_iter / reshard_stream / reshard_try_stream / reshard_aad on 3 x S
// in-memory helpers and judges the Vec returned on each (helper, shard):
//   (1) multiset over all shards unchanged, (2) every record on the selected shard, (3) per-shard order
//   identical on all helpers (their input streams are delayed differently), (4) per-shard order identical
//   between runs of the same case under other executors / buffer sizes / delays / shuttle schedules,
//   (5) an input stream failing mid-way or longer than its size hint, or a shard-to-shard byte stream
//   that ends inside a record, makes the affected shard return Err, and no other shard returns Ok with
//   one of its records missing.
// `reshard_aad` sits in a private module and is reached through the hook alias `crate::query::verif_reshard_aad`.

use std::{
    collections::{BTreeMap, BTreeSet},
    future::Future,
    pin::Pin,
    sync::{Arc, Mutex},
    task::{Context as TaskCx, Poll},
};

use futures::{Stream, StreamExt, future::join_all};
use serde_json::{Value, json};

use super::vlib::{self, Recorder, VRng, catch_fut};
use crate::{
    error::Error,
    executor::IpaRuntime,
    ff::{U128Conversions, boolean_array::BA64},
    helpers::{Direction, in_memory_config::DynStreamInterceptor, stream::ExactSizeStream},
    protocol::{
        RecordId,
        context::{ShardedContext, reshard_iter, reshard_stream, reshard_try_stream},
    },
    query::verif_reshard_aad,
    sharding::ShardIndex,
    test_fixture::{TestWorld, TestWorldConfig, WithShards},
};

// ---------------------------------------------------------------------------------------------
// case description
// ---------------------------------------------------------------------------------------------

#[derive(Clone, Copy, Debug, PartialEq, Eq, Hash)]
pub enum Api {
    Iter,
    Stream,
    TryStream,
    Aad,
}
const APIS: [Api; 4] = [Api::Iter, Api::Stream, Api::TryStream, Api::Aad];
impl Api {
    fn name(self) -> &'static str {
        match self {
            Api::Iter => "reshard_iter",
            Api::Stream => "reshard_stream",
            Api::TryStream => "reshard_try_stream",
            Api::Aad => "reshard_aad",
        }
    }
    fn fallible(self) -> bool {
        matches!(self, Api::TryStream | Api::Aad)
    }
}

#[derive(Clone, Copy, Debug, PartialEq, Eq, Hash)]
pub enum Sel {
    AllToOne(u32),
    RoundRobin,
    AllStay,
    Hash(u64),
    /// `ctx.pick_shard(record_id, direction)`; helpers `pair` and `pair+1` share the randomness
    Prss { pair: usize, third_right: bool },
}
impl Sel {
    fn name(self) -> &'static str {
        match self {
            Sel::AllToOne(_) => "all_to_one",
            Sel::RoundRobin => "round_robin",
            Sel::AllStay => "all_stay",
            Sel::Hash(_) => "seeded_hash",
            Sel::Prss { .. } => "prss_pick_shard",
        }
    }
    fn is_prss(self) -> bool {
        matches!(self, Sel::Prss { .. })
    }
    /// Target shard of the record `id` that sits at `pos` of its origin's input (not for Prss).
    fn target(self, id: u64, pos: u32, shards: usize) -> u32 {
        let s = shards as u64;
        match self {
            Sel::AllToOne(t) => t % shards as u32,
            Sel::RoundRobin => ((u64::from(pos) + u64::from(origin_of(id))) % s) as u32,
            Sel::AllStay => origin_of(id),
            Sel::Hash(salt) => (mix(id ^ salt) % s) as u32,
            Sel::Prss { .. } => unreachable!("prss selection is made by the code under test"),
        }
    }
    fn direction(self, helper: usize) -> Direction {
        match self {
            Sel::Prss { pair, third_right } => {
                if helper == pair {
                    Direction::Right
                } else if helper == (pair + 1) % 3 {
                    Direction::Left
                } else if third_right {
                    Direction::Right
                } else {
                    Direction::Left
                }
            }
            _ => Direction::Left,
        }
    }
}

fn mix(x: u64) -> u64 {
    let mut z = x.wrapping_add(0x9E37_79B9_7F4A_7C15);
    z = (z ^ (z >> 30)).wrapping_mul(0xBF58_476D_1CE4_E5B9);
    z = (z ^ (z >> 27)).wrapping_mul(0x94D0_49BB_1331_11EB);
    z ^ (z >> 31)
}

/// id = (origin+1) << 48 | position << 16 | salt
fn make_id(origin: usize, pos: usize, salt: u64) -> u64 {
    ((origin as u64 + 1) << 48) | ((pos as u64) << 16) | (salt & 0xffff)
}
fn origin_of(id: u64) -> u32 {
    ((id >> 48) as u32).wrapping_sub(1)
}
fn pos_of(id: u64) -> u32 {
    ((id >> 16) & 0xffff_ffff) as u32
}

#[derive(Clone, Debug, PartialEq, Eq, Hash)]
pub enum Fault {
    /// the input stream of (helper, shard) yields Err in place of item `at` (at == n: after the last item)
    ErrAt { helper: usize, shard: usize, at: usize },
    /// the input stream of (helper, shard) advertises `hint` < n items but yields all n
    LongerThanHint { helper: usize, shard: usize, hint: usize },
    /// chunk `chunk` of the byte stream src -> dst on `helper` loses `cut` trailing bytes (cut % 8 != 0)
    Transport { helper: usize, src: u32, dst: u32, chunk: u32, cut: usize },
}
impl Fault {
    fn helper(&self) -> usize {
        match self {
            Fault::ErrAt { helper, .. } | Fault::LongerThanHint { helper, .. } | Fault::Transport { helper, .. } => *helper,
        }
    }
    fn kind(&self) -> &'static str {
        match self {
            Fault::ErrAt { .. } => "input_err_midway",
            Fault::LongerThanHint { .. } => "input_longer_than_hint",
            Fault::Transport { .. } => "transport_stream_ends_inside_record",
        }
    }
    fn to_json(&self) -> Value {
        json!(format!("{self:?}"))
    }
}

#[derive(Clone, Debug)]
pub struct Case {
    pub api: Api,
    pub shards: usize,
    pub malicious: bool,
    /// records initially placed on each shard (the same on every helper)
    pub counts: Vec<usize>,
    pub id_salt: u64,
    pub sel: Sel,
    /// size hint advertised by the input stream of shard s = counts[s] + hint_extra[s] (fallible APIs only)
    pub hint_extra: Vec<usize>,
    pub world_seed: u64,
    pub fault: Option<Fault>,
}
impl Case {
    fn ids(&self, shard: usize) -> Vec<u64> {
        (0..self.counts[shard]).map(|p| make_id(shard, p, mix(self.id_salt ^ ((shard as u64) << 32) ^ p as u64))).collect()
    }
    fn total(&self) -> usize {
        self.counts.iter().sum()
    }
    fn to_json(&self) -> Value {
        json!({"api": self.api.name(), "shards": self.shards, "malicious": self.malicious, "counts": self.counts,
               "id_salt": self.id_salt, "sel": format!("{:?}", self.sel), "hint_extra": self.hint_extra,
               "world_seed": self.world_seed, "fault": self.fault.as_ref().map(Fault::to_json)})
    }
    fn shorter_than_hint(&self) -> bool {
        self.api.fallible() && self.hint_extra.iter().any(|e| *e > 0)
    }
}

#[derive(Clone, Copy, Debug, PartialEq, Eq)]
pub enum Exec {
    Paused,
    Mt(usize),
    Shuttle,
}

/// How one execution of a case is driven (none of this is an input of the resharding).
#[derive(Clone, Copy, Debug)]
pub struct RunCfg {
    pub exec: Exec,
    /// every (helper, shard) as its own task (true) or all of them joined inside one task (false)
    pub spawn: bool,
    /// gateway `active` (send buffer capacity in records)
    pub active: usize,
    /// seed of the per-(helper, shard) delays of the input streams; 0 = no delays
    pub jitter: u64,
}
impl RunCfg {
    fn name(&self) -> String {
        format!("{:?}/{}/active{}/{}", self.exec, if self.spawn { "spawned" } else { "joined" }, self.active,
                if self.jitter == 0 { "nodelay" } else { "delays" })
    }
}

// ---------------------------------------------------------------------------------------------
// input streams
// ---------------------------------------------------------------------------------------------

/// Input stream of one (helper, shard): yields the shard's records, returning Pending (with an immediate
/// wake) `delays[i]` times before item i; may advertise a wrong upper bound; may yield one Err.
struct Src {
    items: Vec<u64>,
    pos: usize,
    /// advertised upper bound of the whole stream
    hint: usize,
    err_at: Option<usize>,
    err_done: bool,
    delays: Vec<u8>,
    wait: u8,
}
impl Src {
    fn new(items: Vec<u64>, hint: usize, err_at: Option<usize>, jitter: u64, helper: usize, shard: usize) -> Self {
        let delays: Vec<u8> = if jitter == 0 {
            Vec::new()
        } else {
            let mut r = VRng::new(jitter, (helper * 64 + shard) as u64);
            // mostly no delay, sometimes a short one, rarely a long one: shards and helpers drift apart
            (0..=items.len()).map(|_| match r.below(16) { 0..=8 => 0, 9..=13 => 1 + r.below(3) as u8, _ => 5 + r.below(30) as u8 }).collect()
        };
        let wait = delays.first().copied().unwrap_or(0);
        Src { items, pos: 0, hint, err_at, err_done: false, delays, wait }
    }
}
impl Stream for Src {
    type Item = Result<BA64, Error>;
    fn poll_next(self: Pin<&mut Self>, cx: &mut TaskCx<'_>) -> Poll<Option<Self::Item>> {
        let this = self.get_mut();
        if this.wait > 0 {
            this.wait -= 1;
            cx.waker().wake_by_ref();
            return Poll::Pending;
        }
        if this.err_at == Some(this.pos) && !this.err_done {
            this.err_done = true;
            // the Err takes the place of record `pos` (that record is never yielded)
            this.pos += 1;
            return Poll::Ready(Some(Err(Error::InconsistentShares)));
        }
        if this.pos >= this.items.len() {
            return Poll::Ready(None);
        }
        let v = this.items[this.pos];
        this.pos += 1;
        this.wait = this.delays.get(this.pos).copied().unwrap_or(0);
        Poll::Ready(Some(Ok(BA64::truncate_from(u128::from(v)))))
    }
    fn size_hint(&self) -> (usize, Option<usize>) {
        (0, Some(self.hint.saturating_sub(self.pos)))
    }
}

/// Infallible, exact-size view of `Src` for `reshard_stream`.
struct SrcExact(Src);
impl Stream for SrcExact {
    type Item = BA64;
    fn poll_next(self: Pin<&mut Self>, cx: &mut TaskCx<'_>) -> Poll<Option<Self::Item>> {
        match Pin::new(&mut self.get_mut().0).poll_next(cx) {
            Poll::Pending => Poll::Pending,
            Poll::Ready(None) => Poll::Ready(None),
            Poll::Ready(Some(Ok(v))) => Poll::Ready(Some(v)),
            Poll::Ready(Some(Err(_))) => unreachable!("exact streams are never given a fault"),
        }
    }
    fn size_hint(&self) -> (usize, Option<usize>) {
        let rem = self.0.items.len() - self.0.pos.min(self.0.items.len());
        (rem, Some(rem))
    }
}
impl ExactSizeStream for SrcExact {}

// ---------------------------------------------------------------------------------------------
// one (helper, shard)
// ---------------------------------------------------------------------------------------------

#[derive(Clone, Debug, PartialEq, Eq)]
pub enum Out {
    /// records returned (ids, in order); for reshard_aad also the data kept locally
    Ok { recs: Vec<u64>, data: Option<Vec<u64>> },
    Err(String),
    Panic(String),
    NoOutput,
}
impl Out {
    fn class(&self) -> &'static str {
        match self {
            Out::Ok { .. } => "ok",
            Out::Err(_) => "err",
            Out::Panic(_) => "panic",
            Out::NoOutput => "no_output",
        }
    }
    fn brief(&self) -> String {
        match self {
            Out::Ok { recs, .. } => format!("ok[{}]", recs.len()),
            Out::Err(e) => format!("err:{}", e.chars().take(90).collect::<String>()),
            Out::Panic(e) => format!("panic:{}", e.chars().take(90).collect::<String>()),
            Out::NoOutput => "no_output".into(),
        }
    }
}

/// (record id given to the picker, record, shard chosen)
type PickLog = Arc<Mutex<Vec<(u32, u64, u32)>>>;

struct Part {
    api: Api,
    sel: Sel,
    shards: usize,
    dir: Direction,
    src: Src,
    log: PickLog,
}

async fn one<C: ShardedContext>(ctx: C, part: Part) -> Out {
    let Part { api, sel, shards, dir, src, log } = part;
    let picker = move |ctx: C, rid: RecordId, v: &BA64| -> ShardIndex {
        let id = v.as_u128() as u64;
        let t = if sel.is_prss() { u32::from(ctx.pick_shard(rid, dir)) } else { sel.target(id, u32::from(rid), shards) };
        log.lock().unwrap().push((u32::from(rid), id, t));
        ShardIndex::from(t)
    };
    let ids = |v: Vec<BA64>| v.iter().map(|x| x.as_u128() as u64).collect::<Vec<u64>>();
    let r: Result<Result<(Vec<u64>, Option<Vec<u64>>), Error>, String> = match api {
        Api::Iter => {
            let items: Vec<BA64> = src.items.iter().map(|v| BA64::truncate_from(u128::from(*v))).collect();
            catch_fut(reshard_iter(ctx, items, picker)).await.map(|r| r.map(|v| (ids(v), None)))
        }
        Api::Stream => catch_fut(reshard_stream(ctx, SrcExact(src), picker)).await.map(|r| r.map(|v| (ids(v), None))),
        Api::TryStream => catch_fut(reshard_try_stream(ctx, src, picker)).await.map(|r| r.map(|v| (ids(v), None))),
        Api::Aad => {
            let s = src.map(|r| r.map(|v| (v.as_u128() as u64, v)));
            catch_fut(verif_reshard_aad(ctx, s, picker)).await.map(|r| r.map(|(k, a)| (ids(a), Some(k))))
        }
    };
    match r {
        Ok(Ok((recs, data))) => Out::Ok { recs, data },
        Ok(Err(e)) => Out::Err(format!("{e:?}")),
        Err(p) => Out::Panic(p),
    }
}

// ---------------------------------------------------------------------------------------------
// the world
// ---------------------------------------------------------------------------------------------

type Slots = Arc<Mutex<Vec<Option<Out>>>>;

pub struct Run {
    /// outs[helper][shard]
    pub outs: Vec<Vec<Out>>,
    /// picks[helper][shard] = picker calls in order
    pub picks: Vec<Vec<Vec<(u32, u64, u32)>>>,
    pub quiescent: bool,
    pub wall_timeout: bool,
}
impl Run {
    fn outs_json(&self) -> Value {
        json!(self.outs.iter().map(|h| h.iter().map(Out::brief).collect::<Vec<_>>()).collect::<Vec<_>>())
    }
}

fn part_for(case: &Case, rc: &RunCfg, helper: usize, shard: usize, log: PickLog) -> Part {
    let items = case.ids(shard);
    let mut hint = items.len() + if case.api.fallible() { case.hint_extra[shard] } else { 0 };
    let mut err_at = None;
    match &case.fault {
        Some(Fault::ErrAt { helper: h, shard: s, at }) if *h == helper && *s == shard => err_at = Some(*at),
        Some(Fault::LongerThanHint { helper: h, shard: s, hint: m }) if *h == helper && *s == shard => hint = *m,
        _ => {}
    }
    Part {
        api: case.api,
        sel: case.sel,
        shards: case.shards,
        dir: case.sel.direction(helper),
        src: Src::new(items, hint, err_at, rc.jitter, helper, shard),
        log,
    }
}

async fn body<const S: usize>(case: Case, rc: RunCfg, interceptor: Option<DynStreamInterceptor>, slots: Slots, logs: Vec<PickLog>) {
    let mut cfg = TestWorldConfig::default();
    cfg.seed = case.world_seed;
    cfg.timeout = None;
    cfg.gateway_config.active = rc.active.try_into().unwrap();
    if let Some(i) = interceptor {
        cfg.stream_interceptor = i;
    }
    let world = Box::new(TestWorld::<WithShards<S>>::with_shards(&cfg));
    type Fut<'a> = Pin<Box<dyn Future<Output = ()> + Send + 'a>>;
    fn task<'a, C: ShardedContext + 'a>(ctx: C, part: Part, slots: Slots, idx: usize) -> Fut<'a> {
        Box::pin(async move {
            let out = one(ctx, part).await;
            slots.lock().unwrap()[idx] = Some(out);
        })
    }
    macro_rules! tasks {
        ($ctxs:expr) => {{
            let mut v = Vec::new();
            for (helper, hctxs) in $ctxs.into_iter().enumerate() {
                for (shard, ctx) in hctxs.into_iter().enumerate() {
                    let idx = helper * S + shard;
                    v.push(task(ctx, part_for(&case, &rc, helper, shard, Arc::clone(&logs[idx])), Arc::clone(&slots), idx));
                }
            }
            v
        }};
    }
    if rc.spawn {
        // Contexts borrow the world; tasks must be 'static: the world is leaked for the duration of the run and
        // freed once every task (each owns its context) has finished. A run that never finishes leaks it.
        let wref: &'static TestWorld<WithShards<S>> = Box::leak(world);
        let futs: Vec<Fut<'static>> = if case.malicious { tasks!(wref.malicious_contexts()) } else { tasks!(wref.contexts()) };
        let rt = IpaRuntime::current();
        let handles: Vec<_> = futs.into_iter().map(|f| rt.spawn(f)).collect();
        for h in handles {
            h.await;
        }
        // SAFETY: all borrowers have completed and were dropped; the pointer came from Box::leak above.
        unsafe {
            drop(Box::from_raw(std::ptr::from_ref(wref).cast_mut()));
        }
    } else {
        let futs: Vec<Fut<'_>> = if case.malicious { tasks!(world.malicious_contexts()) } else { tasks!(world.contexts()) };
        join_all(futs).await;
    }
}

fn collect(case: &Case, slots: &Slots, logs: &[PickLog], quiescent: bool, wall_timeout: bool) -> Run {
    let s = case.shards;
    let got = slots.lock().unwrap().clone();
    Run {
        outs: (0..3).map(|h| (0..s).map(|sh| got[h * s + sh].clone().unwrap_or(Out::NoOutput)).collect()).collect(),
        picks: (0..3).map(|h| (0..s).map(|sh| logs[h * s + sh].lock().unwrap().clone()).collect()).collect(),
        quiescent,
        wall_timeout,
    }
}

fn new_slots(case: &Case) -> (Slots, Vec<PickLog>) {
    let n = case.shards * 3;
    (Arc::new(Mutex::new(vec![None; n])), (0..n).map(|_| Arc::new(Mutex::new(Vec::new()))).collect())
}

#[cfg(not(feature = "shuttle"))]
fn run_s<const S: usize>(case: &Case, rc: RunCfg, interceptor: Option<DynStreamInterceptor>) -> Run {
    use std::time::Duration;
    let (slots, logs) = new_slots(case);
    let b = body::<S>(case.clone(), rc, interceptor, Arc::clone(&slots), logs.clone());
    let (quiescent, wall_timeout) = match rc.exec {
        Exec::Paused => (matches!(vlib::run_paused(Duration::from_secs(60), b), vlib::Paused::Quiescent), false),
        Exec::Mt(w) => (false, vlib::run_mt(w, Duration::from_secs(120), b).is_none()),
        Exec::Shuttle => unreachable!(),
    };
    collect(case, &slots, &logs, quiescent, wall_timeout)
}

#[cfg(not(feature = "shuttle"))]
pub fn run_case(case: &Case, rc: RunCfg, interceptor: Option<DynStreamInterceptor>) -> Run {
    match case.shards {
        1 => run_s::<1>(case, rc, interceptor),
        2 => run_s::<2>(case, rc, interceptor),
        3 => run_s::<3>(case, rc, interceptor),
        5 => run_s::<5>(case, rc, interceptor),
        n => panic!("unsupported shard count {n}"),
    }
}

// ---------------------------------------------------------------------------------------------
// oracle
// ---------------------------------------------------------------------------------------------

#[derive(Clone, Debug)]
pub struct Viol {
    what: &'static str,
    kind: &'static str,
    detail: Value,
}

/// layout[helper][shard] = (records in order, locally kept data in order)
pub type Layout = Vec<Vec<(Vec<u64>, Vec<u64>)>>;

/// Selection actually in force for the records of `helper`: computed by the harness, or (PRSS) read
/// from the picker log. The selection is a function of (record id, record): a picker call whose record id
/// is not the position of that record in its input stream is reported (how often or in which order the
/// picker is called is not judged).
fn selection(case: &Case, run: &Run, helper: usize, viols: &mut Vec<Viol>) -> BTreeMap<u64, u32> {
    let mut sel = BTreeMap::new();
    for o in 0..case.shards {
        let ids = case.ids(o);
        let log = &run.picks[helper][o];
        let wrong: Vec<_> = log
            .iter()
            .filter(|(rid, id, _)| origin_of(*id) as usize != o || ids.get(pos_of(*id) as usize) != Some(id) || pos_of(*id) != *rid)
            .collect();
        if !wrong.is_empty() {
            viols.push(Viol {
                what: "the shard picker was given a record id that is not the position of the record in the input stream",
                kind: "picker_record_id",
                detail: json!({"helper": helper, "origin": o, "calls": log.len(), "wrong_calls": wrong.len(),
                               "first": wrong.iter().take(4).map(|(r, i, t)| json!({"record_id": r, "record": format!("{i:x}"), "position": pos_of(*i), "chosen": t})).collect::<Vec<_>>()}),
            });
        }
        let logged: BTreeMap<u64, u32> = log.iter().map(|(_, i, t)| (*i, *t)).collect();
        for (p, id) in ids.iter().enumerate() {
            let t = if case.sel.is_prss() {
                match logged.get(id) {
                    Some(t) => *t,
                    None => continue,
                }
            } else {
                case.sel.target(*id, p as u32, case.shards)
            };
            sel.insert(*id, t);
        }
    }
    sel
}

/// Full oracle (1)-(3) for a run in which the listed helpers were not given any fault.
fn judge_honest(case: &Case, run: &Run, helpers: &[usize]) -> Result<Layout, Vec<Viol>> {
    let mut viols = Vec::new();
    let not_ok: Vec<_> = helpers
        .iter()
        .flat_map(|h| (0..case.shards).map(move |s| (*h, s)))
        .filter(|(h, s)| !matches!(run.outs[*h][*s], Out::Ok { .. }))
        .collect();
    if !not_ok.is_empty() {
        let classes: BTreeSet<&str> = not_ok.iter().map(|(h, s)| run.outs[*h][*s].class()).collect();
        viols.push(Viol {
            what: if run.quiescent { "honest resharding did not complete (every task idle, some shard without result)" }
                  else { "honest resharding did not return Ok on every helper and shard" },
            kind: if run.quiescent { "did_not_complete" } else { "honest_failure" },
            detail: json!({"classes": classes, "where": not_ok.iter().take(8).collect::<Vec<_>>()}),
        });
        return Err(viols);
    }
    let mut layout: Layout = vec![Vec::new(); 3];
    let mut input: Vec<u64> = (0..case.shards).flat_map(|s| case.ids(s)).collect();
    input.sort_unstable();
    for &h in helpers {
        let sel = selection(case, run, h, &mut viols);
        let mut all: Vec<u64> = Vec::with_capacity(input.len());
        for s in 0..case.shards {
            let Out::Ok { recs, data } = &run.outs[h][s] else { unreachable!() };
            all.extend(recs);
            // (2) placement
            let misplaced: Vec<&u64> = recs.iter().filter(|id| sel.get(id).is_some_and(|t| *t as usize != s)).collect();
            if !misplaced.is_empty() {
                viols.push(Viol {
                    what: "a record was delivered to a shard other than the one selected for it",
                    kind: "misplaced",
                    detail: json!({"helper": h, "shard": s, "count": misplaced.len(),
                                   "example": format!("{:x}", misplaced[0]), "selected": sel.get(misplaced[0])}),
                });
            }
            // reshard_aad: the data part stays where it was, nothing lost
            let d = match (case.api, data) {
                (Api::Aad, Some(d)) => {
                    let mut a = d.clone();
                    a.sort_unstable();
                    let mut b = case.ids(s);
                    b.sort_unstable();
                    if a != b {
                        viols.push(Viol {
                            what: "reshard_aad: the locally kept data differs (as a multiset) from the shard's input",
                            kind: "aad_data_multiset",
                            detail: json!({"helper": h, "shard": s, "kept": d.len(), "input": b.len()}),
                        });
                    }
                    d.clone()
                }
                _ => Vec::new(),
            };
            layout[h].push((recs.clone(), d));
        }
        // (1) multiset
        all.sort_unstable();
        if all != input {
            let got: BTreeSet<u64> = all.iter().copied().collect();
            let want: BTreeSet<u64> = input.iter().copied().collect();
            viols.push(Viol {
                what: "the multiset of records over all shards changed (lost, duplicated or foreign records)",
                kind: "multiset",
                detail: json!({"helper": h, "in": input.len(), "out": all.len(), "missing": want.difference(&got).count(),
                               "foreign": got.difference(&want).count(), "duplicates": all.len() - got.len(),
                               "example_missing": want.difference(&got).next().map(|x| format!("{x:x}"))}),
            });
        }
    }
    // (3) order across helpers
    let groups: Vec<Vec<usize>> = match case.sel {
        Sel::Prss { pair, .. } => vec![vec![pair, (pair + 1) % 3]],
        _ => vec![vec![0, 1, 2]],
    };
    for g in groups {
        let g: Vec<usize> = g.into_iter().filter(|h| helpers.contains(h)).collect();
        for w in g.windows(2) {
            let (a, b) = (w[0], w[1]);
            if case.sel.is_prss() {
                let same = (0..case.shards).all(|o| {
                    let x: Vec<_> = run.picks[a][o].iter().map(|(_, i, t)| (*i, *t)).collect();
                    let y: Vec<_> = run.picks[b][o].iter().map(|(_, i, t)| (*i, *t)).collect();
                    x == y
                });
                if !same {
                    viols.push(Viol {
                        what: "pick_shard on two helpers that share the randomness chose different shards for the same record",
                        kind: "prss_selection_disagrees",
                        detail: json!({"helpers": [a, b]}),
                    });
                    continue;
                }
            }
            for s in 0..case.shards {
                if layout[a][s].0 != layout[b][s].0 {
                    let pos = layout[a][s].0.iter().zip(&layout[b][s].0).position(|(x, y)| x != y);
                    viols.push(Viol {
                        what: "the order of the records on a shard differs between helpers",
                        kind: "order_differs_between_helpers",
                        detail: json!({"helpers": [a, b], "shard": s, "len": [layout[a][s].0.len(), layout[b][s].0.len()], "first_difference_at": pos}),
                    });
                    break;
                }
            }
        }
    }
    if case.api == Api::Aad {
        for w in helpers.windows(2) {
            if (0..case.shards).any(|s| layout[w[0]][s].1 != layout[w[1]][s].1) {
                viols.push(Viol {
                    what: "reshard_aad: the order of the locally kept data differs between helpers",
                    kind: "aad_data_order_differs_between_helpers",
                    detail: json!({"helpers": [w[0], w[1]]}),
                });
            }
        }
    }
    if viols.is_empty() { Ok(layout) } else { Err(viols) }
}

/// (4) same case, another schedule: same per-shard order on every helper.
fn compare_layouts(a: &Layout, b: &Layout, helpers: &[usize]) -> Option<Value> {
    for &h in helpers {
        for s in 0..a[h].len().min(b[h].len()) {
            if a[h][s] != b[h][s] {
                let pos = a[h][s].0.iter().zip(&b[h][s].0).position(|(x, y)| x != y);
                return Some(json!({"helper": h, "shard": s, "len": [a[h][s].0.len(), b[h][s].0.len()], "first_difference_at": pos,
                                   "kept_data_differs": a[h][s].1 != b[h][s].1}));
            }
        }
    }
    None
}

fn sig(case: &Case, kind: &str, exec: &str) -> Value {
    json!({"kind": kind, "api": case.api.name(), "selection": case.sel.name(), "malicious": case.malicious,
           "multi_shard": case.shards > 1, "executor": exec,
           "fault": case.fault.as_ref().map(Fault::kind), "shorter_than_hint": case.shorter_than_hint()})
}

fn exec_name(e: Exec) -> &'static str {
    match e {
        Exec::Paused => "paused",
        Exec::Mt(_) => "multi_thread",
        Exec::Shuttle => "shuttle",
    }
}

// ---------------------------------------------------------------------------------------------
// case generators
// ---------------------------------------------------------------------------------------------

const SHARD_SET: [usize; 4] = [1, 2, 3, 5];

fn gen_counts(r: &mut VRng, shards: usize, class: usize) -> (Vec<usize>, &'static str) {
    // n in 0..=200 per shard
    let max = *r.choose(&[1usize, 2, 3, 8, 17, 40, 100, 200]);
    match class % 6 {
        0 => ((0..shards).map(|_| r.below(max as u64 + 1) as usize).collect(), "seeded"),
        1 => {
            let k = r.below(shards as u64) as usize;
            ((0..shards).map(|s| if s == k { max } else { 0 }).collect(), "all_on_one_shard")
        }
        2 => {
            let k = r.below(shards as u64) as usize;
            ((0..shards).map(|s| if s == k { 0 } else { 1 + r.below(max as u64) as usize }).collect(), "one_shard_empty")
        }
        3 => (vec![max; shards], "equal"),
        4 => (vec![0; shards], "all_empty"),
        _ => ((0..shards).map(|s| if s % 2 == 0 { r.below(4) as usize } else { max }).collect(), "alternating"),
    }
}

fn gen_sel(r: &mut VRng, which: usize, shards: usize) -> Sel {
    match which % 5 {
        0 => Sel::AllToOne(r.below(shards as u64) as u32),
        1 => Sel::RoundRobin,
        2 => Sel::AllStay,
        3 => Sel::Hash(r.next()),
        _ => Sel::Prss { pair: r.below(3) as usize, third_right: r.bool() },
    }
}

fn gen_hint_extra(r: &mut VRng, shards: usize, on: bool) -> Vec<usize> {
    (0..shards).map(|_| if on { *r.choose(&[0usize, 1, 1, 7, 100]) } else { 0 }).collect()
}

/// Honest grid: idx -> (api, shard count, selection, mode) cycle through all combinations, the rest is seeded.
fn honest_case(seed: u64, idx: usize) -> (Case, &'static str) {
    let mut r = VRng::new(seed ^ 0xc19a, idx as u64);
    let api = APIS[idx % 4];
    let shards = SHARD_SET[(idx / 4) % 4];
    let sel = gen_sel(&mut r, idx / 16, shards);
    let malicious = (idx / 80) % 2 == 1;
    let class = idx / 160 + r.below(6) as usize;
    let (counts, placement) = gen_counts(&mut r, shards, class);
    let hint_extra = gen_hint_extra(&mut r, shards, api.fallible() && (idx / 4) % 3 != 0);
    (
        Case { api, shards, malicious, counts, id_salt: r.next(), sel, hint_extra, world_seed: seed.wrapping_mul(7919) ^ idx as u64, fault: None },
        placement,
    )
}

fn replay_case() -> Option<usize> {
    let p = vlib::env().replay?;
    let w: Value = serde_json::from_str(&std::fs::read_to_string(p).ok()?).ok()?;
    w["witness"]["case"].as_u64().map(|v| v as usize)
}

fn report(rec: &mut Recorder, case: &Case, idx: usize, exec: &str, viols: Vec<Viol>, extra: Value) {
    for v in viols {
        rec.violation(v.what, sig(case, v.kind, exec), json!({"case": idx, "reshard_case": case.to_json(), "detail": v.detail, "run": extra.clone()}));
    }
}

// ---------------------------------------------------------------------------------------------
// tests (tokio executors)
// ---------------------------------------------------------------------------------------------

#[cfg(not(feature = "shuttle"))]
fn run_cfgs(r: &mut VRng, idx: usize, thorough: bool) -> Vec<RunCfg> {
    let mut v = vec![RunCfg { exec: Exec::Paused, spawn: true, active: 16, jitter: 1 + r.next() % 1000 }];
    let alt_active = *r.choose(&[2usize, 4, 64]);
    let mt = RunCfg { exec: Exec::Mt(4), spawn: true, active: alt_active, jitter: 2000 + r.next() % 1000 };
    let joined = RunCfg { exec: Exec::Paused, spawn: false, active: *r.choose(&[1usize, 2, 8, 32]), jitter: if r.bool() { 0 } else { 5000 + r.next() % 1000 } };
    if thorough {
        v.push(mt);
        v.push(joined);
    } else if idx % 2 == 0 {
        v.push(mt);
    } else {
        v.push(joined);
    }
    v
}

#[cfg(not(feature = "shuttle"))]
#[test]
fn verif_c19_honest() {
    let env = vlib::env();
    let mut rec = Recorder::new("C19", "verif_c19_honest");
    let cases = env.pick(640, 14400);
    let only = replay_case();
    for idx in 0..cases {
        if !env.mine(idx) || only.is_some_and(|c| c != idx) {
            continue;
        }
        let (case, placement) = honest_case(env.seed, idx);
        let mut r = VRng::new(env.seed ^ 0xc19b, idx as u64);
        let cfgs = run_cfgs(&mut r, idx, env.thorough);
        let mut first: Option<(Layout, String)> = None;
        for rc in cfgs {
            let run = run_case(&case, rc, None);
            rec.eval();
            rec.seen("executors", rc.name());
            let (run, rc) = if run.wall_timeout {
                // no verdict from wall time: the same configuration is re-run under the paused clock to classify it
                rec.count("mt_runs_past_wall_guard");
                let rc2 = RunCfg { exec: Exec::Paused, ..rc };
                let again = run_case(&case, rc2, None);
                if matches!(judge_honest(&case, &again, &[0, 1, 2]), Ok(_)) {
                    rec.inconclusive(format!("case {idx}: multi-thread run hit the wall-clock guard; the paused-clock re-run completed"));
                    break;
                }
                (again, rc2)
            } else {
                (run, rc)
            };
            let run_json = json!({"cfg": rc.name(), "jitter": rc.jitter, "outs": run.outs_json(), "quiescent": run.quiescent});
            match judge_honest(&case, &run, &[0, 1, 2]) {
                Err(v) => {
                    report(&mut rec, &case, idx, exec_name(rc.exec), v, run_json);
                    // further schedules of a case that already failed add nothing (and a hang costs wall time on E-mt)
                    break;
                }
                Ok(layout) => {
                    rec.count("honest_runs_ok");
                    rec.add("records_placed_and_compared", 3 * case.total() as u64);
                    if case.shorter_than_hint() {
                        rec.count("stream_shorter_than_hint_ok");
                    }
                    if case.sel.is_prss() {
                        rec.count("prss_pair_agreed");
                        let used: BTreeSet<u32> = run.picks[0].iter().flatten().map(|p| p.2).collect();
                        if used.len() > 1 {
                            rec.count("prss_runs_using_several_targets");
                        }
                    }
                    match &first {
                        None => first = Some((layout, rc.name())),
                        Some((l0, n0)) => match compare_layouts(l0, &layout, &[0, 1, 2]) {
                            None => rec.count("cross_run_order_equal"),
                            Some(d) => rec.violation(
                                "the order of the records on a shard differs between two runs of the same input and selection",
                                sig(&case, "order_differs_between_runs", exec_name(rc.exec)),
                                json!({"case": idx, "reshard_case": case.to_json(), "detail": d, "runs": [n0, rc.name()]}),
                            ),
                        },
                    }
                }
            }
        }
        if first.is_some() {
            rec.distinct(&(case.api, case.shards, case.sel.name(), case.malicious, placement, case.counts.clone(), case.shorter_than_hint()));
            rec.seen("apis", case.api.name());
            rec.seen("selections", case.sel.name());
            rec.seen("shard_counts", case.shards.to_string());
            rec.seen("modes", if case.malicious { "malicious" } else { "semi_honest" });
            rec.seen("placements", placement);
            rec.seen("combinations", format!("{}/S{}/{}/{}", case.api.name(), case.shards, case.sel.name(), if case.malicious { "mal" } else { "sh" }));
        }
        if rec.want_sample() && idx % 37 == 5 {
            rec.sample(json!({"case": idx, "reshard_case": case.to_json(), "placement": placement}));
        }
    }
    rec.finish();
}

// ---- faults --------------------------------------------------------------------------------------

#[cfg(not(feature = "shuttle"))]
#[derive(Default)]
struct Tap {
    fault: Option<(usize, u32, u32, u32, usize)>,
    seen: u32,
    applied: Option<(usize, usize)>,
    chunks: Vec<(usize, u32, u32, usize)>,
}

#[cfg(not(feature = "shuttle"))]
fn tap(state: Arc<Mutex<Tap>>) -> DynStreamInterceptor {
    use crate::helpers::{HelperIdentity, in_memory_config::InspectContext};
    Arc::new(move |ctx: &InspectContext, data: &mut Vec<u8>| {
        if let InspectContext::ShardMessage { helper, source, dest, .. } = ctx {
            let h = if *helper == HelperIdentity::ONE { 0 } else if *helper == HelperIdentity::TWO { 1 } else { 2 };
            let (src, dst) = (u32::from(*source), u32::from(*dest));
            let mut st = state.lock().unwrap_or_else(|e| e.into_inner());
            st.chunks.push((h, src, dst, data.len()));
            if let Some((fh, fs, fd, chunk, cut)) = st.fault {
                if fh == h && fs == src && fd == dst {
                    if st.seen == chunk && st.applied.is_none() && !data.is_empty() {
                        let mut c = 1 + cut % data.len();
                        if c % 8 == 0 {
                            c -= 1;
                        }
                        let old = data.len();
                        data.truncate(old - c);
                        st.applied = Some((old, old - c));
                    }
                    st.seen += 1;
                }
            }
        }
    })
}

#[cfg(not(feature = "shuttle"))]
fn fault_case(seed: u64, idx: usize) -> Option<Case> {
    let mut r = VRng::new(seed ^ 0xc19f, idx as u64);
    let kind = idx % 3;
    let shards = SHARD_SET[(idx / 3) % 4];
    let api = if kind == 2 { APIS[(idx / 12) % 4] } else if (idx / 12) % 2 == 0 { Api::TryStream } else { Api::Aad };
    let sel = gen_sel(&mut r, (idx / 24) % 4, shards); // never PRSS: the expected sets come from the harness' selection
    let malicious = (idx / 96) % 2 == 1;
    let class = r.below(4) as usize;
    let (mut counts, _) = gen_counts(&mut r, shards, class);
    let helper = r.below(3) as usize;
    let with_extra = r.bool();
    let hint_extra = gen_hint_extra(&mut r, shards, api.fallible() && with_extra);
    let mut case = Case { api, shards, malicious, counts: counts.clone(), id_salt: r.next(), sel, hint_extra,
                          world_seed: seed.wrapping_mul(104_729) ^ idx as u64, fault: None };
    let fault = match kind {
        0 => {
            let shard = r.below(shards as u64) as usize;
            let n = counts[shard];
            let at = match r.below(4) { 0 => 0, 1 => n, _ => r.below(n as u64 + 1) as usize };
            Fault::ErrAt { helper, shard, at }
        }
        1 => {
            let shard = r.below(shards as u64) as usize;
            if counts[shard] == 0 {
                counts[shard] = 1 + r.below(20) as usize;
                case.counts = counts.clone();
            }
            let n = counts[shard];
            let hint = match r.below(3) { 0 => 0, 1 => n - 1, _ => r.below(n as u64) as usize };
            case.hint_extra[shard] = 0;
            Fault::LongerThanHint { helper, shard, hint }
        }
        _ => {
            if shards < 2 {
                return None;
            }
            // a channel that carries at least one record
            let mut pairs = Vec::new();
            for o in 0..shards {
                let mut per = vec![0usize; shards];
                for (p, id) in case.ids(o).iter().enumerate() {
                    per[case.sel.target(*id, p as u32, shards) as usize] += 1;
                }
                for (d, n) in per.iter().enumerate() {
                    if d != o && *n > 0 {
                        pairs.push((o as u32, d as u32, *n));
                    }
                }
            }
            if pairs.is_empty() {
                return None;
            }
            let (src, dst, n) = *r.choose(&pairs);
            // chunks hold up to `active` (16) records
            let chunk = r.below((n as u64).div_ceil(16)) as u32;
            Fault::Transport { helper, src, dst, chunk, cut: r.below(64) as usize }
        }
    };
    case.fault = Some(fault);
    Some(case)
}

#[cfg(not(feature = "shuttle"))]
#[test]
fn verif_c19_faults() {
    let env = vlib::env();
    let mut rec = Recorder::new("C19", "verif_c19_faults");
    let cases = env.pick(576, 11520);
    let only = replay_case();
    for idx in 0..cases {
        if !env.mine(idx) || only.is_some_and(|c| c != idx) {
            continue;
        }
        let Some(case) = fault_case(env.seed, idx) else { continue };
        let fault = case.fault.clone().unwrap();
        let fh = fault.helper();
        let mut r = VRng::new(env.seed ^ 0xc19e, idx as u64);
        let rc = RunCfg { exec: Exec::Paused, spawn: false, active: 16, jitter: if r.bool() { 0 } else { 1 + r.next() % 1000 } };
        let state = Arc::new(Mutex::new(Tap::default()));
        if let Fault::Transport { helper, src, dst, chunk, cut } = fault {
            state.lock().unwrap().fault = Some((helper, src, dst, chunk, cut));
        }
        let run = run_case(&case, rc, Some(tap(Arc::clone(&state))));
        let st = std::mem::take(&mut *state.lock().unwrap());
        if matches!(fault, Fault::Transport { .. }) && st.applied.is_none() {
            rec.count("transport_fault_not_applied");
            continue;
        }
        rec.eval();
        rec.seen("fault_kinds", fault.kind());
        rec.add("shard_chunks_seen", st.chunks.len() as u64);
        let run_json = json!({"cfg": rc.name(), "jitter": rc.jitter, "outs": run.outs_json(), "quiescent": run.quiescent, "applied": st.applied});
        // the two helpers without fault: the full honest oracle
        let honest: Vec<usize> = (0..3).filter(|h| *h != fh).collect();
        match judge_honest(&case, &run, &honest) {
            Ok(_) => rec.count("fault_runs_other_helpers_unaffected"),
            Err(v) => report(&mut rec, &case, idx, "paused", v, run_json.clone()),
        }
        // the faulted helper
        let (failing, consumed): (usize, Box<dyn Fn(usize) -> usize>) = match fault {
            Fault::ErrAt { shard, at, .. } => {
                let c = case.counts.clone();
                (shard, Box::new(move |o| if o == shard { at.min(c[o]) } else { c[o] }))
            }
            Fault::LongerThanHint { shard, hint, .. } => {
                let c = case.counts.clone();
                (shard, Box::new(move |o| if o == shard { hint } else { c[o] }))
            }
            Fault::Transport { dst, .. } => {
                let c = case.counts.clone();
                (dst as usize, Box::new(move |o| c[o]))
            }
        };
        let mut ok_everywhere = true;
        match &run.outs[fh][failing] {
            Out::Err(e) => {
                rec.count("failing_shard_returned_err");
                let class = if e.contains("InconsistentShares") { "InconsistentShares (the stream's own error)" }
                    else if e.contains("RecordIdOutOfRange") { "RecordIdOutOfRange" }
                    else if e.contains("extra bytes") { "stream terminated with extra bytes" }
                    else { "other" };
                rec.seen("error_classes", format!("{}: {class}", fault.kind()));
                ok_everywhere = false;
            }
            o => {
                if !matches!(o, Out::Ok { .. }) {
                    ok_everywhere = false;
                }
                rec.violation(
                    "a shard whose input stream failed / overran its size hint, or whose incoming byte stream ended inside a record, did not return Err",
                    sig(&case, match o { Out::Ok { .. } => "failing_shard_ok", Out::Panic(_) => "failing_shard_panic", _ => "failing_shard_no_result" }, "paused"),
                    json!({"case": idx, "reshard_case": case.to_json(), "run": run_json.clone()}),
                );
            }
        }
        // records every other shard must hold if it claims success
        let mut need: Vec<BTreeSet<u64>> = vec![BTreeSet::new(); case.shards];
        let mut may: Vec<BTreeSet<u64>> = vec![BTreeSet::new(); case.shards];
        let mut beyond: Vec<BTreeSet<u64>> = vec![BTreeSet::new(); case.shards];
        for o in 0..case.shards {
            for (p, id) in case.ids(o).iter().enumerate() {
                let t = case.sel.target(*id, p as u32, case.shards) as usize;
                may[t].insert(*id);
                // The fault is confined to one helper: the other two hold the whole input, so a shard of the
                // faulted helper that reports Ok with fewer records than selected for it is misaligned with its
                // peers on the other helpers. Records the failed stream never yielded count as dropped too.
                // A stream that is LONGER than its size hint is a broken promise of the caller, not an error item of the
                // stream: the send channels are declared with the hint as their total and close by themselves once that many
                // records went to one destination, so a peer can legitimately finish with everything up to the hint. Only the
                // records consumed before the overrun are required there (the overrunning shard itself must return Err).
                if !matches!(fault, Fault::LongerThanHint { .. }) || p < consumed(o) {
                    need[t].insert(*id);
                }
                if p >= consumed(o) {
                    beyond[t].insert(*id);
                }
            }
        }
        for s in 0..case.shards {
            if s == failing {
                continue;
            }
            match &run.outs[fh][s] {
                Out::Ok { recs, .. } => {
                    let got: BTreeSet<u64> = recs.iter().copied().collect();
                    let missing = need[s].difference(&got).count();
                    let foreign = got.difference(&may[s]).count();
                    let dup = recs.len() - got.len();
                    let never_sent = beyond[s].difference(&got).count();
                    if missing + foreign + dup > 0 {
                        rec.violation(
                            "after a failure elsewhere a shard returned Ok although records selected for it are missing (or foreign / duplicated)",
                            sig(&case, "ok_with_records_dropped", "paused"),
                            json!({"case": idx, "reshard_case": case.to_json(), "shard": s, "missing": missing, "missing_never_read_by_failed_shard": never_sent, "foreign": foreign, "duplicates": dup, "run": run_json.clone()}),
                        );
                    } else {
                        rec.count("other_shard_ok_and_complete");
                    }
                }
                Out::NoOutput => {
                    ok_everywhere = false;
                    rec.count("other_shard_waits_forever");
                }
                Out::Err(_) => {
                    ok_everywhere = false;
                    rec.count("other_shard_err");
                }
                Out::Panic(_) => {
                    ok_everywhere = false;
                    rec.count("other_shard_panic");
                }
            }
        }
        if ok_everywhere {
            rec.count("faulted_helper_all_ok");
        }
        rec.distinct(&(fault.kind(), case.api, case.shards, case.sel.name(), case.malicious, format!("{fault:?}"), case.counts.clone()));
        rec.seen("fault_combinations", format!("{}/{}/S{}", fault.kind(), case.api.name(), case.shards));
        if rec.want_sample() && idx % 29 == 3 {
            rec.sample(json!({"case": idx, "reshard_case": case.to_json(), "outs_of_faulted_helper": run.outs[fh].iter().map(Out::brief).collect::<Vec<_>>()}));
        }
    }
    rec.finish();
}

// ---------------------------------------------------------------------------------------------
// shuttle schedules
// ---------------------------------------------------------------------------------------------

#[cfg(feature = "shuttle")]
#[derive(Default)]
struct ShState {
    iterations: u64,
    ok: u64,
    first: Option<Layout>,
    viols: Vec<Viol>,
    order_diff: Option<Value>,
    layouts: BTreeSet<u64>,
}

#[cfg(feature = "shuttle")]
fn sh_once<const S: usize>(case: &Case, st: &Arc<Mutex<ShState>>) {
    let rc = RunCfg { exec: Exec::Shuttle, spawn: true, active: 16, jitter: 0 };
    let (slots, logs) = new_slots(case);
    shuttle::future::block_on(body::<S>(case.clone(), rc, None, Arc::clone(&slots), logs.clone()));
    let run = collect(case, &slots, &logs, false, false);
    let mut st = st.lock().unwrap();
    st.iterations += 1;
    match judge_honest(case, &run, &[0, 1, 2]) {
        Err(v) => {
            if st.viols.len() < 4 {
                st.viols.extend(v);
            }
        }
        Ok(layout) => {
            st.ok += 1;
            st.layouts.insert(vlib::fxhash(&layout));
            match &st.first {
                None => st.first = Some(layout),
                Some(f) => {
                    if let Some(d) = compare_layouts(f, &layout, &[0, 1, 2]) {
                        st.order_diff.get_or_insert(d);
                    }
                }
            }
        }
    }
}

#[cfg(feature = "shuttle")]
fn sh_case(seed: u64, idx: usize) -> Case {
    let mut r = VRng::new(seed ^ 0xc195, idx as u64);
    let api = APIS[idx % 4];
    let shards = [2usize, 3, 2, 5][(idx / 4) % 4];
    let sel = gen_sel(&mut r, idx / 16, shards);
    let malicious = (idx / 80) % 2 == 1 || (idx % 7 == 3);
    let max = *r.choose(&[2u64, 4, 9, 20]);
    let counts: Vec<usize> = (0..shards).map(|_| r.below(max + 1) as usize).collect();
    let hint_extra = gen_hint_extra(&mut r, shards, api.fallible() && idx % 3 != 0);
    Case { api, shards, malicious, counts, id_salt: r.next(), sel, hint_extra, world_seed: seed.wrapping_mul(31) ^ idx as u64, fault: None }
}

#[cfg(feature = "shuttle")]
#[test]
fn verif_c19_sh_schedules() {
    use shuttle::scheduler::{PctScheduler, RandomScheduler};
    let env = vlib::env();
    let mut rec = Recorder::new("C19", "verif_c19_sh_schedules");
    let cases = env.pick(120, 960);
    let iters = env.pick(8, 20);
    let only = replay_case();
    for idx in 0..cases {
        if !env.mine(idx) || only.is_some_and(|c| c != idx) {
            continue;
        }
        let case = sh_case(env.seed, idx);
        let st = Arc::new(Mutex::new(ShState::default()));
        let sched_seed = env.seed.wrapping_mul(0x5851_f42d) ^ idx as u64;
        for sched in ["random", "pct"] {
            let (c2, st2) = (case.clone(), Arc::clone(&st));
            let f = move || match c2.shards {
                2 => sh_once::<2>(&c2, &st2),
                3 => sh_once::<3>(&c2, &st2),
                5 => sh_once::<5>(&c2, &st2),
                n => panic!("unsupported shard count {n}"),
            };
            let mut config = shuttle::Config::new();
            config.stack_size = 0x4_0000;
            config.failure_persistence = shuttle::FailurePersistence::Print;
            let res = vlib::catch(move || {
                if sched == "random" {
                    shuttle::Runner::new(RandomScheduler::new_from_seed(sched_seed, iters), config).run(f)
                } else {
                    shuttle::Runner::new(PctScheduler::new_from_seed(sched_seed, 3, iters), config).run(f)
                }
            });
            if let Err(p) = res {
                let deadlock = p.contains("deadlock");
                rec.violation(
                    if deadlock { "honest resharding did not complete under a shuttle schedule (deadlock)" } else { "panic while resharding under a shuttle schedule" },
                    sig(&case, if deadlock { "did_not_complete" } else { "panic" }, "shuttle"),
                    json!({"case": idx, "reshard_case": case.to_json(), "scheduler": sched, "scheduler_seed": sched_seed, "iterations": iters,
                           "panic": p.chars().take(600).collect::<String>()}),
                );
            }
            rec.seen("schedulers", sched);
        }
        let mut g = st.lock().unwrap();
        rec.evals(g.iterations);
        rec.add("sh_schedules_run", g.iterations);
        rec.add("sh_schedules_ok_and_compared", g.ok);
        let viols = std::mem::take(&mut g.viols);
        report(&mut rec, &case, idx, "shuttle", viols, json!({"scheduler_seed": sched_seed, "iterations": iters}));
        if let Some(d) = g.order_diff.take() {
            rec.violation(
                "the order of the records on a shard differs between two schedules of the same input and selection",
                sig(&case, "order_differs_between_runs", "shuttle"),
                json!({"case": idx, "reshard_case": case.to_json(), "detail": d, "scheduler_seed": sched_seed, "iterations": iters}),
            );
        }
        if g.ok > 0 {
            rec.distinct(&(case.api, case.shards, case.sel.name(), case.malicious, case.counts.clone(), case.shorter_than_hint()));
            rec.seen("sh_combinations", format!("{}/S{}/{}", case.api.name(), case.shards, case.sel.name()));
            rec.seen("apis", case.api.name());
            rec.seen("selections", case.sel.name());
        }
        if rec.want_sample() && idx % 23 == 1 {
            rec.sample(json!({"case": idx, "reshard_case": case.to_json(), "schedules": g.iterations, "distinct_layouts": g.layouts.len()}));
        }
    }
    rec.finish();
}

// ---------------------------------------------------------------------------------------------
// resharding by PRF inside the hybrid protocol (incl. shards that start without rows)
// ---------------------------------------------------------------------------------------------
//
// `compute_prf_and_reshard` is the user of resharding whose selection is the revealed pseudonym. The pseudonyms are
// public and equal on all helpers, so the sequence of pseudonyms a (helper, shard) ends up with can be compared directly:
// identical on the three helpers, and identical between two runs of the same world in which one shard starts late.

#[cfg(not(feature = "shuttle"))]
async fn prf_reshard_world<const S: usize>(seed: u64, counts: Vec<usize>, late_shard: Option<usize>, malicious: bool) -> Vec<Vec<Result<Vec<u64>, String>>> {
    use crate::protocol::hybrid::oprf::compute_prf_and_reshard;
    use super::wl::{self, Rep};
    let mut cfg = TestWorldConfig::default();
    cfg.seed = seed;
    cfg.timeout = None;
    let world = TestWorld::<WithShards<S>>::with_shards(&cfg);
    let mut r = VRng::new(seed ^ 0xc19a, 1);
    let mut per: [Vec<Vec<wl::Row>>; 3] = std::array::from_fn(|_| vec![Vec::new(); S]);
    let mut mk = 1u64;
    for (s, n) in counts.iter().enumerate() {
        for k in 0..*n {
            // mostly unique match keys, a few pairs
            let rep = if k % 5 == 4 { Rep::Conv { mk: mk - 1, v: (k % 7) as u8 } } else { mk += 1; Rep::Imp { mk, bk: (k % 50) as u8 } };
            let [a, b, c] = wl::share_report(&rep, &mut r);
            per[0][s].push(a);
            per[1][s].push(b);
            per[2][s].push(c);
        }
    }
    let mut futs: Vec<Pin<Box<dyn Future<Output = (usize, usize, Result<Vec<u64>, String>)> + Send + '_>>> = Vec::new();
    macro_rules! spawn_all {
        ($ctxs:expr) => {
            for (h, (hctxs, hrows)) in $ctxs.into_iter().zip(per).enumerate() {
                for (s, (ctx, rows)) in hctxs.into_iter().zip(hrows).enumerate() {
                    futs.push(Box::pin(async move {
                        if late_shard == Some(s) {
                            tokio::time::sleep(std::time::Duration::from_secs(2)).await;
                        }
                        let out = match catch_fut(compute_prf_and_reshard(ctx, rows)).await {
                            Ok(Ok(v)) => Ok(v.iter().map(|rep| rep.match_key).collect()),
                            Ok(Err(e)) => Err(format!("{e:?}").chars().take(120).collect()),
                            Err(p) => Err(format!("panic: {p}").chars().take(120).collect()),
                        };
                        (h, s, out)
                    }));
                }
            }
        };
    }
    if malicious {
        spawn_all!(world.malicious_contexts());
    } else {
        spawn_all!(world.contexts());
    }
    let mut outs: Vec<Vec<Result<Vec<u64>, String>>> = vec![vec![Err("no result".into()); S]; 3];
    for (h, s, o) in join_all(futs).await {
        outs[h][s] = o;
    }
    outs
}

#[cfg(not(feature = "shuttle"))]
#[test]
fn verif_c19_prf_reshard_order() {
    let env = vlib::env();
    let mut rec = Recorder::new("C19", "verif_c19_prf_reshard_order");
    let cases = env.pick(16, 240);
    let only = replay_case();
    for idx in 0..cases {
        if !env.mine(idx) || only.is_some_and(|c| c != idx) {
            continue;
        }
        let mut r = VRng::new(env.seed ^ 0xc19c, idx as u64);
        let shards = [3usize, 5, 2, 3][idx % 4];
        // one or two shards start without rows (every second case), the others hold 3..24 rows
        let mut counts: Vec<usize> = (0..shards).map(|_| 3 + r.below(if env.thorough { 22 } else { 10 }) as usize).collect();
        let empties = if idx % 2 == 0 { 1 + (idx / 2) % 2 } else { 0 };
        for e in 0..empties.min(shards - 1) {
            counts[(idx / 4 + e * 2) % shards] = 0;
        }
        let malicious = idx % 3 != 0;
        let seed = env.seed.wrapping_mul(977) + idx as u64;
        let late = {
            let with_rows: Vec<usize> = (0..shards).filter(|s| counts[*s] > 0).collect();
            *r.choose(&with_rows)
        };
        let run = |late_shard: Option<usize>| {
            let counts = counts.clone();
            vlib::run_paused(std::time::Duration::from_secs(600), async move {
                match shards {
                    2 => prf_reshard_world::<2>(seed, counts, late_shard, malicious).await,
                    3 => prf_reshard_world::<3>(seed, counts, late_shard, malicious).await,
                    _ => prf_reshard_world::<5>(seed, counts, late_shard, malicious).await,
                }
            })
        };
        let witness = json!({"case": idx, "shards": shards, "rows_per_shard": counts, "malicious": malicious, "late_shard": late, "world_seed": seed});
        let mut layouts: Vec<Vec<Vec<u64>>> = Vec::new(); // per run: per shard sequence (of helper 0, after the cross-helper check)
        let mut failed = false;
        for late_shard in [None, Some(late)] {
            rec.eval();
            let outs = match run(late_shard) {
                vlib::Paused::Quiescent => {
                    rec.violation("PRF evaluation and resharding did not complete", json!({"kind": "prf_reshard_no_completion", "empty_shards": empties > 0}), witness.clone());
                    failed = true;
                    break;
                }
                vlib::Paused::Done(o) => o,
            };
            if let Some((h, s, e)) = outs.iter().enumerate().find_map(|(h, v)| v.iter().enumerate().find_map(|(s, o)| o.as_ref().err().map(|e| (h, s, e.clone())))) {
                rec.violation("PRF evaluation and resharding failed on an honest run", json!({"kind": "prf_reshard_failed", "empty_shards": empties > 0}),
                              json!({"w": witness, "helper": h, "shard": s, "error": e}));
                failed = true;
                break;
            }
            let seqs: Vec<Vec<Vec<u64>>> = outs.into_iter().map(|v| v.into_iter().map(Result::unwrap).collect()).collect();
            // identical on the three helpers, on the selected shard, nothing lost
            let total: usize = seqs[0].iter().map(Vec::len).sum();
            let misplaced = seqs[0].iter().enumerate().any(|(s, v)| v.iter().any(|mk| (*mk % shards as u64) as usize != s));
            if total != counts.iter().sum::<usize>() || misplaced {
                rec.violation("reports were lost, duplicated or placed on a shard other than pseudonym mod shard count", json!({"kind": "prf_reshard_placement"}),
                              json!({"w": witness, "held": seqs[0].iter().map(Vec::len).collect::<Vec<_>>()}));
                failed = true;
                break;
            }
            if let Some(s) = (0..shards).find(|s| seqs[1][*s] != seqs[0][*s] || seqs[2][*s] != seqs[0][*s]) {
                rec.violation("after resharding by pseudonym the three helpers hold the reports of a shard in different orders", json!({"kind": "prf_reshard_order_differs_between_helpers", "empty_shards": empties > 0}),
                              json!({"w": witness, "shard": s, "late_start": late_shard}));
                failed = true;
                break;
            }
            rec.count("prf_reshard_runs_aligned_across_helpers");
            layouts.push(seqs.into_iter().next().unwrap());
        }
        if failed {
            continue;
        }
        if layouts[0] != layouts[1] {
            let s = (0..shards).find(|s| layouts[0][*s] != layouts[1][*s]).unwrap();
            rec.violation(
                "the order in which a shard holds its reports after resharding by pseudonym depends on timing (one shard started late)",
                json!({"kind": "prf_reshard_order_depends_on_timing", "receiving_shard_started_empty": counts[s] == 0}),
                json!({"w": witness, "shard": s}),
            );
        } else {
            rec.count("prf_reshard_order_equal_between_timings");
            if empties > 0 {
                rec.count("prf_reshard_cases_with_shards_without_rows");
            }
            rec.distinct(&("prf", shards, counts.clone(), malicious, late));
        }
        if rec.want_sample() && idx % 7 == 1 {
            rec.sample(witness);
        }
    }
    rec.finish();
}
