// Included by hook H3b inside `crate::protocol::context::dzkp_validator` (access to Batch internals).
#[cfg(descriptive_gate)]
pub(crate) mod c03 {
    include!(concat!(env!("IPA_VERIF_DIR"), "/harness/c03.rs"));
}
