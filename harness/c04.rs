// C04 MAC-checked arithmetic and openings detect any additive deviation.
//
// Protocol under test per record i: upgrade(a_i), upgrade(b_i), c = a*b, d = c*a (MAC multiplies),
// validate_record(i), reveal(d). Batches = active work. The interceptor alters one message of one
// sender (additive +1 on an element, or bit flips). Oracle: honest runs validate and open a*b*a;
// with a fault at least one honest helper must fail (Fp32BitPrime / Fp25519: always; Fp31: counted
// against a binomial allowance). Also the PRF evaluation path (eval_dy_prf over Fp25519).
// Adaptive adversaries (end of file): errors built from the opened MAC key of another batch (stream interceptor) and a
// rushing deviating party that withholds multiplication messages until it has received a share of the same batch's key.

use std::{
    collections::BTreeMap,
    sync::{Arc, Mutex},
    time::Duration,
};

use futures::future::join_all;
use ipa_step::StepNarrow;
use serde_json::{Value, json};

use super::{
    vlib::{self, Paused, Recorder, VRng, catch_fut},
    wl::{self, ChunkInfo, Fault, Pattern, TapState},
};
use crate::{
    error::Error,
    ff::{Field, Fp31, Fp32BitPrime, U128Conversions, ec_prime_field::Fp25519},
    helpers::{TotalRecords, in_memory_config::DynStreamInterceptor},
    protocol::{
        RecordId,
        basics::{Reveal, SecureMul},
        context::{Context, UpgradableContext, UpgradedContext, Validator, upgrade::Upgradable},
        ipa_prf::prf_eval::{eval_dy_prf, gen_prf_key},
    },
    secret_sharing::{
        SharedValue,
        replicated::{ReplicatedSecretSharing, semi_honest::AdditiveShare as Replicated},
    },
    seq_join::SeqJoin,
    test_fixture::{TestWorld, TestWorldConfig},
};

#[derive(Clone, Debug)]
pub struct MacCase {
    pub field: &'static str,
    pub count: usize,
    pub active: u32,
    pub seed: u64,
}

/// per helper: Ok(opened values as u128 / low 128 bits) | Err(text) | panic text
pub type HelperRes = Result<Result<Vec<u128>, String>, String>;

fn share_field<F: Field>(v: F, r: &mut VRng) -> [Replicated<F>; 3]
where
    rand::distributions::Standard: rand::distributions::Distribution<F>,
{
    use rand::Rng;
    let s0: F = r.r#gen();
    let s1: F = r.r#gen();
    let s2 = v - s0 - s1;
    [Replicated::new(s0, s1), Replicated::new(s1, s2), Replicated::new(s2, s0)]
}

fn low128_fp25519(v: Fp25519) -> u128 {
    use crate::ff::Serializable;
    let mut buf = generic_array::GenericArray::default();
    v.serialize(&mut buf);
    let mut b = [0u8; 16];
    b.copy_from_slice(&buf[..16]);
    u128::from_le_bytes(b)
}

macro_rules! mac_body {
    ($name:ident, $f:ty, $to_u128:expr) => {
        async fn $name(case: MacCase, interceptor: DynStreamInterceptor) -> (Vec<HelperRes>, Vec<u128>) {
            use rand::Rng;
            let mut cfg = TestWorldConfig::default();
            cfg.seed = case.seed;
            cfg.timeout = None;
            cfg.stream_interceptor = interceptor;
            cfg.gateway_config.active = (case.active as usize).try_into().unwrap();
            let world = TestWorld::new_with(&cfg);
            let mut r = VRng::new(case.seed ^ 0xc04, 3);
            let mut inputs: [Vec<(Replicated<$f>, Replicated<$f>)>; 3] = Default::default();
            let mut expect = Vec::new();
            for i in 0..case.count {
                // boundary values first, then random
                let a: $f = match i { 0 => <$f>::ZERO, 1 => <$f>::ONE, 2 => <$f>::ZERO - <$f>::ONE, _ => r.r#gen() };
                let b: $f = match i { 1 => <$f>::ZERO - <$f>::ONE, _ => r.r#gen() };
                expect.push($to_u128(a * b * a));
                let sa = share_field(a, &mut r);
                let sb = share_field(b, &mut r);
                for h in 0..3 {
                    inputs[h].push((sa[h].clone(), sb[h].clone()));
                }
            }
            let ctxs = world.malicious_contexts();
            let futs = ctxs.into_iter().zip(inputs).map(|(ctx, inp)| {
                let count = case.count;
                async move {
                    catch_fut(async move {
                        let ctx = ctx.set_total_records(TotalRecords::specified(count).unwrap());
                        let v = ctx.validator::<$f>();
                        let m_ctx = v.context();
                        let out = m_ctx
                            .try_join(inp.into_iter().enumerate().map(|(i, (a, b))| {
                                let ctx = m_ctx.clone();
                                async move {
                                    let rid = RecordId::from(i);
                                    let (am, bm) = (a, b).upgrade(ctx.narrow("upgrade"), rid).await?;
                                    let c = am.multiply(&bm, ctx.narrow("mul1"), rid).await?;
                                    let d = c.multiply(&am, ctx.narrow("mul2"), rid).await?;
                                    ctx.validate_record(rid).await?;
                                    let opened = d.reveal(ctx.narrow("open"), rid).await?;
                                    Ok::<_, Error>($to_u128(<$f>::from_array(&opened)))
                                }
                            }))
                            .await?;
                        Ok::<_, Error>(out)
                    })
                    .await
                    .map(|r| r.map_err(|e| format!("{e:?}")))
                }
            });
            (join_all(futs).await, expect)
        }
    };
}
mac_body!(mac_fp31, Fp31, |v: Fp31| v.as_u128());
mac_body!(mac_fp32, Fp32BitPrime, |v: Fp32BitPrime| v.as_u128());
mac_body!(mac_fp25519, Fp25519, low128_fp25519);

/// PRF evaluation path (production field, validate-before-reveal inside eval_dy_prf)
async fn prf_body(case: MacCase, interceptor: DynStreamInterceptor) -> (Vec<HelperRes>, Vec<u128>) {
    use rand::Rng;
    let mut cfg = TestWorldConfig::default();
    cfg.seed = case.seed;
    cfg.timeout = None;
    cfg.stream_interceptor = interceptor;
    cfg.gateway_config.active = (case.active as usize).try_into().unwrap();
    let world = TestWorld::new_with(&cfg);
    let mut r = VRng::new(case.seed ^ 0xc04f, 3);
    let mut inputs: [Vec<Replicated<Fp25519>>; 3] = Default::default();
    for i in 0..case.count {
        // two equal inputs must give equal pseudonyms (checked by the caller via `expect` = index of first equal input)
        let x: Fp25519 = if i == 1 { Fp25519::ZERO } else if i == 3 { Fp25519::ONE } else { r.r#gen() };
        let sx = share_field(x, &mut r);
        for h in 0..3 {
            inputs[h].push(sx[h].clone());
        }
    }
    let ctxs = world.malicious_contexts();
    let futs = ctxs.into_iter().zip(inputs).map(|(ctx, inp)| {
        let count = case.count;
        async move {
            catch_fut(async move {
                let key = gen_prf_key::<_, 1>(&ctx.narrow("prf-key"));
                let ctx = ctx.narrow("eval").set_total_records(TotalRecords::specified(count).unwrap());
                let v = ctx.validator::<Fp25519>();
                let m_ctx = v.context();
                let out = m_ctx
                    .try_join(inp.into_iter().enumerate().map(|(i, x)| {
                        let ctx = m_ctx.clone();
                        let key = key.clone();
                        async move { eval_dy_prf::<_, 1>(ctx, RecordId::from(i), &key, x).await.map(|a| u128::from(a[0])) }
                    }))
                    .await?;
                Ok::<_, Error>(out)
            })
            .await
            .map(|r| r.map_err(|e| format!("{e:?}")))
        }
    });
    (join_all(futs).await, Vec::new())
}

/// PRF evaluation with 16 lanes per record (the production vectorisation) under a coordinated attack by one helper:
/// +d on lane `l0` and -d on lane `l1` of its multiplication message (to its left peer) and the same offsets on the
/// share it sends when the product is revealed (to its right peer). The zero-sum pattern is what a MAC that does not
/// bind every lane separately would miss. Returns per helper Ok(pseudonyms)/Err.
async fn prf16_lane_attack(seed: u64, attacker: usize, l0: usize, l1: usize, honest: bool) -> Vec<HelperRes> {
    use rand::Rng;
    use crate::ff::Serializable;
    let mut cfg = TestWorldConfig::default();
    cfg.seed = seed;
    cfg.timeout = None;
    let hits = Arc::new(Mutex::new(0u32));
    if !honest {
        let hits = Arc::clone(&hits);
        cfg.stream_interceptor = Arc::new(move |ctx: &crate::helpers::in_memory_config::InspectContext, data: &mut Vec<u8>| {
            if let crate::helpers::in_memory_config::InspectContext::MpcMessage { source, dest, gate, .. } = ctx {
                let ids = [crate::helpers::HelperIdentity::ONE, crate::helpers::HelperIdentity::TWO, crate::helpers::HelperIdentity::THREE];
                let src = ids.iter().position(|i| i == source).unwrap();
                let dst = ids.iter().position(|i| i == dest).unwrap();
                let g = gate.as_ref();
                let mult = g.ends_with("mult_mask_with_p_r_f_input") && dst == (attacker + 2) % 3;
                let reveal = g.ends_with("revealz") && dst == (attacker + 1) % 3;
                if src == attacker && (mult || reveal) && data.len() >= 32 * 16 {
                    let d = Fp25519::from(0x1234_5678_9abc_def1_u64);
                    for (lane, sign) in [(l0, true), (l1, false)] {
                        let sl = &mut data[32 * lane..32 * (lane + 1)];
                        let v = Fp25519::deserialize_infallible(generic_array::GenericArray::from_slice(sl));
                        let v = if sign { v + d } else { v - d };
                        let mut buf = generic_array::GenericArray::default();
                        v.serialize(&mut buf);
                        sl.copy_from_slice(&buf);
                    }
                    *hits.lock().unwrap() += 1;
                }
            }
        });
    }
    let world = TestWorld::new_with(&cfg);
    let mut r = VRng::new(seed ^ 0xc04a, 5);
    let mut inputs: [Vec<Replicated<Fp25519, 16>>; 3] = Default::default();
    {
        let lanes: [[Replicated<Fp25519>; 3]; 16] = std::array::from_fn(|_| {
            let x: Fp25519 = r.r#gen();
            share_field(x, &mut r)
        });
        for h in 0..3 {
            let l: [Fp25519; 16] = std::array::from_fn(|k| lanes[k][h].left());
            let rr: [Fp25519; 16] = std::array::from_fn(|k| lanes[k][h].right());
            inputs[h].push(Replicated::<Fp25519, 16>::new_arr(l.to_vec().try_into().unwrap(), rr.to_vec().try_into().unwrap()));
        }
    }
    let ctxs = world.malicious_contexts();
    let futs = ctxs.into_iter().zip(inputs).map(|(ctx, inp)| async move {
        catch_fut(async move {
            let key = gen_prf_key::<_, 1>(&ctx.narrow("prf-key"));
            let ctx = ctx.narrow("eval").set_total_records(TotalRecords::ONE);
            let v = ctx.validator::<Fp25519>();
            let m_ctx = v.context();
            let x = inp.into_iter().next().unwrap();
            let out = eval_dy_prf::<_, 16>(m_ctx, RecordId::FIRST, &key, x).await?;
            Ok::<_, Error>(out.iter().map(|v| u128::from(*v)).collect::<Vec<_>>())
        })
        .await
        .map(|r| r.map_err(|e| format!("{e:?}")))
    });
    let res = join_all(futs).await;
    // (on a correct tree validation fails before the reveal, so only the first of the two messages is ever sent)
    if !honest && *hits.lock().unwrap() == 0 {
        return vec![Err("attack-not-applied".into())];
    }
    res
}

#[test]
fn verif_c04_cross_lane_attack() {
    let env = vlib::env();
    let mut rec = Recorder::new("C04", "verif_c04_cross_lane_attack");
    let n = env.pick(9, 45);
    for idx in 0..n {
        if !env.mine(idx) {
            continue;
        }
        let seed = env.seed.wrapping_mul(8111) + (idx / 3) as u64;
        let attacker = idx % 3;
        let mut r = VRng::new(env.seed ^ 0x1a9e, idx as u64);
        let l0 = r.below(16) as usize;
        let l1 = (l0 + 1 + r.below(15) as usize) % 16;
        let honest = match vlib::run_paused(Duration::from_secs(60), prf16_lane_attack(seed, attacker, l0, l1, true)) {
            Paused::Done(v) => v,
            Paused::Quiescent => vec![],
        };
        let expected: Option<Vec<u128>> = match honest.as_slice() {
            [Ok(Ok(a)), Ok(Ok(b)), Ok(Ok(c))] if a == b && b == c => Some(a.clone()),
            _ => None,
        };
        rec.eval();
        let Some(expected) = expected else {
            rec.violation("honest 16-lane PRF evaluation failed", json!({"kind": "honest_failed", "field": "PRF16"}), json!({"case": idx, "res": format!("{honest:?}").chars().take(300).collect::<String>()}));
            continue;
        };
        rec.count("honest_prf16_runs");
        let out = vlib::run_paused(Duration::from_secs(60), prf16_lane_attack(seed, attacker, l0, l1, false));
        rec.eval();
        match out {
            Paused::Quiescent => {
                rec.count("lane_attack_detected");
                rec.distinct(&("lane_attack", attacker, l0, l1));
            }
            Paused::Done(res) if res.len() == 1 => rec.inconclusive(format!("case {idx}: the cross-lane attack did not hit any message")),
            Paused::Done(res) => {
                let honest_ok: Vec<&Vec<u128>> = (0..3).filter(|h| *h != attacker).filter_map(|h| match &res[h] { Ok(Ok(v)) => Some(v), _ => None }).collect();
                if honest_ok.len() < 2 {
                    rec.count("lane_attack_detected");
                    rec.distinct(&("lane_attack", attacker, l0, l1));
                } else if honest_ok.iter().all(|v| **v == expected) {
                    rec.count("lane_attack_accepted_but_values_unchanged");
                } else {
                    rec.violation(
                        "a zero-sum additive attack across two lanes of one vectorised record passed MAC validation and changed the opened values",
                        json!({"kind": "cross_lane_attack_accepted", "field": "Fp25519x16"}),
                        json!({"case": idx, "attacker": attacker, "lanes": [l0, l1], "seed": seed}),
                    );
                }
            }
        }
    }
    rec.sample(json!({"attack": "+d on lane a, -d on lane b of the multiplication message and of the revealed share", "lanes": 16}));
    rec.finish();
}

// ---- every malicious-context opening compares the two received copies ---------------------------------------

/// kinds: 0 = MAC ctx / plain share, 1 = MAC ctx / MAC share, 2 = sharded MAC ctx / plain share,
/// 3 = sharded MAC ctx / MAC share, 4 = DZKP malicious ctx / plain share, 5 = sharded DZKP malicious ctx / plain share
const REVEAL_KINDS: [&str; 6] = ["mac/plain", "mac/upgraded", "sharded-mac/plain", "sharded-mac/upgraded", "dzkp/plain", "sharded-dzkp/plain"];

macro_rules! open_with {
    ($ctx:expr, $share:expr, $kind:expr) => {{
        let ctx = $ctx.set_total_records(TotalRecords::ONE);
        let share: Replicated<Fp32BitPrime> = $share;
        catch_fut(async move {
            let rid = RecordId::FIRST;
            match $kind {
                0 | 2 => {
                    let v = ctx.validator::<Fp32BitPrime>();
                    let m = v.context();
                    let o = share.reveal(m.narrow("c04-open"), rid).await?;
                    Ok::<_, Error>(Fp32BitPrime::from_array(&o).as_u128())
                }
                1 | 3 => {
                    let v = ctx.validator::<Fp32BitPrime>();
                    let m = v.context();
                    let up = share.upgrade(m.narrow("c04-up"), rid).await?;
                    m.validate_record(rid).await?;
                    let o = up.reveal(m.narrow("c04-open"), rid).await?;
                    Ok(Fp32BitPrime::from_array(&o).as_u128())
                }
                _ => {
                    let v = ctx.dzkp_validator(crate::protocol::context::TEST_DZKP_STEPS, 1);
                    let m = v.context();
                    let o = share.reveal(m.narrow("c04-open"), rid).await?;
                    Ok(Fp32BitPrime::from_array(&o).as_u128())
                }
            }
        })
    }};
}

async fn reveal_world(kind: usize, seed: u64, interceptor: DynStreamInterceptor) -> Vec<[HelperRes; 3]> {
    use crate::protocol::context::dzkp_validator::DZKPValidator;
    let mut cfg = TestWorldConfig::default();
    cfg.seed = seed;
    cfg.timeout = None;
    cfg.stream_interceptor = interceptor;
    let mut r = VRng::new(seed ^ 0x0be4, 1);
    let secret = Fp32BitPrime::truncate_from(77_777u128 + u128::from(seed % 1000));
    let conv = |x: Result<Result<u128, Error>, String>| -> HelperRes { x.map(|r| r.map(|v| vec![v]).map_err(|e| format!("{e:?}"))) };
    if kind == 2 || kind == 3 || kind == 5 {
        let world = TestWorld::<crate::test_fixture::WithShards<2>>::with_shards(&cfg);
        let ctxs = world.malicious_contexts();
        let mut futs = Vec::new();
        let shares: [[Replicated<Fp32BitPrime>; 3]; 2] = [share_field(secret, &mut r), share_field(secret, &mut r)];
        for (h, hctx) in ctxs.into_iter().enumerate() {
            for (sh, ctx) in hctx.into_iter().enumerate() {
                let share = shares[sh][h].clone();
                futs.push(async move { (sh, h, open_with!(ctx, share, kind).await) });
            }
        }
        let mut out: Vec<[HelperRes; 3]> = vec![std::array::from_fn(|_| Err("missing".into())), std::array::from_fn(|_| Err("missing".into()))];
        for (sh, h, r) in join_all(futs).await {
            out[sh][h] = conv(r);
        }
        out
    } else {
        let world = TestWorld::new_with(&cfg);
        let ctxs = world.malicious_contexts();
        let shares = share_field(secret, &mut r);
        let futs = ctxs.into_iter().zip(shares).map(|(ctx, share)| async move { open_with!(ctx, share, kind).await });
        let v = join_all(futs).await;
        let mut it = v.into_iter();
        vec![[conv(it.next().unwrap()), conv(it.next().unwrap()), conv(it.next().unwrap())]]
    }
}

#[test]
fn verif_c04_reveal_copies() {
    let env = vlib::env();
    let mut rec = Recorder::new("C04", "verif_c04_reveal_copies");
    let mut idx = 0usize;
    for kind in 0..REVEAL_KINDS.len() {
        for rep in 0..env.pick(1, 4) {
            let seed = env.seed.wrapping_mul(9001) + (kind * 10 + rep) as u64;
            let st = Arc::new(Mutex::new(TapState::default()));
            let honest = vlib::run_paused(Duration::from_secs(60), reveal_world(kind, seed, wl::tap(Arc::clone(&st))));
            let st = std::mem::take(&mut *st.lock().unwrap());
            let want = 77_777u128 + u128::from(seed % 1000);
            let honest_ok = matches!(&honest, Paused::Done(v) if v.iter().all(|s| s.iter().all(|h| matches!(h, Ok(Ok(x)) if x == &vec![want]))));
            idx += 1;
            if env.mine(idx) {
                rec.eval();
                if honest_ok {
                    rec.count("honest_openings_ok");
                    rec.distinct(&("open", kind, rep));
                } else {
                    rec.violation("an honest opening failed or returned a wrong value", json!({"kind": "honest_open_failed", "flavour": REVEAL_KINDS[kind]}),
                        json!({"case": idx, "seed": seed, "res": match &honest { Paused::Done(v) => format!("{v:?}").chars().take(300).collect::<String>(), Paused::Quiescent => "quiescent".into() }}));
                }
            }
            if !honest_ok {
                continue;
            }
            // alter each chunk of the opening step, one at a time
            for c in st.chunks.iter().filter(|c| c.key.gate.contains("c04-open")) {
                for pat in 0..2 {
                    idx += 1;
                    if !env.mine(idx) {
                        continue;
                    }
                    let pattern = if pat == 0 { Pattern::AddOne { byte: 0, width: 4 } } else { Pattern::FlipBit { byte: 1, bit: 3 } };
                    let fault = Fault { key: c.key.clone(), chunk_no: c.chunk_no, pattern };
                    let st2 = Arc::new(Mutex::new(TapState { fault: Some(fault.clone()), ..Default::default() }));
                    let out = vlib::run_paused(Duration::from_secs(60), reveal_world(kind, seed, wl::tap(Arc::clone(&st2))));
                    let applied = st2.lock().unwrap().fault_applied;
                    if !matches!(applied, Some((_, true))) {
                        rec.count("fault_not_applied");
                        continue;
                    }
                    rec.eval();
                    let shard = c.key.shard as usize;
                    let dst = c.key.dst as usize;
                    // the receiver of the altered copy must not open a value
                    let receiver_opened = match &out {
                        Paused::Quiescent => false,
                        Paused::Done(v) => matches!(&v[shard.min(v.len() - 1)][dst], Ok(Ok(_))),
                    };
                    if receiver_opened {
                        rec.violation(
                            "a helper opened a value although one of the two copies of the missing share it received was altered",
                            json!({"kind": "opened_with_mismatching_copies", "flavour": REVEAL_KINDS[kind]}),
                            json!({"case": idx, "seed": seed, "fault": fault.to_json(),
                                   "res": match &out { Paused::Done(v) => format!("{v:?}").chars().take(300).collect::<String>(), Paused::Quiescent => "quiescent".into() }}),
                        );
                    } else {
                        rec.count("altered_copy_rejected");
                        rec.seen("reveal_flavours_faulted", REVEAL_KINDS[kind]);
                        rec.distinct(&("open-fault", kind, c.key.src, c.key.dst, c.key.shard, pat));
                    }
                }
            }
        }
    }
    rec.sample(json!({"flavours": REVEAL_KINDS}));
    rec.finish();
}

pub fn run_mac(case: &MacCase, fault: Option<Fault>) -> (Paused<(Vec<HelperRes>, Vec<u128>)>, TapState) {
    let st = Arc::new(Mutex::new(TapState { fault, ..Default::default() }));
    let tap = wl::tap(Arc::clone(&st));
    let c = case.clone();
    let out = vlib::run_paused(Duration::from_secs(60), async move {
        match c.field {
            "Fp31" => mac_fp31(c, tap).await,
            "Fp32BitPrime" => mac_fp32(c, tap).await,
            "Fp25519" => mac_fp25519(c, tap).await,
            _ => prf_body(c, tap).await,
        }
    });
    let st = std::mem::take(&mut *st.lock().unwrap());
    (out, st)
}

fn elem_size(field: &str, fam: &str) -> usize {
    // serialized size of the elements travelling on a channel (MAC accumulators travel in the extended field)
    match field {
        "Fp31" => if fam.contains("validate") || fam.contains("upgrade") || fam.contains("duplicate") { 4 } else { 1 },
        "Fp32BitPrime" => 4,
        _ => 32,
    }
}

fn honest_ok(res: &[HelperRes], expect: &[u128], is_prf: bool) -> Result<(), String> {
    let mut vals: Vec<&Vec<u128>> = Vec::new();
    for (h, r) in res.iter().enumerate() {
        match r {
            Ok(Ok(v)) => vals.push(v),
            other => return Err(format!("helper {h}: {other:?}").chars().take(200).collect()),
        }
    }
    if vals[0] != vals[1] || vals[1] != vals[2] {
        return Err("helpers opened different values".into());
    }
    if !is_prf && vals[0] != expect {
        return Err(format!("opened values differ from a*b*a: got {:?} want {:?}", &vals[0][..vals[0].len().min(4)], &expect[..expect.len().min(4)]));
    }
    Ok(())
}

/// one-sided bound: P[Binomial(n, p) >= u] < 1e-9 ?  (normal approximation with a generous margin, exact for tiny n)
fn exceeds_allowance(u: u64, n: u64, p: f64) -> bool {
    if n == 0 {
        return false;
    }
    let mean = n as f64 * p;
    let sd = (n as f64 * p * (1.0 - p)).sqrt();
    (u as f64) > mean + 6.5 * sd + 3.0
}

#[test]
fn verif_c04_mac_faults() {
    let env = vlib::env();
    let mut rec = Recorder::new("C04", "verif_c04_mac_faults");
    // (field, count, active): 1, 2 and 3 batches incl. a short last batch
    let mut configs: Vec<(&'static str, usize, u32)> = vec![
        ("Fp32BitPrime", 2, 2), ("Fp32BitPrime", 7, 4), ("Fp25519", 3, 2), ("Fp25519", 9, 4), ("Fp31", 5, 2), ("PRF", 6, 4),
        ("Fp32BitPrime", 12, 4), ("Fp25519", 5, 2), ("Fp31", 9, 4), ("PRF", 9, 2), ("PRF", 4, 4),
    ];
    if env.thorough {
        configs.extend([("Fp32BitPrime", 33, 16), ("Fp25519", 16, 16), ("Fp31", 20, 16), ("PRF", 17, 16), ("Fp32BitPrime", 3, 2), ("Fp25519", 12, 4)]);
    }
    let mut idx = 0usize;
    let mut fp31_faults = 0u64;
    let mut fp31_undetected = 0u64;
    for (ci, (field, count, active)) in configs.into_iter().enumerate() {
        let case = MacCase { field, count, active, seed: env.seed.wrapping_mul(4001) + ci as u64 };
        let is_prf = field == "PRF";
        let (honest, st) = run_mac(&case, None);
        let hok = match &honest {
            Paused::Done((res, expect)) => honest_ok(res, expect, is_prf),
            Paused::Quiescent => Err("did not complete".into()),
        };
        idx += 1;
        if env.mine(idx) {
            rec.eval();
            match &hok {
                Ok(()) => {
                    rec.count("honest_runs_validated_and_opened");
                    rec.distinct(&("honest", field, count, active));
                }
                Err(e) => rec.violation(
                    "an honest MAC-protected computation failed",
                    json!({"kind": "honest_failed", "field": field}),
                    json!({"case": idx, "mac_case": format!("{case:?}"), "detail": e}),
                ),
            }
        }
        if hok.is_err() {
            continue;
        }
        let mut by_family: BTreeMap<(String, u8), Vec<&ChunkInfo>> = BTreeMap::new();
        for c in &st.chunks {
            let fam = wl::step_family(&c.key.gate);
            rec.seen("step_families_seen", format!("{field}:{fam}"));
            by_family.entry((fam, c.key.src)).or_default().push(c);
        }
        let mut r = VRng::new(case.seed ^ 0xfa04, 1);
        let per_family = env.pick(6, 18);
        for ((fam, src), chunks) in &by_family {
            for k in 0..per_family {
                idx += 1;
                if !env.mine(idx) {
                    continue;
                }
                // first / middle / last chunk of the channel => error in first / middle / last batch
                let c = match k % 3 { 0 => chunks[0], 1 => chunks[chunks.len() / 2], _ => chunks[chunks.len() - 1] };
                let es = elem_size(field, fam).min(c.len.max(1));
                let n_elems = (c.len / es).max(1);
                let e = r.below(n_elems as u64) as usize;
                let pattern = match (k / 3) % 3 {
                    0 => Pattern::AddOne { byte: e * es, width: es },
                    1 => Pattern::FlipBit { byte: e * es, bit: (r.below(5)) as u8 },
                    _ => Pattern::XorFf { byte: e * es },
                };
                let fault = Fault { key: c.key.clone(), chunk_no: c.chunk_no, pattern };
                let (out, st2) = run_mac(&case, Some(fault.clone()));
                if !matches!(st2.fault_applied, Some((_, true))) {
                    rec.count("fault_not_applied");
                    continue;
                }
                rec.eval();
                rec.seen("step_families_faulted", format!("{field}:{fam}"));
                let corrupt = *src as usize;
                // validate before reveal (single-batch PRF runs): an honest helper whose MAC check failed must not have
                // sent anything on the gates that open g^r and z
                if is_prf && count <= active as usize {
                    if let Paused::Done((res, _)) = &out {
                        for h in (0..3).filter(|h| *h != corrupt) {
                            let Ok(Err(e)) = &res[h] else { continue };
                            if !(e.contains("MaliciousSecurityCheckFailed") || e.contains("ParallelDZKPValidationFailed")) {
                                continue;
                            }
                            let opened: Vec<String> = st2.chunks.iter()
                                .filter(|c| c.key.src as usize == h)
                                .map(|c| c.key.gate.clone())
                                .filter(|g| !g.contains("/validate/") && (g.ends_with("/revealz") || g.ends_with("/reveal_r")))
                                .collect();
                            if opened.is_empty() {
                                rec.count("validation_failed_nothing_opened");
                            } else {
                                rec.violation(
                                    "an honest helper whose MAC validation failed had already sent its shares of the values to be opened",
                                    json!({"kind": "opened_before_validated", "step_family": fam}),
                                    json!({"case": idx, "mac_case": format!("{case:?}"), "fault": fault.to_json(), "helper": h, "chunks_sent_on_opening_gates": opened.len(), "gates": opened.iter().take(4).collect::<Vec<_>>()}),
                                );
                            }
                        }
                    }
                }
                let honest_all_ok = match &out {
                    Paused::Quiescent => false,
                    Paused::Done((res, _)) => (0..3).filter(|h| *h != corrupt).all(|h| matches!(res[h], Ok(Ok(_)))),
                };
                if !honest_all_ok {
                    rec.count("deviation_detected");
                    rec.distinct(&(field, fam.as_str(), *src, k % 3, (k / 3) % 3));
                    if field == "Fp31" {
                        fp31_faults += 1;
                    }
                    continue;
                }
                if field == "Fp31" {
                    // allowed with probability about 2/31 per run; counted, judged at the end
                    fp31_faults += 1;
                    fp31_undetected += 1;
                    rec.count("fp31_undetected_within_allowance_so_far");
                    continue;
                }
                rec.violation(
                    "an altered message of a MAC-protected computation was accepted by both honest helpers",
                    json!({"kind": "deviation_accepted", "field": field, "step_family": fam, "src": src}),
                    json!({"case": idx, "mac_case": format!("{case:?}"), "fault": fault.to_json(), "chunk_len": c.len,
                           "result": match &out { Paused::Done((res, _)) => format!("{res:?}").chars().take(300).collect::<String>(), Paused::Quiescent => "quiescent".into() }}),
                );
            }
        }
    }
    rec.eval();
    rec.add("fp31_faults", fp31_faults);
    if exceeds_allowance(fp31_undetected, fp31_faults, 2.0 / 31.0) {
        rec.violation(
            "additive deviations over Fp31 go undetected far more often than 2/31",
            json!({"kind": "fp31_detection_rate"}),
            json!({"faults": fp31_faults, "undetected": fp31_undetected}),
        );
    }
    rec.sample(json!({"fp31_faults": fp31_faults, "fp31_undetected": fp31_undetected}));
    rec.finish();
}

// ---------------------------------------------------------------------------------------------
// adaptive adversary: correlated errors built from a MAC key that was opened earlier
// ---------------------------------------------------------------------------------------------
//
// Validation of a batch opens that batch's MAC key r to every helper. A helper that later adds eps to its [a*b]
// message and r_old * eps to its [r*a*b] message of a record in ANOTHER batch is caught because that batch has a key
// of its own (u - r*w = alpha * eps * (r_old - r) != 0 except with probability 1/|F|). Single-message errors
// (verif_c04_mac_faults) cannot tell whether keys are per batch.

/// Returns (verdicts of the three helpers, reconstructed product of `target` from the two honest helpers' shares if
/// both accepted, expected product, number of messages the adversary changed).
async fn opened_key_attack(seed: u64, attacker: usize, batch: usize, batches: usize, target: usize, key_of: usize, eps: u64)
    -> (Vec<Result<(), String>>, Option<u128>, u128, usize) {
    use std::collections::HashMap;
    use crate::{
        ff::{Fp32BitPrime, Serializable, U128Conversions},
        helpers::{HelperIdentity, in_memory_config::InspectContext},
        secret_sharing::replicated::malicious::ThisCodeIsAuthorizedToDowngradeFromMalicious,
    };
    type F = Fp32BitPrime;
    const SZ: usize = 4;
    let count = batch * batches;
    let key_shares: Arc<Mutex<Vec<F>>> = Arc::new(Mutex::new(Vec::new()));
    let offsets: Arc<Mutex<HashMap<String, usize>>> = Arc::default();
    let changed = Arc::new(Mutex::new(0usize));
    let mut cfg = TestWorldConfig::default();
    cfg.seed = seed;
    cfg.timeout = None;
    cfg.gateway_config.active = batch.try_into().unwrap();
    {
        let (key_shares, offsets, changed) = (Arc::clone(&key_shares), Arc::clone(&offsets), Arc::clone(&changed));
        cfg.stream_interceptor = Arc::new(move |ctx: &InspectContext, data: &mut Vec<u8>| {
            let InspectContext::MpcMessage { source, dest, gate, .. } = ctx else { return };
            let ids = [HelperIdentity::ONE, HelperIdentity::TWO, HelperIdentity::THREE];
            let src = ids.iter().position(|i| i == source).unwrap();
            let dst = ids.iter().position(|i| i == dest).unwrap();
            // multiplication messages travel to the left neighbour
            if src != attacker || dst != (attacker + 2) % 3 {
                return;
            }
            let g = gate.as_ref().to_string();
            let on_rab = g.ends_with("mul/duplicate_multiply");
            let on_ab = g.ends_with("/mul");
            if !on_rab && !on_ab {
                return;
            }
            let mut offs = offsets.lock().unwrap();
            let start = offs.entry(g).or_insert(0);
            let (lo, hi) = (target * SZ, (target + 1) * SZ);
            if *start <= lo && hi <= *start + data.len() {
                let sl = &mut data[lo - *start..hi - *start];
                let delta = if on_rab {
                    let ks = key_shares.lock().unwrap();
                    ks.iter().fold(F::ZERO, |a, s| a + *s) * F::truncate_from(u128::from(eps))
                } else {
                    F::truncate_from(u128::from(eps))
                };
                let v = F::deserialize_from_slice(sl) + delta;
                v.serialize_to_slice(sl);
                *changed.lock().unwrap() += 1;
            }
            *start += data.len();
        });
    }
    let world = TestWorld::new_with(&cfg);
    let mut r = VRng::new(seed ^ 0xc04e, 9);
    let plain: Vec<(F, F)> = (0..count).map(|_| (F::truncate_from(u128::from(r.next() % 4_000_000_000)), F::truncate_from(u128::from(r.next() % 4_000_000_000)))).collect();
    let expected = (plain[target].0 * plain[target].1).as_u128();
    let mut inputs: [Vec<(Replicated<F>, Replicated<F>)>; 3] = Default::default();
    for (a, b) in &plain {
        let (sa, sb) = (share_field(*a, &mut r), share_field(*b, &mut r));
        for h in 0..3 {
            inputs[h].push((sa[h].clone(), sb[h].clone()));
        }
    }
    let ctxs = world.malicious_contexts();
    let futs = ctxs.into_iter().zip(inputs).map(|(ctx, inp)| {
        let key_shares = Arc::clone(&key_shares);
        async move {
            catch_fut(async move {
                let ctx = ctx.set_total_records(TotalRecords::specified(count).unwrap());
                let v = ctx.validator::<F>();
                let m_ctx = v.context();
                // this helper's share of the key of batch `key_of`: it is opened on the wire when that batch is validated;
                // the adversary may use the sum from then on (records are processed batch by batch below)
                key_shares.lock().unwrap().push(m_ctx.r(RecordId::from(key_of * batch)).left());
                let mut shares_of_target = None;
                for b in 0..batches {
                    let range = b * batch..(b + 1) * batch;
                    let out = m_ctx
                        .try_join(range.clone().map(|i| {
                            let ctx = m_ctx.clone();
                            let (a, bb) = inp[i].clone();
                            async move {
                                let rid = RecordId::from(i);
                                let (am, bm) = (a, bb).upgrade(ctx.narrow("upgrade"), rid).await?;
                                let ab = am.multiply(&bm, ctx.narrow("mul"), rid).await?;
                                ctx.validate_record(rid).await?;
                                Ok::<_, Error>(ab.x().access_without_downgrade().clone())
                            }
                        }))
                        .await?;
                    if range.contains(&target) {
                        shares_of_target = Some(out[target - range.start].clone());
                    }
                }
                Ok::<_, Error>(shares_of_target.unwrap())
            })
            .await
            .map(|r| r.map_err(|e| format!("{e:?}")))
        }
    });
    let res: Vec<Result<Result<Replicated<F>, String>, String>> = join_all(futs).await;
    let flat: Vec<Result<Replicated<F>, String>> = res.into_iter().map(|r| r.and_then(|x| x)).collect();
    let h1 = (attacker + 1) % 3;
    let h2 = (attacker + 2) % 3;
    // the two honest helpers together hold all three additive shares
    let rec = match (&flat[h1], &flat[h2]) {
        (Ok(s1), Ok(s2)) => Some((s1.left() + s1.right() + s2.right()).as_u128()),
        _ => None,
    };
    let n = *changed.lock().unwrap();
    (flat.into_iter().map(|r| r.map(|_| ())).collect(), rec, expected, n)
}

#[test]
fn verif_c04_opened_key_attack() {
    let env = vlib::env();
    let mut rec = Recorder::new("C04", "verif_c04_opened_key_attack");
    let cases = env.pick(96, 960);
    for idx in 0..cases {
        if !env.mine(idx) {
            continue;
        }
        let mut r = VRng::new(env.seed ^ 0xc04b, idx as u64);
        let attacker = idx % 3;
        let batch = [2usize, 4, 16][(idx / 3) % 3];
        let batches = 2 + (idx / 9) % 2;
        // key of one batch, target in another one (every ordered pair of batches is reachable; only a key that is
        // already open when the target's messages leave is a real attack, i.e. key_of < target batch)
        let key_of = r.below(batches as u64 - 1) as usize;
        let tb = key_of + 1 + r.below((batches - key_of - 1) as u64) as usize;
        let target = tb * batch + r.below(batch as u64) as usize;
        let eps = 1 + r.below(1 << 20);
        let honest_control = idx % 8 == 7;
        let seed = env.seed.wrapping_mul(4099) ^ idx as u64;
        let out = vlib::run_paused(Duration::from_secs(120), opened_key_attack(seed, if honest_control { 9 } else { attacker }, batch, batches, target, key_of, eps));
        rec.eval();
        let witness = json!({"case": idx, "attacker": attacker, "records_per_batch": batch, "batches": batches, "key_of_batch": key_of, "target_record": target, "eps": eps});
        match out {
            Paused::Quiescent => rec.violation("MAC-protected multiplications did not complete", json!({"kind": "no_completion", "attack": "opened_key"}), witness),
            Paused::Done((verdicts, reconstructed, expected, changed)) => {
                if honest_control {
                    if verdicts.iter().all(Result::is_ok) && reconstructed == Some(expected) {
                        rec.count("opened_key_honest_controls_accepted");
                    } else {
                        rec.violation("an honest multi-batch execution did not validate", json!({"kind": "honest_rejected", "attack": "opened_key"}),
                                      json!({"case": idx, "verdicts": format!("{verdicts:?}"), "reconstructed": reconstructed.map(|v| v.to_string()), "expected": expected.to_string()}));
                    }
                    continue;
                }
                if changed != 2 {
                    rec.count("opened_key_attack_not_applied");
                    continue;
                }
                let h1 = (attacker + 1) % 3;
                let h2 = (attacker + 2) % 3;
                if verdicts[h1].is_err() || verdicts[h2].is_err() {
                    rec.count("opened_key_attack_detected");
                    rec.distinct(&(attacker, batch, batches, key_of, target));
                    rec.seen("opened_key_batch_pairs", format!("{batch}x{batches}:{key_of}->{tb}"));
                } else if reconstructed != Some(expected) {
                    rec.violation(
                        "correlated errors built from the opened MAC key of another batch were accepted: the honest helpers hold a wrong product",
                        json!({"kind": "tamper_accepted", "attack": "opened_key_of_other_batch"}),
                        json!({"case": idx, "attacker": attacker, "records_per_batch": batch, "batches": batches, "key_of_batch": key_of, "target_record": target, "eps": eps,
                               "reconstructed": reconstructed.map(|v| v.to_string()), "expected": expected.to_string()}),
                    );
                } else {
                    rec.count("opened_key_attack_without_effect");
                }
            }
        }
        if rec.want_sample() && idx % 17 == 2 {
            rec.sample(json!({"attack": "opened key of another batch", "case": idx, "attacker": attacker, "records_per_batch": batch, "batches": batches}));
        }
    }
    rec.finish();
}

// ---------------------------------------------------------------------------------------------
// rushing adversary: withhold one record's multiplication messages until the MAC key of the SAME batch is known
// ---------------------------------------------------------------------------------------------
//
// Roles (ring A -> R -> L -> A, "right" = +1): the corrupt helper A sends its multiplication messages to its LEFT
// neighbour L and receives R's; propagate_u_and_w travels to the RIGHT (A -> R -> L -> A); in malicious_reveal every helper
// sends its right share to the left peer and its left share to the right peer BEFORE it receives anything.
// R therefore needs nothing from A but A's (u, w) contribution to finish a batch and to put its share of r on the wire
// towards A; A holds the other two additive shares of r itself. The question decided here by experiment: is there any
// await in the honest code that keeps R from doing so while L still waits for A's multiplication messages?
//
// L and R run the unmodified validator()/upgrade/multiply/validate_record path. A is a deviating party written in this
// file: it uses the crate's contexts / PRSS / send and receive channels at exactly the gates and record ids of the real
// code and re-implements the multiplication and accumulator arithmetic, but drives its own message schedule:
//   per batch: honest upgrades; [a*b], [r*a*b] messages of the records before the target are sent, those of the target
//   and of the later records of the batch (the channel is an ordered stream) are computed but WITHHELD; R's messages are
//   received, A's (u, w) computed exactly as the honest code would and sent to R; A then waits for R's share of r on the
//   RevealR channel (the only thing A "knows" is what arrived on its own receive channels - no interceptor is involved:
//   the tampered bytes are a function of the received share, so "A knows r when it sends" is a data dependency, not a
//   scheduling accident of the pull-based test transport); with r in hand it sends the withheld messages, +eps on [a*b]
//   and +r*eps on [r*a*b] of the target record; the rest of validation (own shares of r, (u,w) from L, check-zero) honest.
// A real network adversary can do all of this: it only delays and alters its OWN messages and reads messages addressed
// to it.

#[derive(Clone, Copy, Debug, PartialEq, Eq)]
enum RushMode {
    /// the attack
    Rushing,
    /// same schedule, eps = 0: only delays (control: must be accepted with the right product)
    DelayOnly,
    /// same schedule and eps, but the [r*a*b] error is built from a wrong key (r + 1): control, must be rejected
    WrongKey,
}

#[derive(Clone, Debug)]
struct RushPlan {
    seed: u64,
    attacker: usize,
    batch: usize,
    batches: usize,
    target: usize,
    eps: u64,
    mode: RushMode,
    /// honest helpers run all records through one try_join (true) or batch after batch (false)
    pipelined: bool,
}

#[derive(Default, Debug)]
struct RushLog {
    /// the await A is currently parked on
    stage: String,
    events: Vec<String>,
    tampered: usize,
    withheld: usize,
    r_known_before_send: bool,
    /// per helper: None = did not return (parked when the system went quiescent); Ok((left, right)) = share of the target product
    results: Vec<Option<Result<(u128, u128), String>>>,
    expected: u128,
    prime: u128,
}

macro_rules! rushing_body {
    ($name:ident, $attacker_fn:ident, $f:ty) => {
        async fn $attacker_fn(
            ctx: crate::protocol::context::MaliciousContext<'_>,
            inp: Vec<(Replicated<$f>, Replicated<$f>)>,
            p: RushPlan,
            log: Arc<Mutex<RushLog>>,
        ) -> Result<(), Error> {
            use crate::{
                helpers::Direction,
                protocol::{
                    basics::{check_zero::malicious_check_zero, mul::step::MaliciousMultiplyStep},
                    context::step::{MaliciousProtocolStep, UpgradeStep, ValidateStep},
                    prss::SharedRandomness,
                },
                secret_sharing::{Vectorizable, replicated::malicious::ExtendableField},
            };
            type F = $f;
            type E = <$f as ExtendableField>::ExtendedField;
            type Arr = <E as Vectorizable<1>>::Array;
            fn contrib(a: &Replicated<E>, b: &Replicated<E>) -> E {
                (a.left() + a.right()) * (b.left() + b.right()) - a.right() * b.right()
            }
            fn induced(x: &Replicated<F>) -> Replicated<E> {
                Replicated::new(x.left().to_extended(), x.right().to_extended())
            }
            let stage = |s: &str| log.lock().unwrap().stage = s.to_string();
            let event = |s: String| log.lock().unwrap().events.push(s);

            let role = ctx.role();
            let (left, right) = (role.peer(Direction::Left), role.peer(Direction::Right));
            let count = p.batch * p.batches;
            let ctx = ctx.set_total_records(TotalRecords::specified(count).unwrap());
            let proto = ctx.narrow(&MaliciousProtocolStep::MaliciousProtocol);
            let vctx = ctx.narrow(&MaliciousProtocolStep::Validate).validator_context();
            let eps_f = F::truncate_from(u128::from(p.eps));
            let eps_e = E::truncate_from(u128::from(p.eps));

            for b in 0..p.batches {
                let range = b * p.batch..(b + 1) * p.batch;
                let has_target = range.contains(&p.target);
                // state of validator::Malicious::new(ctx, b)
                let r_share: Replicated<E> = ctx.prss().generate(RecordId::from(3 * b + 2));
                let mut u: E = ctx.prss().zero(RecordId::from(3 * b));
                let mut w: E = ctx.prss().zero(RecordId::from(3 * b + 1));

                // ---- upgrades (honest): rx = induced(x) * r, accumulate
                let mut rx: Vec<[Replicated<E>; 2]> = Vec::new();
                for (which, name) in ["upgrade_l", "upgrade_r"].into_iter().enumerate() {
                    let g = proto.narrow("upgrade").narrow(name).narrow(&UpgradeStep);
                    let ga = g.narrow(&MaliciousMultiplyStep::RandomnessForValidation);
                    let mut z = Vec::new();
                    stage(&format!("batch {b}: send {name}"));
                    for i in range.clone() {
                        let rid = RecordId::from(i);
                        let x = induced(if which == 0 { &inp[i].0 } else { &inp[i].1 });
                        let (pl, pr): (E, E) = g.prss().generate(rid);
                        let zl = x.left() * r_share.left() + x.left() * r_share.right() + x.right() * r_share.left() + pl - pr;
                        g.send_channel::<E>(left).send(rid, zl).await?;
                        z.push((x, zl));
                    }
                    stage(&format!("batch {b}: receive {name} from the right neighbour"));
                    for (k, i) in range.clone().enumerate() {
                        let rid = RecordId::from(i);
                        let zr: E = g.recv_channel::<E>(right).receive(rid).await?;
                        let share = Replicated::new(z[k].1, zr);
                        let alpha: Replicated<E> = ga.prss().generate(rid);
                        u += contrib(&alpha, &share);
                        w += contrib(&alpha, &z[k].0);
                        if which == 0 {
                            rx.push([share.clone(), share]);
                        } else {
                            rx[k][1] = share;
                        }
                    }
                }

                // ---- MAC multiplication: [a*b] at .../mul, [r*a*b] at .../mul/duplicate_multiply
                let gm = proto.narrow("mul");
                let gd = gm.narrow(&MaliciousMultiplyStep::DuplicateMultiply);
                let ga = gm.narrow(&MaliciousMultiplyStep::RandomnessForValidation);
                let mut z_ab: Vec<F> = Vec::new();
                let mut z_rab: Vec<E> = Vec::new();
                for (k, i) in range.clone().enumerate() {
                    let rid = RecordId::from(i);
                    let (a, bb) = (&inp[i].0, &inp[i].1);
                    let (pl, pr): (F, F) = gm.prss().generate(rid);
                    z_ab.push(a.left() * bb.left() + a.left() * bb.right() + a.right() * bb.left() + pl - pr);
                    let (ra, bi) = (&rx[k][0], induced(bb));
                    let (pl, pr): (E, E) = gd.prss().generate(rid);
                    z_rab.push(ra.left() * bi.left() + ra.left() * bi.right() + ra.right() * bi.left() + pl - pr);
                }
                let first_withheld = if has_target { p.target - range.start } else { p.batch };
                stage(&format!("batch {b}: send multiplication messages of the records before the target"));
                for k in 0..first_withheld {
                    let rid = RecordId::from(range.start + k);
                    gm.send_channel::<F>(left).send(rid, z_ab[k]).await?;
                    gd.send_channel::<E>(left).send(rid, z_rab[k]).await?;
                }
                if has_target {
                    log.lock().unwrap().withheld = 2 * (p.batch - first_withheld);
                    event(format!("batch {b}: withheld [a*b] and [r*a*b] messages of records {}..{} towards L", p.target, range.end));
                }
                stage(&format!("batch {b}: receive multiplication messages from the right neighbour"));
                for (k, i) in range.clone().enumerate() {
                    let rid = RecordId::from(i);
                    let ab_r: F = gm.recv_channel::<F>(right).receive(rid).await?;
                    let rab_r: E = gd.recv_channel::<E>(right).receive(rid).await?;
                    let ab = Replicated::new(z_ab[k], ab_r);
                    let rab = Replicated::new(z_rab[k], rab_r);
                    let alpha: Replicated<E> = ga.prss().generate(rid);
                    u += contrib(&alpha, &rab);
                    w += contrib(&alpha, &induced(&ab));
                }

                // ---- propagate_u_and_w: own contribution to the right neighbour, computed as the honest code would
                let pctx = vctx.narrow(&ValidateStep::PropagateUAndW).set_total_records(TotalRecords::Indeterminate);
                stage(&format!("batch {b}: send (u, w) to the right neighbour"));
                pctx.send_channel::<E>(right).send(RecordId::from(2 * b), u).await?;
                pctx.send_channel::<E>(right).send(RecordId::from(2 * b + 1), w).await?;
                event(format!("batch {b}: sent (u, w) to R"));
                // For experiments with a repaired tree in which every helper also sends a "batch complete" token to its left
                // neighbour on the propagate gate before r is opened (see known finding C04-rushing-...): the deviating party
                // sends that token as early as it can, too (VERIF_C04_BARRIER_TOKEN=1). Not used on the unmodified tree.
                if std::env::var("VERIF_C04_BARRIER_TOKEN").is_ok() {
                    pctx.send_channel::<E>(left).send(RecordId::from(b), E::ZERO).await?;
                    event(format!("batch {b}: sent the batch-complete token to L early"));
                }

                // ---- rushing: R's share of r before anything else
                let rctx = vctx.narrow(&ValidateStep::RevealR).set_total_records(TotalRecords::Indeterminate);
                let rid_b = RecordId::from(b);
                stage(&format!("batch {b}: malicious_reveal of r: waiting for the right neighbour's share while the multiplication messages of record {} are withheld", p.target));
                let from_right: Arr = rctx.recv_channel::<Arr>(right).receive(rid_b).await?;
                let r = E::from_array(&from_right) + r_share.left() + r_share.right();
                event(format!("batch {b}: received R's share of r; r is known to A"));

                // ---- now the withheld messages
                if has_target {
                    log.lock().unwrap().r_known_before_send = true;
                    stage(&format!("batch {b}: send the withheld multiplication messages"));
                    for k in first_withheld..p.batch {
                        let rid = RecordId::from(range.start + k);
                        let (mut m_ab, mut m_rab) = (z_ab[k], z_rab[k]);
                        if k == first_withheld && p.mode != RushMode::DelayOnly {
                            let key = if p.mode == RushMode::WrongKey { r + E::ONE } else { r };
                            m_ab += eps_f;
                            m_rab += key * eps_e;
                            log.lock().unwrap().tampered += 2;
                        }
                        gm.send_channel::<F>(left).send(rid, m_ab).await?;
                        gd.send_channel::<E>(left).send(rid, m_rab).await?;
                    }
                    event(format!("batch {b}: sent the withheld messages to L ({})", match p.mode {
                        RushMode::DelayOnly => "unaltered".to_string(),
                        RushMode::Rushing => format!("record {}: +eps on [a*b], +r*eps on [r*a*b]", p.target),
                        RushMode::WrongKey => format!("record {}: +eps on [a*b], +(r+1)*eps on [r*a*b]", p.target),
                    }));
                }

                // ---- rest of Malicious::validate, honest
                stage(&format!("batch {b}: send own shares of r"));
                rctx.send_channel::<Arr>(left).send(rid_b, r_share.right().into_array()).await?;
                rctx.send_channel::<Arr>(right).send(rid_b, r_share.left().into_array()).await?;
                stage(&format!("batch {b}: receive the left neighbour's share of r"));
                let from_left: Arr = rctx.recv_channel::<Arr>(left).receive(rid_b).await?;
                if from_left != from_right {
                    return Err(Error::MaliciousRevealFailed);
                }
                stage(&format!("batch {b}: receive (u, w) from the left neighbour"));
                let u_left: E = pctx.recv_channel::<E>(left).receive(RecordId::from(2 * b)).await?;
                let w_left: E = pctx.recv_channel::<E>(left).receive(RecordId::from(2 * b + 1)).await?;
                let t = Replicated::new(u_left, u) - &(Replicated::new(w_left, w) * r);
                stage(&format!("batch {b}: check-zero"));
                let czctx = vctx.narrow(&ValidateStep::CheckZero).set_total_records(TotalRecords::Indeterminate);
                if !malicious_check_zero(czctx, rid_b, &t).await? {
                    return Err(Error::MaliciousSecurityCheckFailed);
                }
                event(format!("batch {b}: check-zero passed at A"));
            }
            stage("done");
            Ok(())
        }

        async fn $name(p: RushPlan, log: Arc<Mutex<RushLog>>, tap: DynStreamInterceptor) {
            use futures::future::LocalBoxFuture;
            use crate::secret_sharing::replicated::malicious::ThisCodeIsAuthorizedToDowngradeFromMalicious;
            type F = $f;
            let count = p.batch * p.batches;
            let mut cfg = TestWorldConfig::default();
            cfg.seed = p.seed;
            cfg.timeout = None;
            cfg.stream_interceptor = tap;
            cfg.gateway_config.active = p.batch.try_into().unwrap();
            let world = TestWorld::new_with(&cfg);
            let mut r = VRng::new(p.seed ^ 0xc04d, 11);
            let prime: u128 = <F as crate::ff::PrimeField>::PRIME.into();
            let plain: Vec<(F, F)> = (0..count).map(|_| (F::truncate_from(u128::from(r.next()) % prime), F::truncate_from(u128::from(r.next()) % prime))).collect();
            {
                let mut l = log.lock().unwrap();
                l.expected = (plain[p.target].0 * plain[p.target].1).as_u128();
                l.prime = prime;
            }
            let mut inputs: [Vec<(Replicated<F>, Replicated<F>)>; 3] = Default::default();
            for (a, b) in &plain {
                let (sa, sb) = (share_field(*a, &mut r), share_field(*b, &mut r));
                for h in 0..3 {
                    inputs[h].push((sa[h].clone(), sb[h].clone()));
                }
            }
            let ctxs = world.malicious_contexts();
            let mut futs: Vec<LocalBoxFuture<'_, ()>> = Vec::new();
            for (h, (ctx, inp)) in ctxs.into_iter().zip(inputs).enumerate() {
                let results = Arc::clone(&log);
                if h == p.attacker {
                    let (p, log) = (p.clone(), Arc::clone(&log));
                    futs.push(Box::pin(async move {
                        let res = catch_fut($attacker_fn(ctx, inp, p, log)).await;
                        let res = res.and_then(|x| x.map_err(|e| format!("{e:?}"))).map(|()| (0u128, 0u128));
                        results.lock().unwrap().results[h] = Some(res);
                    }));
                    continue;
                }
                let p = p.clone();
                futs.push(Box::pin(async move {
                    let res = catch_fut(async move {
                        let ctx = ctx.set_total_records(TotalRecords::specified(count).unwrap());
                        let v = ctx.validator::<F>();
                        let m_ctx = v.context();
                        let mut shares_of_target = None;
                        let groups: Vec<std::ops::Range<usize>> = if p.pipelined { vec![0..count] } else { (0..p.batches).map(|b| b * p.batch..(b + 1) * p.batch).collect() };
                        for range in groups {
                            let out = m_ctx
                                .try_join(range.clone().map(|i| {
                                    let ctx = m_ctx.clone();
                                    let (a, bb) = inp[i].clone();
                                    async move {
                                        let rid = RecordId::from(i);
                                        let (am, bm) = (a, bb).upgrade(ctx.narrow("upgrade"), rid).await?;
                                        let ab = am.multiply(&bm, ctx.narrow("mul"), rid).await?;
                                        ctx.validate_record(rid).await?;
                                        Ok::<_, Error>(ab.x().access_without_downgrade().clone())
                                    }
                                }))
                                .await?;
                            if range.contains(&p.target) {
                                shares_of_target = Some(out[p.target - range.start].clone());
                            }
                        }
                        Ok::<_, Error>(shares_of_target.unwrap())
                    })
                    .await;
                    let res = res.and_then(|x| x.map_err(|e| format!("{e:?}"))).map(|s: Replicated<F>| (s.left().as_u128(), s.right().as_u128()));
                    results.lock().unwrap().results[h] = Some(res);
                }));
            }
            join_all(futs).await;
        }
    };
}
rushing_body!(rushing_fp32, rushing_attacker_fp32, Fp32BitPrime);
rushing_body!(rushing_fp31, rushing_attacker_fp31, Fp31);

struct RushOutcome {
    quiescent: bool,
    log: RushLog,
    reconstructed: Option<u128>,
    /// R's right share == L's left share of the target product
    honest_sharing_consistent: Option<bool>,
    /// position in the global delivery (pull) order of: the chunk R -> A on validate/reveal_r that carries the share of
    /// the target batch's r; the chunk A -> L on .../mul that carries the target record
    order: (Option<usize>, Option<usize>),
    gates: Vec<String>,
}

fn run_rushing(p: &RushPlan, field: &'static str) -> RushOutcome {
    use std::collections::HashMap;
    use crate::helpers::{HelperIdentity, in_memory_config::InspectContext};
    let log = Arc::new(Mutex::new(RushLog { results: vec![None, None, None], ..Default::default() }));
    let sz = if field == "Fp31" { 1usize } else { 4 };
    #[derive(Default)]
    struct Order {
        seq: usize,
        offsets: HashMap<(usize, usize, String), usize>,
        reveal: Option<usize>,
        mul: Option<usize>,
        gates: Vec<String>,
    }
    let order = Arc::new(Mutex::new(Order::default()));
    let (attacker, target, target_batch) = (p.attacker, p.target, p.target / p.batch);
    let tap: DynStreamInterceptor = {
        let order = Arc::clone(&order);
        Arc::new(move |ctx: &InspectContext, data: &mut Vec<u8>| {
            let InspectContext::MpcMessage { source, dest, gate, .. } = ctx else { return };
            let ids = [HelperIdentity::ONE, HelperIdentity::TWO, HelperIdentity::THREE];
            let src = ids.iter().position(|i| i == source).unwrap();
            let dst = ids.iter().position(|i| i == dest).unwrap();
            let g = gate.as_ref().to_string();
            let mut o = order.lock().unwrap();
            o.seq += 1;
            let seq = o.seq;
            let start = *o.offsets.get(&(src, dst, g.clone())).unwrap_or(&0);
            let end = start + data.len();
            o.offsets.insert((src, dst, g.clone()), end);
            let covers = |rec: usize| start <= rec * sz && (rec + 1) * sz <= end;
            if src == (attacker + 1) % 3 && dst == attacker && g.ends_with("validate/reveal_r") && covers(target_batch) {
                o.reveal = Some(seq);
            }
            if src == attacker && dst == (attacker + 2) % 3 && g.ends_with("/mul") && covers(target) {
                o.mul = Some(seq);
            }
            if o.gates.len() < 64 && !o.gates.contains(&g) {
                o.gates.push(g);
            }
        })
    };
    let (pp, ll) = (p.clone(), Arc::clone(&log));
    let out = vlib::run_paused(Duration::from_secs(120), async move {
        match field {
            "Fp31" => rushing_fp31(pp, ll, tap).await,
            _ => rushing_fp32(pp, ll, tap).await,
        }
    });
    let log = std::mem::take(&mut *log.lock().unwrap());
    let o = std::mem::take(&mut *order.lock().unwrap());
    let (rr, ll) = ((p.attacker + 1) % 3, (p.attacker + 2) % 3);
    let (reconstructed, consistent) = match (log.results.get(rr), log.results.get(ll)) {
        (Some(Some(Ok(sr))), Some(Some(Ok(sl)))) if log.prime > 0 => (Some((sr.0 + sr.1 + sl.1) % log.prime), Some(sr.1 == sl.0)),
        _ => (None, None),
    };
    RushOutcome { quiescent: matches!(out, Paused::Quiescent), log, reconstructed, honest_sharing_consistent: consistent, order: (o.reveal, o.mul), gates: o.gates }
}

fn rush_verdicts(o: &RushOutcome) -> Vec<String> {
    o.log.results.iter().map(|r| match r {
        None => "did-not-return".to_string(),
        Some(Ok(_)) => "Ok".to_string(),
        Some(Err(e)) => format!("Err({})", e.chars().take(80).collect::<String>()),
    }).collect()
}

#[test]
fn verif_c04_rushing_attack() {
    let env = vlib::env();
    let mut rec = Recorder::new("C04", "verif_c04_rushing_attack");
    // 81 combinations of (attacker, records per batch, position of the target in its batch, number of batches)
    let cases = env.pick(81, 486);
    let replay = env.replay.as_ref().and_then(|p| std::fs::read_to_string(p).ok()).and_then(|s| serde_json::from_str::<Value>(&s).ok())
        .and_then(|v| v["witness"]["case"].as_u64()).map(|c| c as usize);
    let loud = std::env::var("VERIF_C04_PRINT").is_ok();
    for idx in 0..cases {
        if let Some(c) = replay {
            if c != idx {
                continue;
            }
        } else if !env.mine(idx) {
            continue;
        }
        let mut r = VRng::new(env.seed ^ 0xc04c, idx as u64);
        let attacker = idx % 3;
        let batch = [2usize, 4, 16][(idx / 3) % 3];
        let pos_class = (idx / 9) % 3;
        let batches = 1 + (idx / 27) % 3;
        let pos = match pos_class { 0 => 0, 1 => batch / 2, _ => batch - 1 };
        let target_batch = r.below(batches as u64) as usize;
        let target = target_batch * batch + pos;
        let field: &'static str = if (idx / 81) % 2 == 1 || r.below(6) == 0 { "Fp31" } else { "Fp32BitPrime" };
        let prime: u64 = if field == "Fp31" { 31 } else { 4_294_967_291 };
        let eps = 1 + r.below((prime - 1).min(1 << 20));
        let pipelined = r.bool();
        let seed = env.seed.wrapping_mul(4111) ^ idx as u64;
        let base = RushPlan { seed, attacker, batch, batches, target, eps, mode: RushMode::Rushing, pipelined };
        let control = match idx % 3 { 0 => Some(RushMode::DelayOnly), 1 if field != "Fp31" => Some(RushMode::WrongKey), _ => None };
        for mode in [Some(RushMode::Rushing), control].into_iter().flatten() {
            let p = RushPlan { mode, ..base.clone() };
            let o = run_rushing(&p, field);
            rec.eval();
            let verdicts = rush_verdicts(&o);
            let (hr, hl) = ((attacker + 1) % 3, (attacker + 2) % 3);
            let honest_ok = [hr, hl].iter().all(|h| matches!(o.log.results[*h], Some(Ok(_))));
            let honest_err = [hr, hl].iter().any(|h| matches!(o.log.results[*h], Some(Err(_))));
            let witness = json!({"case": idx, "mode": format!("{mode:?}"), "field": field, "attacker": attacker, "records_per_batch": batch, "batches": batches,
                "target_record": target, "eps": eps, "honest_helpers_pipelined": pipelined, "world_seed": seed,
                "verdicts": verdicts, "reconstructed": o.reconstructed.map(|v| v.to_string()), "expected": o.log.expected.to_string(),
                "honest_sharing_consistent": o.honest_sharing_consistent, "quiescent": o.quiescent, "attacker_stage": o.log.stage,
                "attacker_events": o.log.events, "delivery_order": {"r_share_R_to_A": o.order.0, "mul_chunk_A_to_L": o.order.1}});
            if loud {
                println!("C04-RUSH case {idx} {mode:?} {field} A={attacker} batch={batch}x{batches} target={target} eps={eps} pipelined={pipelined}: verdicts={verdicts:?} reconstructed={:?} expected={} consistent={:?} quiescent={} order(reveal_r R->A, mul A->L)={:?} stage={:?}\n   events={:?}\n   gates={:?}",
                    o.reconstructed, o.log.expected, o.honest_sharing_consistent, o.quiescent, o.order, o.log.stage, o.log.events, if idx == 0 { o.gates.clone() } else { vec![] });
            }
            // the attacker never got R's share of r while it withheld its messages: the barrier exists
            let blocked_before_r = o.log.withheld > 0 && !o.log.r_known_before_send;
            if blocked_before_r {
                if o.quiescent && o.log.stage.contains("waiting for the right neighbour's share") {
                    // which await blocks: A is parked on the receive of R's share on validate/reveal_r, i.e. R has not reached
                    // (or not passed) the sends of malicious_reveal although it has A's (u, w); L is parked on A's messages
                    rec.seen("rushing_blocked_at", format!("A: receive(validate/reveal_r) from R; verdicts {verdicts:?}"));
                    if mode == RushMode::Rushing {
                        rec.count("rushing_attack_not_mountable");
                        rec.count("rushing_attack_decided");
                        rec.distinct(&("rush-blocked", attacker, batch, pos_class, batches, field));
                    } else {
                        rec.count("rushing_control_not_mountable");
                        rec.count("rushing_controls_decided");
                    }
                } else {
                    rec.count("rushing_schedule_stalled_elsewhere");
                    rec.seen("rushing_stalled_at", o.log.stage.clone());
                    rec.inconclusive(format!("case {idx} {mode:?}: the deviating party stalled at '{}' (verdicts {verdicts:?})", o.log.stage));
                }
                continue;
            }
            if o.log.withheld == 0 {
                rec.inconclusive(format!("case {idx} {mode:?}: the deviating party never reached the target batch (stage '{}', verdicts {verdicts:?})", o.log.stage));
                continue;
            }
            // data dependency holds by construction; the delivery order seen by a passive tap must agree with it
            if let (Some(rv), Some(ml)) = o.order {
                if rv > ml {
                    rec.inconclusive(format!("case {idx}: L pulled the target chunk before A received R's share of r (tap order {rv} > {ml})"));
                    continue;
                }
                rec.count("rushing_r_share_delivered_before_target_chunk");
            }
            match mode {
                RushMode::DelayOnly => {
                    if honest_ok && matches!(o.log.results[attacker], Some(Ok(_))) && o.reconstructed == Some(o.log.expected) {
                        rec.count("rushing_delay_only_controls_accepted");
                        rec.count("rushing_controls_decided");
                    } else {
                        rec.violation("an execution in which one helper only delays some multiplication messages until it has received a share of r did not validate with the right product",
                            json!({"kind": "honest_rejected", "attack": "rushing_delay_only"}), witness);
                    }
                }
                RushMode::WrongKey => {
                    if o.log.tampered != 2 {
                        rec.count("rushing_attack_not_applied");
                    } else if honest_err {
                        rec.count("rushing_wrong_key_controls_detected");
                        rec.count("rushing_controls_decided");
                    } else if honest_ok && o.reconstructed != Some(o.log.expected) {
                        rec.violation("errors eps / (r+1)*eps on the [a*b] / [r*a*b] messages of one record were accepted by both honest helpers",
                            json!({"kind": "tamper_accepted", "attack": "rushing_wrong_key"}), witness);
                    } else {
                        rec.count("rushing_wrong_key_stalled");
                        rec.seen("rushing_stalled_at", o.log.stage.clone());
                    }
                }
                RushMode::Rushing => {
                    if o.log.tampered != 2 {
                        rec.count("rushing_attack_not_applied");
                    } else if honest_err {
                        rec.count("rushing_attack_detected");
                        rec.count("rushing_attack_decided");
                        rec.distinct(&("rush-detected", attacker, batch, pos_class, batches, field));
                    } else if honest_ok && o.reconstructed != Some(o.log.expected) {
                        rec.count("rushing_attack_accepted");
                        rec.count("rushing_attack_decided");
                        rec.distinct(&("rush-accepted", attacker, batch, pos_class, batches, field));
                        rec.seen("rushing_accepted_configs", format!("{field}:A{attacker}:{batch}x{batches}:pos{pos_class}"));
                        rec.violation(
                            "a helper that withholds one record's multiplication messages until it has received a share of the SAME batch's MAC key r, then sends them with errors eps / r*eps, is accepted: both honest helpers validate and hold a wrong product",
                            json!({"kind": "rushing_tamper_accepted", "schedule": "mul_messages_withheld_until_r_share_received", "attacker": attacker, "records_per_batch": batch}),
                            witness,
                        );
                    } else if honest_ok {
                        rec.count("rushing_attack_without_effect");
                    } else {
                        rec.count("rushing_attack_stalled");
                        rec.seen("rushing_stalled_at", o.log.stage.clone());
                    }
                }
            }
        }
        if rec.want_sample() && idx % 13 == 4 {
            rec.sample(json!({"attack": "rushing: multiplication messages withheld until the batch's r is known", "case": idx, "attacker": attacker, "records_per_batch": batch, "batches": batches, "target": target, "field": field}));
        }
    }
    rec.finish();
}
