// C04 MAC-checked arithmetic and openings detect any additive deviation.
//
// Protocol under test per record i: upgrade(a_i), upgrade(b_i), c = a*b, d = c*a (MAC multiplies),
// validate_record(i), reveal(d). Batches = active work. The interceptor alters one message of one
// sender (additive +1 on an element, or bit flips). Oracle: honest runs validate and open a*b*a;
// with a fault at least one honest helper must fail (Fp32BitPrime / Fp25519: always; Fp31: counted
// against a binomial allowance). Also the PRF evaluation path (eval_dy_prf over Fp25519).

use std::{
    collections::BTreeMap,
    sync::{Arc, Mutex},
    time::Duration,
};

use futures::future::join_all;
use ipa_step::StepNarrow;
use serde_json::{Value, json};

use super::{
    vlib::{self, Paused, Recorder, VRng, catch_fut},
    wl::{self, ChunkInfo, Fault, Pattern, TapState},
};
use crate::{
    error::Error,
    ff::{Field, Fp31, Fp32BitPrime, U128Conversions, ec_prime_field::Fp25519},
    helpers::{TotalRecords, in_memory_config::DynStreamInterceptor},
    protocol::{
        RecordId,
        basics::{Reveal, SecureMul},
        context::{Context, UpgradableContext, UpgradedContext, Validator, upgrade::Upgradable},
        ipa_prf::prf_eval::{eval_dy_prf, gen_prf_key},
    },
    secret_sharing::{
        SharedValue,
        replicated::{ReplicatedSecretSharing, semi_honest::AdditiveShare as Replicated},
    },
    seq_join::SeqJoin,
    test_fixture::{TestWorld, TestWorldConfig},
};

#[derive(Clone, Debug)]
pub struct MacCase {
    pub field: &'static str,
    pub count: usize,
    pub active: u32,
    pub seed: u64,
}

/// per helper: Ok(opened values as u128 / low 128 bits) | Err(text) | panic text
pub type HelperRes = Result<Result<Vec<u128>, String>, String>;

fn share_field<F: Field>(v: F, r: &mut VRng) -> [Replicated<F>; 3]
where
    rand::distributions::Standard: rand::distributions::Distribution<F>,
{
    use rand::Rng;
    let s0: F = r.r#gen();
    let s1: F = r.r#gen();
    let s2 = v - s0 - s1;
    [Replicated::new(s0, s1), Replicated::new(s1, s2), Replicated::new(s2, s0)]
}

fn low128_fp25519(v: Fp25519) -> u128 {
    use crate::ff::Serializable;
    let mut buf = generic_array::GenericArray::default();
    v.serialize(&mut buf);
    let mut b = [0u8; 16];
    b.copy_from_slice(&buf[..16]);
    u128::from_le_bytes(b)
}

macro_rules! mac_body {
    ($name:ident, $f:ty, $to_u128:expr) => {
        async fn $name(case: MacCase, interceptor: DynStreamInterceptor) -> (Vec<HelperRes>, Vec<u128>) {
            use rand::Rng;
            let mut cfg = TestWorldConfig::default();
            cfg.seed = case.seed;
            cfg.timeout = None;
            cfg.stream_interceptor = interceptor;
            cfg.gateway_config.active = (case.active as usize).try_into().unwrap();
            let world = TestWorld::new_with(&cfg);
            let mut r = VRng::new(case.seed ^ 0xc04, 3);
            let mut inputs: [Vec<(Replicated<$f>, Replicated<$f>)>; 3] = Default::default();
            let mut expect = Vec::new();
            for i in 0..case.count {
                // boundary values first, then random
                let a: $f = match i { 0 => <$f>::ZERO, 1 => <$f>::ONE, 2 => <$f>::ZERO - <$f>::ONE, _ => r.r#gen() };
                let b: $f = match i { 1 => <$f>::ZERO - <$f>::ONE, _ => r.r#gen() };
                expect.push($to_u128(a * b * a));
                let sa = share_field(a, &mut r);
                let sb = share_field(b, &mut r);
                for h in 0..3 {
                    inputs[h].push((sa[h].clone(), sb[h].clone()));
                }
            }
            let ctxs = world.malicious_contexts();
            let futs = ctxs.into_iter().zip(inputs).map(|(ctx, inp)| {
                let count = case.count;
                async move {
                    catch_fut(async move {
                        let ctx = ctx.set_total_records(TotalRecords::specified(count).unwrap());
                        let v = ctx.validator::<$f>();
                        let m_ctx = v.context();
                        let out = m_ctx
                            .try_join(inp.into_iter().enumerate().map(|(i, (a, b))| {
                                let ctx = m_ctx.clone();
                                async move {
                                    let rid = RecordId::from(i);
                                    let (am, bm) = (a, b).upgrade(ctx.narrow("upgrade"), rid).await?;
                                    let c = am.multiply(&bm, ctx.narrow("mul1"), rid).await?;
                                    let d = c.multiply(&am, ctx.narrow("mul2"), rid).await?;
                                    ctx.validate_record(rid).await?;
                                    let opened = d.reveal(ctx.narrow("open"), rid).await?;
                                    Ok::<_, Error>($to_u128(<$f>::from_array(&opened)))
                                }
                            }))
                            .await?;
                        Ok::<_, Error>(out)
                    })
                    .await
                    .map(|r| r.map_err(|e| format!("{e:?}")))
                }
            });
            (join_all(futs).await, expect)
        }
    };
}
mac_body!(mac_fp31, Fp31, |v: Fp31| v.as_u128());
mac_body!(mac_fp32, Fp32BitPrime, |v: Fp32BitPrime| v.as_u128());
mac_body!(mac_fp25519, Fp25519, low128_fp25519);

/// PRF evaluation path (production field, validate-before-reveal inside eval_dy_prf)
async fn prf_body(case: MacCase, interceptor: DynStreamInterceptor) -> (Vec<HelperRes>, Vec<u128>) {
    use rand::Rng;
    let mut cfg = TestWorldConfig::default();
    cfg.seed = case.seed;
    cfg.timeout = None;
    cfg.stream_interceptor = interceptor;
    cfg.gateway_config.active = (case.active as usize).try_into().unwrap();
    let world = TestWorld::new_with(&cfg);
    let mut r = VRng::new(case.seed ^ 0xc04f, 3);
    let mut inputs: [Vec<Replicated<Fp25519>>; 3] = Default::default();
    for i in 0..case.count {
        // two equal inputs must give equal pseudonyms (checked by the caller via `expect` = index of first equal input)
        let x: Fp25519 = if i == 1 { Fp25519::ZERO } else if i == 3 { Fp25519::ONE } else { r.r#gen() };
        let sx = share_field(x, &mut r);
        for h in 0..3 {
            inputs[h].push(sx[h].clone());
        }
    }
    let ctxs = world.malicious_contexts();
    let futs = ctxs.into_iter().zip(inputs).map(|(ctx, inp)| {
        let count = case.count;
        async move {
            catch_fut(async move {
                let key = gen_prf_key::<_, 1>(&ctx.narrow("prf-key"));
                let ctx = ctx.narrow("eval").set_total_records(TotalRecords::specified(count).unwrap());
                let v = ctx.validator::<Fp25519>();
                let m_ctx = v.context();
                let out = m_ctx
                    .try_join(inp.into_iter().enumerate().map(|(i, x)| {
                        let ctx = m_ctx.clone();
                        let key = key.clone();
                        async move { eval_dy_prf::<_, 1>(ctx, RecordId::from(i), &key, x).await.map(|a| u128::from(a[0])) }
                    }))
                    .await?;
                Ok::<_, Error>(out)
            })
            .await
            .map(|r| r.map_err(|e| format!("{e:?}")))
        }
    });
    (join_all(futs).await, Vec::new())
}

/// PRF evaluation with 16 lanes per record (the production vectorisation) under a coordinated attack by one helper:
/// +d on lane `l0` and -d on lane `l1` of its multiplication message (to its left peer) and the same offsets on the
/// share it sends when the product is revealed (to its right peer). The zero-sum pattern is what a MAC that does not
/// bind every lane separately would miss. Returns per helper Ok(pseudonyms)/Err.
async fn prf16_lane_attack(seed: u64, attacker: usize, l0: usize, l1: usize, honest: bool) -> Vec<HelperRes> {
    use rand::Rng;
    use crate::ff::Serializable;
    let mut cfg = TestWorldConfig::default();
    cfg.seed = seed;
    cfg.timeout = None;
    let hits = Arc::new(Mutex::new(0u32));
    if !honest {
        let hits = Arc::clone(&hits);
        cfg.stream_interceptor = Arc::new(move |ctx: &crate::helpers::in_memory_config::InspectContext, data: &mut Vec<u8>| {
            if let crate::helpers::in_memory_config::InspectContext::MpcMessage { source, dest, gate, .. } = ctx {
                let ids = [crate::helpers::HelperIdentity::ONE, crate::helpers::HelperIdentity::TWO, crate::helpers::HelperIdentity::THREE];
                let src = ids.iter().position(|i| i == source).unwrap();
                let dst = ids.iter().position(|i| i == dest).unwrap();
                let g = gate.as_ref();
                let mult = g.ends_with("mult_mask_with_p_r_f_input") && dst == (attacker + 2) % 3;
                let reveal = g.ends_with("revealz") && dst == (attacker + 1) % 3;
                if src == attacker && (mult || reveal) && data.len() >= 32 * 16 {
                    let d = Fp25519::from(0x1234_5678_9abc_def1_u64);
                    for (lane, sign) in [(l0, true), (l1, false)] {
                        let sl = &mut data[32 * lane..32 * (lane + 1)];
                        let v = Fp25519::deserialize_infallible(generic_array::GenericArray::from_slice(sl));
                        let v = if sign { v + d } else { v - d };
                        let mut buf = generic_array::GenericArray::default();
                        v.serialize(&mut buf);
                        sl.copy_from_slice(&buf);
                    }
                    *hits.lock().unwrap() += 1;
                }
            }
        });
    }
    let world = TestWorld::new_with(&cfg);
    let mut r = VRng::new(seed ^ 0xc04a, 5);
    let mut inputs: [Vec<Replicated<Fp25519, 16>>; 3] = Default::default();
    {
        let lanes: [[Replicated<Fp25519>; 3]; 16] = std::array::from_fn(|_| {
            let x: Fp25519 = r.r#gen();
            share_field(x, &mut r)
        });
        for h in 0..3 {
            let l: [Fp25519; 16] = std::array::from_fn(|k| lanes[k][h].left());
            let rr: [Fp25519; 16] = std::array::from_fn(|k| lanes[k][h].right());
            inputs[h].push(Replicated::<Fp25519, 16>::new_arr(l.to_vec().try_into().unwrap(), rr.to_vec().try_into().unwrap()));
        }
    }
    let ctxs = world.malicious_contexts();
    let futs = ctxs.into_iter().zip(inputs).map(|(ctx, inp)| async move {
        catch_fut(async move {
            let key = gen_prf_key::<_, 1>(&ctx.narrow("prf-key"));
            let ctx = ctx.narrow("eval").set_total_records(TotalRecords::ONE);
            let v = ctx.validator::<Fp25519>();
            let m_ctx = v.context();
            let x = inp.into_iter().next().unwrap();
            let out = eval_dy_prf::<_, 16>(m_ctx, RecordId::FIRST, &key, x).await?;
            Ok::<_, Error>(out.iter().map(|v| u128::from(*v)).collect::<Vec<_>>())
        })
        .await
        .map(|r| r.map_err(|e| format!("{e:?}")))
    });
    let res = join_all(futs).await;
    // (on a correct tree validation fails before the reveal, so only the first of the two messages is ever sent)
    if !honest && *hits.lock().unwrap() == 0 {
        return vec![Err("attack-not-applied".into())];
    }
    res
}

#[test]
fn verif_c04_cross_lane_attack() {
    let env = vlib::env();
    let mut rec = Recorder::new("C04", "verif_c04_cross_lane_attack");
    let n = env.pick(9, 45);
    for idx in 0..n {
        if !env.mine(idx) {
            continue;
        }
        let seed = env.seed.wrapping_mul(8111) + (idx / 3) as u64;
        let attacker = idx % 3;
        let mut r = VRng::new(env.seed ^ 0x1a9e, idx as u64);
        let l0 = r.below(16) as usize;
        let l1 = (l0 + 1 + r.below(15) as usize) % 16;
        let honest = match vlib::run_paused(Duration::from_secs(60), prf16_lane_attack(seed, attacker, l0, l1, true)) {
            Paused::Done(v) => v,
            Paused::Quiescent => vec![],
        };
        let expected: Option<Vec<u128>> = match honest.as_slice() {
            [Ok(Ok(a)), Ok(Ok(b)), Ok(Ok(c))] if a == b && b == c => Some(a.clone()),
            _ => None,
        };
        rec.eval();
        let Some(expected) = expected else {
            rec.violation("honest 16-lane PRF evaluation failed", json!({"kind": "honest_failed", "field": "PRF16"}), json!({"case": idx, "res": format!("{honest:?}").chars().take(300).collect::<String>()}));
            continue;
        };
        rec.count("honest_prf16_runs");
        let out = vlib::run_paused(Duration::from_secs(60), prf16_lane_attack(seed, attacker, l0, l1, false));
        rec.eval();
        match out {
            Paused::Quiescent => {
                rec.count("lane_attack_detected");
                rec.distinct(&("lane_attack", attacker, l0, l1));
            }
            Paused::Done(res) if res.len() == 1 => rec.inconclusive(format!("case {idx}: the cross-lane attack did not hit any message")),
            Paused::Done(res) => {
                let honest_ok: Vec<&Vec<u128>> = (0..3).filter(|h| *h != attacker).filter_map(|h| match &res[h] { Ok(Ok(v)) => Some(v), _ => None }).collect();
                if honest_ok.len() < 2 {
                    rec.count("lane_attack_detected");
                    rec.distinct(&("lane_attack", attacker, l0, l1));
                } else if honest_ok.iter().all(|v| **v == expected) {
                    rec.count("lane_attack_accepted_but_values_unchanged");
                } else {
                    rec.violation(
                        "a zero-sum additive attack across two lanes of one vectorised record passed MAC validation and changed the opened values",
                        json!({"kind": "cross_lane_attack_accepted", "field": "Fp25519x16"}),
                        json!({"case": idx, "attacker": attacker, "lanes": [l0, l1], "seed": seed}),
                    );
                }
            }
        }
    }
    rec.sample(json!({"attack": "+d on lane a, -d on lane b of the multiplication message and of the revealed share", "lanes": 16}));
    rec.finish();
}

// ---- every malicious-context opening compares the two received copies ---------------------------------------

/// kinds: 0 = MAC ctx / plain share, 1 = MAC ctx / MAC share, 2 = sharded MAC ctx / plain share,
/// 3 = sharded MAC ctx / MAC share, 4 = DZKP malicious ctx / plain share, 5 = sharded DZKP malicious ctx / plain share
const REVEAL_KINDS: [&str; 6] = ["mac/plain", "mac/upgraded", "sharded-mac/plain", "sharded-mac/upgraded", "dzkp/plain", "sharded-dzkp/plain"];

macro_rules! open_with {
    ($ctx:expr, $share:expr, $kind:expr) => {{
        let ctx = $ctx.set_total_records(TotalRecords::ONE);
        let share: Replicated<Fp32BitPrime> = $share;
        catch_fut(async move {
            let rid = RecordId::FIRST;
            match $kind {
                0 | 2 => {
                    let v = ctx.validator::<Fp32BitPrime>();
                    let m = v.context();
                    let o = share.reveal(m.narrow("c04-open"), rid).await?;
                    Ok::<_, Error>(Fp32BitPrime::from_array(&o).as_u128())
                }
                1 | 3 => {
                    let v = ctx.validator::<Fp32BitPrime>();
                    let m = v.context();
                    let up = share.upgrade(m.narrow("c04-up"), rid).await?;
                    m.validate_record(rid).await?;
                    let o = up.reveal(m.narrow("c04-open"), rid).await?;
                    Ok(Fp32BitPrime::from_array(&o).as_u128())
                }
                _ => {
                    let v = ctx.dzkp_validator(crate::protocol::context::TEST_DZKP_STEPS, 1);
                    let m = v.context();
                    let o = share.reveal(m.narrow("c04-open"), rid).await?;
                    Ok(Fp32BitPrime::from_array(&o).as_u128())
                }
            }
        })
    }};
}

async fn reveal_world(kind: usize, seed: u64, interceptor: DynStreamInterceptor) -> Vec<[HelperRes; 3]> {
    use crate::protocol::context::dzkp_validator::DZKPValidator;
    let mut cfg = TestWorldConfig::default();
    cfg.seed = seed;
    cfg.timeout = None;
    cfg.stream_interceptor = interceptor;
    let mut r = VRng::new(seed ^ 0x0be4, 1);
    let secret = Fp32BitPrime::truncate_from(77_777u128 + u128::from(seed % 1000));
    let conv = |x: Result<Result<u128, Error>, String>| -> HelperRes { x.map(|r| r.map(|v| vec![v]).map_err(|e| format!("{e:?}"))) };
    if kind == 2 || kind == 3 || kind == 5 {
        let world = TestWorld::<crate::test_fixture::WithShards<2>>::with_shards(&cfg);
        let ctxs = world.malicious_contexts();
        let mut futs = Vec::new();
        let shares: [[Replicated<Fp32BitPrime>; 3]; 2] = [share_field(secret, &mut r), share_field(secret, &mut r)];
        for (h, hctx) in ctxs.into_iter().enumerate() {
            for (sh, ctx) in hctx.into_iter().enumerate() {
                let share = shares[sh][h].clone();
                futs.push(async move { (sh, h, open_with!(ctx, share, kind).await) });
            }
        }
        let mut out: Vec<[HelperRes; 3]> = vec![std::array::from_fn(|_| Err("missing".into())), std::array::from_fn(|_| Err("missing".into()))];
        for (sh, h, r) in join_all(futs).await {
            out[sh][h] = conv(r);
        }
        out
    } else {
        let world = TestWorld::new_with(&cfg);
        let ctxs = world.malicious_contexts();
        let shares = share_field(secret, &mut r);
        let futs = ctxs.into_iter().zip(shares).map(|(ctx, share)| async move { open_with!(ctx, share, kind).await });
        let v = join_all(futs).await;
        let mut it = v.into_iter();
        vec![[conv(it.next().unwrap()), conv(it.next().unwrap()), conv(it.next().unwrap())]]
    }
}

#[test]
fn verif_c04_reveal_copies() {
    let env = vlib::env();
    let mut rec = Recorder::new("C04", "verif_c04_reveal_copies");
    let mut idx = 0usize;
    for kind in 0..REVEAL_KINDS.len() {
        for rep in 0..env.pick(1, 4) {
            let seed = env.seed.wrapping_mul(9001) + (kind * 10 + rep) as u64;
            let st = Arc::new(Mutex::new(TapState::default()));
            let honest = vlib::run_paused(Duration::from_secs(60), reveal_world(kind, seed, wl::tap(Arc::clone(&st))));
            let st = std::mem::take(&mut *st.lock().unwrap());
            let want = 77_777u128 + u128::from(seed % 1000);
            let honest_ok = matches!(&honest, Paused::Done(v) if v.iter().all(|s| s.iter().all(|h| matches!(h, Ok(Ok(x)) if x == &vec![want]))));
            idx += 1;
            if env.mine(idx) {
                rec.eval();
                if honest_ok {
                    rec.count("honest_openings_ok");
                    rec.distinct(&("open", kind, rep));
                } else {
                    rec.violation("an honest opening failed or returned a wrong value", json!({"kind": "honest_open_failed", "flavour": REVEAL_KINDS[kind]}),
                        json!({"case": idx, "seed": seed, "res": match &honest { Paused::Done(v) => format!("{v:?}").chars().take(300).collect::<String>(), Paused::Quiescent => "quiescent".into() }}));
                }
            }
            if !honest_ok {
                continue;
            }
            // alter each chunk of the opening step, one at a time
            for c in st.chunks.iter().filter(|c| c.key.gate.contains("c04-open")) {
                for pat in 0..2 {
                    idx += 1;
                    if !env.mine(idx) {
                        continue;
                    }
                    let pattern = if pat == 0 { Pattern::AddOne { byte: 0, width: 4 } } else { Pattern::FlipBit { byte: 1, bit: 3 } };
                    let fault = Fault { key: c.key.clone(), chunk_no: c.chunk_no, pattern };
                    let st2 = Arc::new(Mutex::new(TapState { fault: Some(fault.clone()), ..Default::default() }));
                    let out = vlib::run_paused(Duration::from_secs(60), reveal_world(kind, seed, wl::tap(Arc::clone(&st2))));
                    let applied = st2.lock().unwrap().fault_applied;
                    if !matches!(applied, Some((_, true))) {
                        rec.count("fault_not_applied");
                        continue;
                    }
                    rec.eval();
                    let shard = c.key.shard as usize;
                    let dst = c.key.dst as usize;
                    // the receiver of the altered copy must not open a value
                    let receiver_opened = match &out {
                        Paused::Quiescent => false,
                        Paused::Done(v) => matches!(&v[shard.min(v.len() - 1)][dst], Ok(Ok(_))),
                    };
                    if receiver_opened {
                        rec.violation(
                            "a helper opened a value although one of the two copies of the missing share it received was altered",
                            json!({"kind": "opened_with_mismatching_copies", "flavour": REVEAL_KINDS[kind]}),
                            json!({"case": idx, "seed": seed, "fault": fault.to_json(),
                                   "res": match &out { Paused::Done(v) => format!("{v:?}").chars().take(300).collect::<String>(), Paused::Quiescent => "quiescent".into() }}),
                        );
                    } else {
                        rec.count("altered_copy_rejected");
                        rec.seen("reveal_flavours_faulted", REVEAL_KINDS[kind]);
                        rec.distinct(&("open-fault", kind, c.key.src, c.key.dst, c.key.shard, pat));
                    }
                }
            }
        }
    }
    rec.sample(json!({"flavours": REVEAL_KINDS}));
    rec.finish();
}

pub fn run_mac(case: &MacCase, fault: Option<Fault>) -> (Paused<(Vec<HelperRes>, Vec<u128>)>, TapState) {
    let st = Arc::new(Mutex::new(TapState { fault, ..Default::default() }));
    let tap = wl::tap(Arc::clone(&st));
    let c = case.clone();
    let out = vlib::run_paused(Duration::from_secs(60), async move {
        match c.field {
            "Fp31" => mac_fp31(c, tap).await,
            "Fp32BitPrime" => mac_fp32(c, tap).await,
            "Fp25519" => mac_fp25519(c, tap).await,
            _ => prf_body(c, tap).await,
        }
    });
    let st = std::mem::take(&mut *st.lock().unwrap());
    (out, st)
}

fn elem_size(field: &str, fam: &str) -> usize {
    // serialized size of the elements travelling on a channel (MAC accumulators travel in the extended field)
    match field {
        "Fp31" => if fam.contains("validate") || fam.contains("upgrade") || fam.contains("duplicate") { 4 } else { 1 },
        "Fp32BitPrime" => 4,
        _ => 32,
    }
}

fn honest_ok(res: &[HelperRes], expect: &[u128], is_prf: bool) -> Result<(), String> {
    let mut vals: Vec<&Vec<u128>> = Vec::new();
    for (h, r) in res.iter().enumerate() {
        match r {
            Ok(Ok(v)) => vals.push(v),
            other => return Err(format!("helper {h}: {other:?}").chars().take(200).collect()),
        }
    }
    if vals[0] != vals[1] || vals[1] != vals[2] {
        return Err("helpers opened different values".into());
    }
    if !is_prf && vals[0] != expect {
        return Err(format!("opened values differ from a*b*a: got {:?} want {:?}", &vals[0][..vals[0].len().min(4)], &expect[..expect.len().min(4)]));
    }
    Ok(())
}

/// one-sided bound: P[Binomial(n, p) >= u] < 1e-9 ?  (normal approximation with a generous margin, exact for tiny n)
fn exceeds_allowance(u: u64, n: u64, p: f64) -> bool {
    if n == 0 {
        return false;
    }
    let mean = n as f64 * p;
    let sd = (n as f64 * p * (1.0 - p)).sqrt();
    (u as f64) > mean + 6.5 * sd + 3.0
}

#[test]
fn verif_c04_mac_faults() {
    let env = vlib::env();
    let mut rec = Recorder::new("C04", "verif_c04_mac_faults");
    // (field, count, active): 1, 2 and 3 batches incl. a short last batch
    let mut configs: Vec<(&'static str, usize, u32)> = vec![
        ("Fp32BitPrime", 2, 2), ("Fp32BitPrime", 7, 4), ("Fp25519", 3, 2), ("Fp25519", 9, 4), ("Fp31", 5, 2), ("PRF", 6, 4),
        ("Fp32BitPrime", 12, 4), ("Fp25519", 5, 2), ("Fp31", 9, 4), ("PRF", 9, 2),
    ];
    if env.thorough {
        configs.extend([("Fp32BitPrime", 33, 16), ("Fp25519", 16, 16), ("Fp31", 20, 16), ("PRF", 17, 16), ("Fp32BitPrime", 3, 2), ("Fp25519", 12, 4)]);
    }
    let mut idx = 0usize;
    let mut fp31_faults = 0u64;
    let mut fp31_undetected = 0u64;
    for (ci, (field, count, active)) in configs.into_iter().enumerate() {
        let case = MacCase { field, count, active, seed: env.seed.wrapping_mul(4001) + ci as u64 };
        let is_prf = field == "PRF";
        let (honest, st) = run_mac(&case, None);
        let hok = match &honest {
            Paused::Done((res, expect)) => honest_ok(res, expect, is_prf),
            Paused::Quiescent => Err("did not complete".into()),
        };
        idx += 1;
        if env.mine(idx) {
            rec.eval();
            match &hok {
                Ok(()) => {
                    rec.count("honest_runs_validated_and_opened");
                    rec.distinct(&("honest", field, count, active));
                }
                Err(e) => rec.violation(
                    "an honest MAC-protected computation failed",
                    json!({"kind": "honest_failed", "field": field}),
                    json!({"case": idx, "mac_case": format!("{case:?}"), "detail": e}),
                ),
            }
        }
        if hok.is_err() {
            continue;
        }
        let mut by_family: BTreeMap<(String, u8), Vec<&ChunkInfo>> = BTreeMap::new();
        for c in &st.chunks {
            let fam = wl::step_family(&c.key.gate);
            rec.seen("step_families_seen", format!("{field}:{fam}"));
            by_family.entry((fam, c.key.src)).or_default().push(c);
        }
        let mut r = VRng::new(case.seed ^ 0xfa04, 1);
        let per_family = env.pick(6, 18);
        for ((fam, src), chunks) in &by_family {
            for k in 0..per_family {
                idx += 1;
                if !env.mine(idx) {
                    continue;
                }
                // first / middle / last chunk of the channel => error in first / middle / last batch
                let c = match k % 3 { 0 => chunks[0], 1 => chunks[chunks.len() / 2], _ => chunks[chunks.len() - 1] };
                let es = elem_size(field, fam).min(c.len.max(1));
                let n_elems = (c.len / es).max(1);
                let e = r.below(n_elems as u64) as usize;
                let pattern = match (k / 3) % 3 {
                    0 => Pattern::AddOne { byte: e * es, width: es },
                    1 => Pattern::FlipBit { byte: e * es, bit: (r.below(5)) as u8 },
                    _ => Pattern::XorFf { byte: e * es },
                };
                let fault = Fault { key: c.key.clone(), chunk_no: c.chunk_no, pattern };
                let (out, st2) = run_mac(&case, Some(fault.clone()));
                if !matches!(st2.fault_applied, Some((_, true))) {
                    rec.count("fault_not_applied");
                    continue;
                }
                rec.eval();
                rec.seen("step_families_faulted", format!("{field}:{fam}"));
                let corrupt = *src as usize;
                let honest_all_ok = match &out {
                    Paused::Quiescent => false,
                    Paused::Done((res, _)) => (0..3).filter(|h| *h != corrupt).all(|h| matches!(res[h], Ok(Ok(_)))),
                };
                if !honest_all_ok {
                    rec.count("deviation_detected");
                    rec.distinct(&(field, fam.as_str(), *src, k % 3, (k / 3) % 3));
                    if field == "Fp31" {
                        fp31_faults += 1;
                    }
                    continue;
                }
                if field == "Fp31" {
                    // allowed with probability about 2/31 per run; counted, judged at the end
                    fp31_faults += 1;
                    fp31_undetected += 1;
                    rec.count("fp31_undetected_within_allowance_so_far");
                    continue;
                }
                rec.violation(
                    "an altered message of a MAC-protected computation was accepted by both honest helpers",
                    json!({"kind": "deviation_accepted", "field": field, "step_family": fam, "src": src}),
                    json!({"case": idx, "mac_case": format!("{case:?}"), "fault": fault.to_json(), "chunk_len": c.len,
                           "result": match &out { Paused::Done((res, _)) => format!("{res:?}").chars().take(300).collect::<String>(), Paused::Quiescent => "quiescent".into() }}),
                );
            }
        }
    }
    rec.eval();
    rec.add("fp31_faults", fp31_faults);
    if exceeds_allowance(fp31_undetected, fp31_faults, 2.0 / 31.0) {
        rec.violation(
            "additive deviations over Fp31 go undetected far more often than 2/31",
            json!({"kind": "fp31_detection_rate"}),
            json!({"faults": fp31_faults, "undetected": fp31_undetected}),
        );
    }
    rec.sample(json!({"fp31_faults": fp31_faults, "fp31_undetected": fp31_undetected}));
    rec.finish();
}

// ---------------------------------------------------------------------------------------------
// adaptive adversary: correlated errors built from a MAC key that was opened earlier
// ---------------------------------------------------------------------------------------------
//
// Validation of a batch opens that batch's MAC key r to every helper. A helper that later adds eps to its [a*b]
// message and r_old * eps to its [r*a*b] message of a record in ANOTHER batch is caught because that batch has a key
// of its own (u - r*w = alpha * eps * (r_old - r) != 0 except with probability 1/|F|). Single-message errors
// (verif_c04_mac_faults) cannot tell whether keys are per batch.

/// Returns (verdicts of the three helpers, reconstructed product of `target` from the two honest helpers' shares if
/// both accepted, expected product, number of messages the adversary changed).
async fn opened_key_attack(seed: u64, attacker: usize, batch: usize, batches: usize, target: usize, key_of: usize, eps: u64)
    -> (Vec<Result<(), String>>, Option<u128>, u128, usize) {
    use std::collections::HashMap;
    use crate::{
        ff::{Fp32BitPrime, Serializable, U128Conversions},
        helpers::{HelperIdentity, in_memory_config::InspectContext},
        secret_sharing::replicated::malicious::ThisCodeIsAuthorizedToDowngradeFromMalicious,
    };
    type F = Fp32BitPrime;
    const SZ: usize = 4;
    let count = batch * batches;
    let key_shares: Arc<Mutex<Vec<F>>> = Arc::new(Mutex::new(Vec::new()));
    let offsets: Arc<Mutex<HashMap<String, usize>>> = Arc::default();
    let changed = Arc::new(Mutex::new(0usize));
    let mut cfg = TestWorldConfig::default();
    cfg.seed = seed;
    cfg.timeout = None;
    cfg.gateway_config.active = batch.try_into().unwrap();
    {
        let (key_shares, offsets, changed) = (Arc::clone(&key_shares), Arc::clone(&offsets), Arc::clone(&changed));
        cfg.stream_interceptor = Arc::new(move |ctx: &InspectContext, data: &mut Vec<u8>| {
            let InspectContext::MpcMessage { source, dest, gate, .. } = ctx else { return };
            let ids = [HelperIdentity::ONE, HelperIdentity::TWO, HelperIdentity::THREE];
            let src = ids.iter().position(|i| i == source).unwrap();
            let dst = ids.iter().position(|i| i == dest).unwrap();
            // multiplication messages travel to the left neighbour
            if src != attacker || dst != (attacker + 2) % 3 {
                return;
            }
            let g = gate.as_ref().to_string();
            let on_rab = g.ends_with("mul/duplicate_multiply");
            let on_ab = g.ends_with("/mul");
            if !on_rab && !on_ab {
                return;
            }
            let mut offs = offsets.lock().unwrap();
            let start = offs.entry(g).or_insert(0);
            let (lo, hi) = (target * SZ, (target + 1) * SZ);
            if *start <= lo && hi <= *start + data.len() {
                let sl = &mut data[lo - *start..hi - *start];
                let delta = if on_rab {
                    let ks = key_shares.lock().unwrap();
                    ks.iter().fold(F::ZERO, |a, s| a + *s) * F::truncate_from(u128::from(eps))
                } else {
                    F::truncate_from(u128::from(eps))
                };
                let v = F::deserialize_from_slice(sl) + delta;
                v.serialize_to_slice(sl);
                *changed.lock().unwrap() += 1;
            }
            *start += data.len();
        });
    }
    let world = TestWorld::new_with(&cfg);
    let mut r = VRng::new(seed ^ 0xc04e, 9);
    let plain: Vec<(F, F)> = (0..count).map(|_| (F::truncate_from(u128::from(r.next() % 4_000_000_000)), F::truncate_from(u128::from(r.next() % 4_000_000_000)))).collect();
    let expected = (plain[target].0 * plain[target].1).as_u128();
    let mut inputs: [Vec<(Replicated<F>, Replicated<F>)>; 3] = Default::default();
    for (a, b) in &plain {
        let (sa, sb) = (share_field(*a, &mut r), share_field(*b, &mut r));
        for h in 0..3 {
            inputs[h].push((sa[h].clone(), sb[h].clone()));
        }
    }
    let ctxs = world.malicious_contexts();
    let futs = ctxs.into_iter().zip(inputs).map(|(ctx, inp)| {
        let key_shares = Arc::clone(&key_shares);
        async move {
            catch_fut(async move {
                let ctx = ctx.set_total_records(TotalRecords::specified(count).unwrap());
                let v = ctx.validator::<F>();
                let m_ctx = v.context();
                // this helper's share of the key of batch `key_of`: it is opened on the wire when that batch is validated;
                // the adversary may use the sum from then on (records are processed batch by batch below)
                key_shares.lock().unwrap().push(m_ctx.r(RecordId::from(key_of * batch)).left());
                let mut shares_of_target = None;
                for b in 0..batches {
                    let range = b * batch..(b + 1) * batch;
                    let out = m_ctx
                        .try_join(range.clone().map(|i| {
                            let ctx = m_ctx.clone();
                            let (a, bb) = inp[i].clone();
                            async move {
                                let rid = RecordId::from(i);
                                let (am, bm) = (a, bb).upgrade(ctx.narrow("upgrade"), rid).await?;
                                let ab = am.multiply(&bm, ctx.narrow("mul"), rid).await?;
                                ctx.validate_record(rid).await?;
                                Ok::<_, Error>(ab.x().access_without_downgrade().clone())
                            }
                        }))
                        .await?;
                    if range.contains(&target) {
                        shares_of_target = Some(out[target - range.start].clone());
                    }
                }
                Ok::<_, Error>(shares_of_target.unwrap())
            })
            .await
            .map(|r| r.map_err(|e| format!("{e:?}")))
        }
    });
    let res: Vec<Result<Result<Replicated<F>, String>, String>> = join_all(futs).await;
    let flat: Vec<Result<Replicated<F>, String>> = res.into_iter().map(|r| r.and_then(|x| x)).collect();
    let h1 = (attacker + 1) % 3;
    let h2 = (attacker + 2) % 3;
    // the two honest helpers together hold all three additive shares
    let rec = match (&flat[h1], &flat[h2]) {
        (Ok(s1), Ok(s2)) => Some((s1.left() + s1.right() + s2.right()).as_u128()),
        _ => None,
    };
    let n = *changed.lock().unwrap();
    (flat.into_iter().map(|r| r.map(|_| ())).collect(), rec, expected, n)
}

#[test]
fn verif_c04_opened_key_attack() {
    let env = vlib::env();
    let mut rec = Recorder::new("C04", "verif_c04_opened_key_attack");
    let cases = env.pick(96, 960);
    for idx in 0..cases {
        if !env.mine(idx) {
            continue;
        }
        let mut r = VRng::new(env.seed ^ 0xc04b, idx as u64);
        let attacker = idx % 3;
        let batch = [2usize, 4, 16][(idx / 3) % 3];
        let batches = 2 + (idx / 9) % 2;
        // key of one batch, target in another one (every ordered pair of batches is reachable; only a key that is
        // already open when the target's messages leave is a real attack, i.e. key_of < target batch)
        let key_of = r.below(batches as u64 - 1) as usize;
        let tb = key_of + 1 + r.below((batches - key_of - 1) as u64) as usize;
        let target = tb * batch + r.below(batch as u64) as usize;
        let eps = 1 + r.below(1 << 20);
        let honest_control = idx % 8 == 7;
        let seed = env.seed.wrapping_mul(4099) ^ idx as u64;
        let out = vlib::run_paused(Duration::from_secs(120), opened_key_attack(seed, if honest_control { 9 } else { attacker }, batch, batches, target, key_of, eps));
        rec.eval();
        let witness = json!({"case": idx, "attacker": attacker, "records_per_batch": batch, "batches": batches, "key_of_batch": key_of, "target_record": target, "eps": eps});
        match out {
            Paused::Quiescent => rec.violation("MAC-protected multiplications did not complete", json!({"kind": "no_completion", "attack": "opened_key"}), witness),
            Paused::Done((verdicts, reconstructed, expected, changed)) => {
                if honest_control {
                    if verdicts.iter().all(Result::is_ok) && reconstructed == Some(expected) {
                        rec.count("opened_key_honest_controls_accepted");
                    } else {
                        rec.violation("an honest multi-batch execution did not validate", json!({"kind": "honest_rejected", "attack": "opened_key"}),
                                      json!({"case": idx, "verdicts": format!("{verdicts:?}"), "reconstructed": reconstructed.map(|v| v.to_string()), "expected": expected.to_string()}));
                    }
                    continue;
                }
                if changed != 2 {
                    rec.count("opened_key_attack_not_applied");
                    continue;
                }
                let h1 = (attacker + 1) % 3;
                let h2 = (attacker + 2) % 3;
                if verdicts[h1].is_err() || verdicts[h2].is_err() {
                    rec.count("opened_key_attack_detected");
                    rec.distinct(&(attacker, batch, batches, key_of, target));
                    rec.seen("opened_key_batch_pairs", format!("{batch}x{batches}:{key_of}->{tb}"));
                } else if reconstructed != Some(expected) {
                    rec.violation(
                        "correlated errors built from the opened MAC key of another batch were accepted: the honest helpers hold a wrong product",
                        json!({"kind": "tamper_accepted", "attack": "opened_key_of_other_batch"}),
                        json!({"case": idx, "attacker": attacker, "records_per_batch": batch, "batches": batches, "key_of_batch": key_of, "target_record": target, "eps": eps,
                               "reconstructed": reconstructed.map(|v| v.to_string()), "expected": expected.to_string()}),
                    );
                } else {
                    rec.count("opened_key_attack_without_effect");
                }
            }
        }
        if rec.want_sample() && idx % 17 == 2 {
            rec.sample(json!({"attack": "opened key of another batch", "case": idx, "attacker": attacker, "records_per_batch": batch, "batches": batches}));
        }
    }
    rec.finish();
}
